//! vpfacts — MIR/HIR fact extractor for the varpro static checks.
//!
//! Injected with RUSTC_WORKSPACE_WRAPPER under `cargo +nightly check`; behaves
//! exactly like rustc, and for the crate named in $VP_CRATE (default `varpro`,
//! crate type lib) additionally writes one JSON fact file to $VP_FACTS_OUT.
//! No analysis happens here; this only prints what the compiler resolved.
#![feature(rustc_private)]
#![allow(clippy::all)]

extern crate rustc_abi;
extern crate rustc_driver;
extern crate rustc_hir;
extern crate rustc_interface;
extern crate rustc_middle;
extern crate rustc_span;

mod json;
use json::J;

use rustc_hir::def::DefKind;
use rustc_hir::def_id::{DefId, LocalDefId};
use rustc_middle::mir::{self, *};
use rustc_middle::ty::print::PrintTraitRefExt;
use rustc_middle::ty::{self, Ty, TyCtxt};
use rustc_span::Span;

struct Cb;

impl rustc_driver::Callbacks for Cb {
    fn after_analysis<'tcx>(
        &mut self,
        _compiler: &rustc_interface::interface::Compiler,
        tcx: TyCtxt<'tcx>,
    ) -> rustc_driver::Compilation {
        let want = std::env::var("VP_CRATE").unwrap_or_else(|_| "varpro".to_string());
        let name = tcx.crate_name(rustc_hir::def_id::LOCAL_CRATE).to_string();
        if name == want {
            if let Ok(out) = std::env::var("VP_FACTS_OUT") {
                let facts = dump_crate(tcx, &name);
                let tmp = format!("{}.tmp.{}", out, std::process::id());
                std::fs::write(&tmp, facts.to_string()).expect("write facts");
                std::fs::rename(&tmp, &out).expect("rename facts");
            }
        }
        rustc_driver::Compilation::Continue
    }
}

fn main() {
    let mut args: Vec<String> = std::env::args().collect();
    // RUSTC_WORKSPACE_WRAPPER: argv = [wrapper, rustc, args...]
    if args.len() > 1 && (args[1].ends_with("rustc") || args[1].contains("/rustc")) {
        args.remove(1);
    }
    rustc_driver::run_compiler(&args, &mut Cb);
}

// ---------------------------------------------------------------------------

fn span_j(tcx: TyCtxt<'_>, sp: Span) -> J {
    let sm = tcx.sess.source_map();
    let call = sp.source_callsite();
    let lo = sm.lookup_char_pos(call.lo());
    let hi = sm.lookup_char_pos(call.hi());
    let file = format!("{}", lo.file.name.prefer_local_unconditionally());
    let macros: Vec<J> = sp
        .macro_backtrace()
        .map(|e| J::s(format!("{}", e.kind.descr())))
        .collect();
    let mut o = vec![
        ("file".to_string(), J::s(file)),
        ("line".to_string(), J::Int(lo.line as i128)),
        ("col".to_string(), J::Int(lo.col.0 as i128 + 1)),
        ("eline".to_string(), J::Int(hi.line as i128)),
    ];
    if sp.from_expansion() {
        o.push(("exp".to_string(), J::Bool(true)));
        o.push(("macros".to_string(), J::Arr(macros)));
        // innermost location as well (inside the macro definition)
        let ilo = sm.lookup_char_pos(sp.lo());
        o.push(("iline".to_string(), J::Int(ilo.line as i128)));
        o.push((
            "ifile".to_string(),
            J::s(format!("{}", ilo.file.name.prefer_local_unconditionally())),
        ));
    }
    J::Obj(o)
}

fn ty_s(ty: Ty<'_>) -> String {
    let s = rustc_middle::ty::print::with_no_trimmed_paths!(format!("{}", ty));
    if !s.contains('$') {
        return s;
    }
    // an unevaluated const argument is printed as its source snippet; inside a macro_rules! body that is the
    // metavariable (`LevMarProblem<Model, MRHS, $parallel>`), the same text for every expansion. Print the name
    // of the constant item instead, as outside a macro.
    let mut names: Vec<String> = Vec::new();
    rustc_middle::ty::tls::with(|tcx| {
        for arg in ty.walk() {
            if let Some(c) = arg.as_const() {
                if let ty::ConstKind::Unevaluated(uv) = c.kind() {
                    // a named constant, or (inside a macro body) an anonymous constant whose tokens come from the
                    // invocation: their span is the call-site argument
                    let mut n = tcx.opt_item_name(uv.def).map(|x| x.to_string());
                    if n.is_none() {
                        let sm = tcx.sess.source_map();
                        let sp = tcx.def_span(uv.def);
                        for cand in [sp, sp.source_callsite()] {
                            if let Ok(t) = sm.span_to_snippet(cand) {
                                let t = t.trim().trim_start_matches('{').trim_end_matches('}').trim().to_string();
                                if !t.is_empty() && !t.contains('$') && t.chars().all(|ch| ch.is_alphanumeric() || ch == '_' || ch == ':') {
                                    n = Some(t);
                                    break;
                                }
                            }
                        }
                    }
                    if n.is_none() {
                        // … or its value, when it does not depend on generic parameters (`{ PARALLEL_NO }` -> false)
                        if let Ok(v) = tcx.const_eval_poly(uv.def) {
                            if let Some(si) = v.try_to_scalar_int() {
                                let bits = si.to_bits_unchecked();
                                let tyc = tcx.type_of(uv.def).instantiate_identity().skip_norm_wip();
                                n = Some(if tyc.is_bool() { (bits != 0).to_string() } else { bits.to_string() });
                            }
                        }
                    }
                    names.push(n.unwrap_or_else(|| "$const".to_string()));
                }
            }
        }
    });
    let mut out = String::new();
    let mut it = names.into_iter();
    let b: Vec<char> = s.chars().collect();
    let mut i = 0;
    while i < b.len() {
        if b[i] == '$' {
            let mut j = i + 1;
            while j < b.len() && (b[j].is_alphanumeric() || b[j] == '_') {
                j += 1;
            }
            match it.next() {
                Some(n) => out.push_str(&n),
                None => out.extend(b[i..j].iter()),
            }
            i = j;
        } else {
            out.push(b[i]);
            i += 1;
        }
    }
    out
}

fn path_s(tcx: TyCtxt<'_>, did: DefId) -> String {
    rustc_middle::ty::print::with_no_trimmed_paths!(tcx.def_path_str(did))
}

/// head ADT of a type after peeling references / raw pointers / Box is NOT peeled
fn adt_head<'tcx>(tcx: TyCtxt<'tcx>, mut ty: Ty<'tcx>) -> (Option<String>, usize) {
    let mut depth = 0;
    loop {
        match ty.kind() {
            ty::Ref(_, inner, _) => {
                ty = *inner;
                depth += 1;
            }
            ty::RawPtr(inner, _) => {
                ty = *inner;
                depth += 1;
            }
            ty::Adt(def, _) => return (Some(path_s(tcx, def.did())), depth),
            ty::Closure(did, _) => return (Some(format!("closure:{}", stable_key(tcx, *did))), depth),
            ty::Param(p) => return (Some(format!("param:{}", p.name)), depth),
            _ => return (None, depth),
        }
    }
}

/// line-free key of a local item
fn stable_key(tcx: TyCtxt<'_>, did: DefId) -> String {
    let kind = tcx.def_kind(did);
    match kind {
        DefKind::Closure | DefKind::InlineConst | DefKind::AnonConst => {
            let parent = tcx.parent(did);
            let dp = tcx.def_path(did);
            let last = dp.data.last().map(|d| d.as_sym(true).to_string()).unwrap_or_default();
            format!("{}::{}", stable_key(tcx, parent), last)
        }
        DefKind::AssocFn | DefKind::AssocConst { .. } | DefKind::AssocTy => {
            let parent = tcx.parent(did);
            let name = tcx.item_name(did).to_string();
            match tcx.def_kind(parent) {
                DefKind::Impl { of_trait } => {
                    let self_ty = ty_s(tcx.type_of(parent).instantiate_identity().skip_norm_wip());
                    if of_trait {
                        let tr = tcx.impl_trait_ref(parent).instantiate_identity().skip_norm_wip();
                        let trs = rustc_middle::ty::print::with_no_trimmed_paths!(format!(
                            "{}",
                            tr.print_only_trait_path()
                        ));
                        format!("<{} as {}>::{}", self_ty, trs, name)
                    } else {
                        format!("<{}>::{}", self_ty, name)
                    }
                }
                _ => path_s(tcx, did),
            }
        }
        _ => path_s(tcx, did),
    }
}

fn vis_s(tcx: TyCtxt<'_>, did: DefId) -> String {
    let v = tcx.visibility(did);
    match v {
        ty::Visibility::Public => "pub".to_string(),
        ty::Visibility::Restricted(m) => {
            if m.is_crate_root() {
                "crate".to_string()
            } else {
                format!("in:{}", path_s(tcx, m))
            }
        }
    }
}

struct BodyCx<'a, 'tcx> {
    tcx: TyCtxt<'tcx>,
    body: &'a Body<'tcx>,
    did: LocalDefId,
    tenv: ty::TypingEnv<'tcx>,
}

impl<'a, 'tcx> BodyCx<'a, 'tcx> {
    fn place(&self, p: &Place<'tcx>) -> J {
        let tcx = self.tcx;
        let mut proj = Vec::new();
        for (base, elem) in p.iter_projections() {
            let bty = base.ty(self.body, tcx);
            let e = match elem {
                ProjectionElem::Deref => J::obj(vec![("k", J::s("deref"))]),
                ProjectionElem::Field(f, fty) => {
                    let mut name = format!("{}", f.index());
                    let mut owner = None;
                    match bty.ty.kind() {
                        ty::Adt(def, _) => {
                            let vi = bty.variant_index.unwrap_or(rustc_abi::FIRST_VARIANT);
                            if def.is_enum() || def.is_struct() || def.is_union() {
                                let v = def.variant(vi);
                                name = v.fields[f].name.to_string();
                                owner = Some(path_s(tcx, def.did()));
                            }
                        }
                        ty::Closure(cdid, _) => {
                            if let Some(l) = cdid.as_local() {
                                let caps = tcx.closure_captures(l);
                                if let Some(c) = caps.get(f.index()) {
                                    name = c.to_string(tcx);
                                    owner = Some(format!("closure:{}", stable_key(tcx, *cdid)));
                                }
                            }
                        }
                        _ => {}
                    }
                    let mut o = vec![
                        ("k", J::s("field")),
                        ("i", J::Int(f.index() as i128)),
                        ("name", J::s(name)),
                        ("ty", J::s(ty_s(fty))),
                    ];
                    if let Some(ow) = owner {
                        o.push(("owner", J::s(ow)));
                    }
                    J::obj(o)
                }
                ProjectionElem::Index(l) => {
                    J::obj(vec![("k", J::s("index")), ("l", J::Int(l.index() as i128))])
                }
                ProjectionElem::ConstantIndex { offset, min_length, from_end } => J::obj(vec![
                    ("k", J::s("cindex")),
                    ("offset", J::Int(offset as i128)),
                    ("min_len", J::Int(min_length as i128)),
                    ("from_end", J::Bool(from_end)),
                ]),
                ProjectionElem::Subslice { from, to, from_end } => J::obj(vec![
                    ("k", J::s("subslice")),
                    ("from", J::Int(from as i128)),
                    ("to", J::Int(to as i128)),
                    ("from_end", J::Bool(from_end)),
                ]),
                ProjectionElem::Downcast(sym, vi) => {
                    let mut vname = sym.map(|s| s.to_string());
                    if vname.is_none() {
                        if let ty::Adt(def, _) = bty.ty.kind() {
                            vname = Some(def.variant(vi).name.to_string());
                        }
                    }
                    J::obj(vec![
                        ("k", J::s("downcast")),
                        ("variant", J::s(vname.unwrap_or_default())),
                        ("vi", J::Int(vi.index() as i128)),
                    ])
                }
                ProjectionElem::OpaqueCast(_) => J::obj(vec![("k", J::s("opaque"))]),
                _ => J::obj(vec![("k", J::s("otherproj"))]),
            };
            proj.push(e);
        }
        J::obj(vec![("l", J::Int(p.local.index() as i128)), ("proj", J::Arr(proj))])
    }

    fn constant(&self, c: &ConstOperand<'tcx>) -> J {
        let tcx = self.tcx;
        let ty = c.const_.ty();
        let mut o: Vec<(&str, J)> = vec![("k", J::s("const")), ("ty", J::s(ty_s(ty)))];
        match ty.kind() {
            ty::FnDef(did, args) => {
                o.push(("fn", self.callee(*did, args)));
            }
            ty::Closure(did, _) => {
                o.push(("closure", J::s(stable_key(tcx, *did))));
            }
            _ => {}
        }
        match c.const_ {
            mir::Const::Ty(_, ct) => {
                if let ty::ConstKind::Param(p) = ct.kind() {
                    o.push(("param", J::s(p.name.to_string())));
                }
            }
            mir::Const::Unevaluated(uv, _) => {
                o.push(("uneval", J::s(path_s(tcx, uv.def))));
                if uv.def.is_local() {
                    o.push(("uneval_key", J::s(stable_key(tcx, uv.def))));
                }
                if uv.promoted.is_some() {
                    o.push(("promoted", J::Bool(true)));
                }
            }
            mir::Const::Val(..) => {}
        }
        if ty.is_integral() || ty.is_bool() || ty.is_char() {
            if let Some(si) = c.const_.try_eval_scalar_int(tcx, self.tenv) {
                let bits = si.to_bits_unchecked();
                let v: i128 = if ty.is_signed() {
                    let size = si.size();
                    size.sign_extend(bits)
                } else {
                    bits as i128
                };
                o.push(("val", J::Int(v)));
            }
        } else if ty.is_floating_point() {
            if let Some(si) = c.const_.try_eval_scalar_int(tcx, self.tenv) {
                let bits = si.to_bits_unchecked();
                let f = if si.size().bytes() == 4 {
                    f32::from_bits(bits as u32) as f64
                } else {
                    f64::from_bits(bits as u64)
                };
                o.push(("fval", J::s(format!("{:?}", f))));
            }
        } else if let ty::Ref(_, inner, _) = ty.kind() {
            if inner.is_str() {
                o.push(("dbg", J::s(format!("{}", c.const_))));
            }
        }
        J::obj(o)
    }

    fn operand(&self, op: &Operand<'tcx>) -> J {
        match op {
            Operand::Copy(p) => J::obj(vec![("k", J::s("copy")), ("place", self.place(p))]),
            Operand::Move(p) => J::obj(vec![("k", J::s("move")), ("place", self.place(p))]),
            Operand::Constant(c) => self.constant(c),
            #[allow(unreachable_patterns)]
            _ => J::obj(vec![("k", J::s("otherop")), ("dbg", J::s(format!("{:?}", op)))]),
        }
    }

    fn callee(&self, did: DefId, args: ty::GenericArgsRef<'tcx>) -> J {
        let tcx = self.tcx;
        let mut o: Vec<(&str, J)> = vec![
            ("path", J::s(path_s(tcx, did))),
            ("name", J::s(tcx.item_name(did).to_string())),
            ("local", J::Bool(did.is_local())),
            ("krate", J::s(tcx.crate_name(did.krate).to_string())),
        ];
        if did.is_local() {
            o.push(("key", J::s(stable_key(tcx, did))));
        }
        let gargs: Vec<J> = args
            .iter()
            .map(|a| J::s(rustc_middle::ty::print::with_no_trimmed_paths!(format!("{}", a))))
            .collect();
        o.push(("gargs", J::Arr(gargs)));
        if matches!(tcx.def_kind(did), DefKind::AssocFn) {
            if let Some(tr) = tcx.trait_of_assoc(did) {
                o.push(("trait", J::s(path_s(tcx, tr))));
                if args.len() > 0 {
                    if let Some(st) = args.get(0).and_then(|a| a.as_type()) {
                        o.push(("self_ty", J::s(ty_s(st))));
                        let (h, _) = adt_head(tcx, st);
                        if let Some(h) = h {
                            o.push(("self_adt", J::s(h)));
                        }
                    }
                }
            } else {
                // inherent method: the impl's self type
                let parent = tcx.parent(did);
                if let DefKind::Impl { .. } = tcx.def_kind(parent) {
                    let st = tcx.type_of(parent).instantiate(tcx, args).skip_norm_wip();
                    o.push(("self_ty", J::s(ty_s(st))));
                    let (h, _) = adt_head(tcx, st);
                    if let Some(h) = h {
                        o.push(("self_adt", J::s(h)));
                    }
                }
            }
        }
        // try to resolve trait calls to a concrete impl
        if let Ok(Some(inst)) = ty::Instance::try_resolve(tcx, self.tenv, did, args) {
            let rdid = inst.def_id();
            if rdid != did {
                o.push(("resolved", J::s(path_s(tcx, rdid))));
                if rdid.is_local() {
                    o.push(("resolved_key", J::s(stable_key(tcx, rdid))));
                }
            }
        }
        J::obj(o)
    }

    fn rvalue(&self, rv: &Rvalue<'tcx>) -> J {
        let tcx = self.tcx;
        match rv {
            Rvalue::Use(op, ..) => J::obj(vec![("k", J::s("use")), ("op", self.operand(op))]),
            Rvalue::CopyForDeref(p) => J::obj(vec![
                ("k", J::s("use")),
                ("op", J::obj(vec![("k", J::s("copy")), ("place", self.place(p))])),
            ]),
            Rvalue::Ref(_, bk, p) => {
                let m = matches!(bk, BorrowKind::Mut { .. });
                J::obj(vec![("k", J::s("ref")), ("mut", J::Bool(m)), ("place", self.place(p))])
            }
            Rvalue::RawPtr(kind, p) => J::obj(vec![
                ("k", J::s("rawptr")),
                ("mut", J::Bool(matches!(kind, RawPtrKind::Mut))),
                ("place", self.place(p)),
            ]),
            Rvalue::Cast(kind, op, ty) => J::obj(vec![
                ("k", J::s("cast")),
                ("kind", J::s(format!("{:?}", kind))),
                ("op", self.operand(op)),
                ("ty", J::s(ty_s(*ty))),
            ]),
            Rvalue::BinaryOp(bop, ops) => J::obj(vec![
                ("k", J::s("bin")),
                ("op", J::s(format!("{:?}", bop))),
                ("a", self.operand(&ops.0)),
                ("b", self.operand(&ops.1)),
            ]),
            Rvalue::UnaryOp(uop, op) => J::obj(vec![
                ("k", J::s("un")),
                ("op", J::s(format!("{:?}", uop))),
                ("a", self.operand(op)),
            ]),
            Rvalue::Discriminant(p) => {
                let pty = p.ty(self.body, tcx).ty;
                let mut variants = Vec::new();
                let mut adt = String::new();
                if let ty::Adt(def, _) = pty.kind() {
                    adt = path_s(tcx, def.did());
                    if def.is_enum() {
                        for (vi, d) in def.discriminants(tcx) {
                            variants.push(J::Arr(vec![
                                J::Int(d.val as i128),
                                J::s(def.variant(vi).name.to_string()),
                            ]));
                        }
                    }
                }
                J::obj(vec![
                    ("k", J::s("discr")),
                    ("place", self.place(p)),
                    ("adt", J::s(adt)),
                    ("variants", J::Arr(variants)),
                ])
            }
            Rvalue::Aggregate(kind, ops) => {
                let opsj: Vec<J> = ops.iter().map(|o| self.operand(o)).collect();
                let mut o: Vec<(&str, J)> = vec![("k", J::s("agg"))];
                match &**kind {
                    AggregateKind::Array(_) => o.push(("agg", J::s("array"))),
                    AggregateKind::Tuple => o.push(("agg", J::s("tuple"))),
                    AggregateKind::Adt(did, vi, _, _, _) => {
                        let def = tcx.adt_def(*did);
                        let v = def.variant(*vi);
                        o.push(("agg", J::s("adt")));
                        o.push(("adt", J::s(path_s(tcx, *did))));
                        o.push(("variant", J::s(v.name.to_string())));
                        o.push((
                            "fields",
                            J::Arr(v.fields.iter().map(|f| J::s(f.name.to_string())).collect()),
                        ));
                    }
                    AggregateKind::Closure(did, _) => {
                        o.push(("agg", J::s("closure")));
                        o.push(("closure", J::s(stable_key(tcx, *did))));
                        if let Some(l) = did.as_local() {
                            let caps = tcx.closure_captures(l);
                            o.push((
                                "fields",
                                J::Arr(caps.iter().map(|c| J::s(c.to_string(tcx))).collect()),
                            ));
                        }
                    }
                    other => {
                        o.push(("agg", J::s("other")));
                        o.push(("dbg", J::s(format!("{:?}", other))));
                    }
                }
                o.push(("ops", J::Arr(opsj)));
                J::obj(o)
            }
            Rvalue::Repeat(op, _) => J::obj(vec![("k", J::s("repeat")), ("op", self.operand(op))]),
            other => J::obj(vec![("k", J::s("other")), ("dbg", J::s(format!("{:?}", other)))]),
        }
    }

    fn stmt(&self, s: &Statement<'tcx>) -> Option<J> {
        match &s.kind {
            StatementKind::Assign(b) => {
                let (p, rv) = &**b;
                Some(J::obj(vec![
                    ("k", J::s("assign")),
                    ("place", self.place(p)),
                    ("rv", self.rvalue(rv)),
                    ("span", span_j(self.tcx, s.source_info.span)),
                ]))
            }
            StatementKind::SetDiscriminant { place, variant_index } => Some(J::obj(vec![
                ("k", J::s("setdiscr")),
                ("place", self.place(place)),
                ("vi", J::Int(variant_index.index() as i128)),
                ("span", span_j(self.tcx, s.source_info.span)),
            ])),
            StatementKind::Intrinsic(i) => Some(J::obj(vec![
                ("k", J::s("intrinsic")),
                ("dbg", J::s(format!("{:?}", i))),
                ("span", span_j(self.tcx, s.source_info.span)),
            ])),
            _ => None,
        }
    }

    fn term(&self, t: &Terminator<'tcx>) -> J {
        let tcx = self.tcx;
        let sp = ("span", span_j(tcx, t.source_info.span));
        match &t.kind {
            TerminatorKind::Goto { target } => {
                J::obj(vec![("k", J::s("goto")), ("t", J::Int(target.index() as i128))])
            }
            TerminatorKind::SwitchInt { discr, targets } => {
                let ts: Vec<J> = targets
                    .iter()
                    .map(|(v, bb)| J::Arr(vec![J::Int(v as i128), J::Int(bb.index() as i128)]))
                    .collect();
                J::obj(vec![
                    ("k", J::s("switch")),
                    ("op", self.operand(discr)),
                    ("targets", J::Arr(ts)),
                    ("otherwise", J::Int(targets.otherwise().index() as i128)),
                    sp,
                ])
            }
            TerminatorKind::Return => J::obj(vec![("k", J::s("return")), sp]),
            TerminatorKind::Unreachable => J::obj(vec![("k", J::s("unreachable"))]),
            TerminatorKind::UnwindResume => J::obj(vec![("k", J::s("resume"))]),
            TerminatorKind::UnwindTerminate(_) => J::obj(vec![("k", J::s("terminate"))]),
            TerminatorKind::Drop { place, target, .. } => J::obj(vec![
                ("k", J::s("drop")),
                ("place", self.place(place)),
                ("t", J::Int(target.index() as i128)),
                sp,
            ]),
            TerminatorKind::Call { func, args, destination, target, fn_span, .. } => {
                let mut o: Vec<(&str, J)> = vec![("k", J::s("call"))];
                if let Some((did, gargs)) = func.const_fn_def() {
                    o.push(("fn", self.callee(did, gargs)));
                } else {
                    o.push(("fnop", self.operand(func)));
                    let fty = func.ty(self.body, tcx);
                    o.push(("fnty", J::s(ty_s(fty))));
                }
                o.push(("args", J::Arr(args.iter().map(|a| self.operand(&a.node)).collect())));
                o.push(("dest", self.place(destination)));
                o.push((
                    "t",
                    match target {
                        Some(t) => J::Int(t.index() as i128),
                        None => J::Null,
                    },
                ));
                o.push(("fn_span", span_j(tcx, *fn_span)));
                o.push(sp);
                J::obj(o)
            }
            TerminatorKind::Assert { cond, expected, msg, target, .. } => {
                let m = match &**msg {
                    AssertKind::BoundsCheck { len, index } => J::obj(vec![
                        ("kind", J::s("BoundsCheck")),
                        ("len", self.operand(len)),
                        ("index", self.operand(index)),
                    ]),
                    AssertKind::Overflow(op, a, b) => J::obj(vec![
                        ("kind", J::s("Overflow")),
                        ("op", J::s(format!("{:?}", op))),
                        ("a", self.operand(a)),
                        ("b", self.operand(b)),
                    ]),
                    AssertKind::OverflowNeg(a) => {
                        J::obj(vec![("kind", J::s("OverflowNeg")), ("a", self.operand(a))])
                    }
                    AssertKind::DivisionByZero(a) => {
                        J::obj(vec![("kind", J::s("DivisionByZero")), ("a", self.operand(a))])
                    }
                    AssertKind::RemainderByZero(a) => {
                        J::obj(vec![("kind", J::s("RemainderByZero")), ("a", self.operand(a))])
                    }
                    other => J::obj(vec![
                        ("kind", J::s("Other")),
                        ("dbg", J::s(format!("{:?}", other))),
                    ]),
                };
                J::obj(vec![
                    ("k", J::s("assert")),
                    ("cond", self.operand(cond)),
                    ("expected", J::Bool(*expected)),
                    ("msg", m),
                    ("t", J::Int(target.index() as i128)),
                    sp,
                ])
            }
            TerminatorKind::FalseEdge { real_target, .. } => {
                J::obj(vec![("k", J::s("goto")), ("t", J::Int(real_target.index() as i128))])
            }
            TerminatorKind::FalseUnwind { real_target, .. } => {
                J::obj(vec![("k", J::s("goto")), ("t", J::Int(real_target.index() as i128))])
            }
            other => J::obj(vec![("k", J::s("otherterm")), ("dbg", J::s(format!("{:?}", other))), sp]),
        }
    }
}

fn dump_body<'tcx>(tcx: TyCtxt<'tcx>, did: LocalDefId) -> J {
    let body = tcx.optimized_mir(did);
    let tenv = ty::TypingEnv::post_analysis(tcx, did);
    let cx = BodyCx { tcx, body, did, tenv };
    let _ = cx.did;
    let gdid = did.to_def_id();
    let kind = tcx.def_kind(gdid);

    let mut names: Vec<Option<String>> = vec![None; body.local_decls.len()];
    let mut dbg = Vec::new();
    for vdi in &body.var_debug_info {
        if let VarDebugInfoContents::Place(p) = &vdi.value {
            if p.projection.is_empty() {
                names[p.local.index()] = Some(vdi.name.to_string());
            }
            dbg.push(J::obj(vec![("name", J::s(vdi.name.to_string())), ("place", cx.place(p))]));
        }
    }
    let locals: Vec<J> = body
        .local_decls
        .iter_enumerated()
        .map(|(l, d)| {
            let (adt, depth) = adt_head(tcx, d.ty);
            let mut o: Vec<(&str, J)> = vec![
                ("ty", J::s(ty_s(d.ty))),
                ("mut", J::Bool(d.mutability == Mutability::Mut)),
                ("refdepth", J::Int(depth as i128)),
            ];
            if let Some(a) = adt {
                o.push(("adt", J::s(a)));
            }
            if let Some(n) = &names[l.index()] {
                o.push(("name", J::s(n.clone())));
            }
            J::obj(o)
        })
        .collect();

    let blocks: Vec<J> = body
        .basic_blocks
        .iter()
        .map(|bb| {
            let stmts: Vec<J> = bb.statements.iter().filter_map(|s| cx.stmt(s)).collect();
            J::obj(vec![
                ("cleanup", J::Bool(bb.is_cleanup)),
                ("stmts", J::Arr(stmts)),
                ("term", cx.term(bb.terminator())),
            ])
        })
        .collect();

    let mut o: Vec<(&str, J)> = vec![
        ("key", J::s(stable_key(tcx, gdid))),
        ("path", J::s(path_s(tcx, gdid))),
        ("kind", J::s(format!("{:?}", kind))),
        ("span", span_j(tcx, tcx.def_span(gdid))),
        ("arg_count", J::Int(body.arg_count as i128)),
        ("locals", J::Arr(locals)),
        ("debug", J::Arr(dbg)),
        ("blocks", J::Arr(blocks)),
    ];
    match kind {
        DefKind::Fn | DefKind::AssocFn => {
            o.push(("name", J::s(tcx.item_name(gdid).to_string())));
            o.push(("vis", J::s(vis_s(tcx, gdid))));
            let sig = tcx.fn_sig(gdid).instantiate_identity().skip_norm_wip().skip_binder();
            o.push(("inputs", J::Arr(sig.inputs().iter().map(|t| J::s(ty_s(*t))).collect())));
            o.push(("output", J::s(ty_s(sig.output()))));
            o.push(("unsafe_fn", J::Bool(sig.safety().is_unsafe())));
        }
        DefKind::Closure => {
            o.push(("parent", J::s(stable_key(tcx, tcx.parent(gdid)))));
            o.push(("root", J::s(stable_key(tcx, tcx.typeck_root_def_id(gdid)))));
            let caps = tcx.closure_captures(did);
            let cj: Vec<J> = caps
                .iter()
                .map(|c| {
                    let by = match c.info.capture_kind {
                        ty::UpvarCapture::ByValue => "value".to_string(),
                        ty::UpvarCapture::ByUse => "use".to_string(),
                        ty::UpvarCapture::ByRef(k) => format!("ref:{:?}", k),
                    };
                    J::obj(vec![
                        ("place", J::s(c.to_string(tcx))),
                        ("var", J::s(c.var_ident.name.to_string())),
                        ("by", J::s(by)),
                        ("ty", J::s(ty_s(c.place.ty()))),
                        ("mutable", J::Bool(c.mutability == Mutability::Mut)),
                    ])
                })
                .collect();
            o.push(("captures", J::Arr(cj)));
        }
        _ => {}
    }
    // enclosing impl
    if matches!(kind, DefKind::AssocFn) {
        let parent = tcx.parent(gdid);
        if let DefKind::Impl { of_trait } = tcx.def_kind(parent) {
            let st = tcx.type_of(parent).instantiate_identity().skip_norm_wip();
            let mut io: Vec<(&str, J)> = vec![("self_ty", J::s(ty_s(st)))];
            let (h, _) = adt_head(tcx, st);
            if let Some(h) = h {
                io.push(("self_adt", J::s(h)));
            }
            if of_trait {
                let tr = tcx.impl_trait_ref(parent).instantiate_identity().skip_norm_wip();
                io.push(("trait", J::s(path_s(tcx, tr.def_id))));
                io.push((
                    "trait_ref",
                    J::s(rustc_middle::ty::print::with_no_trimmed_paths!(format!(
                        "{}",
                        tr.print_only_trait_path()
                    ))),
                ));
            }
            o.push(("impl", J::obj(io)));
        }
    }
    // generics (own + parent) names and kinds
    let mut gens = Vec::new();
    let mut g = Some(tcx.generics_of(gdid));
    while let Some(gg) = g {
        for p in &gg.own_params {
            let k = match p.kind {
                ty::GenericParamDefKind::Lifetime => "lifetime",
                ty::GenericParamDefKind::Type { .. } => "type",
                ty::GenericParamDefKind::Const { .. } => "const",
            };
            gens.push(J::Arr(vec![J::s(p.name.to_string()), J::s(k)]));
        }
        g = gg.parent.map(|p| tcx.generics_of(p));
    }
    o.push(("generics", J::Arr(gens)));
    J::obj(o)
}

struct UnsafeFinder<'tcx> {
    tcx: TyCtxt<'tcx>,
    found: Vec<J>,
    /// keys of the closures the visitor is currently inside of (innermost last): which closure an unsafe block belongs to
    /// is a matter of nesting, not of source lines (macro-generated code has the lines of the macro)
    closures: Vec<String>,
}
impl<'tcx> rustc_hir::intravisit::Visitor<'tcx> for UnsafeFinder<'tcx> {
    type NestedFilter = rustc_middle::hir::nested_filter::OnlyBodies;
    fn maybe_tcx(&mut self) -> Self::MaybeTyCtxt {
        self.tcx
    }
    fn visit_block(&mut self, b: &'tcx rustc_hir::Block<'tcx>) {
        if let rustc_hir::BlockCheckMode::UnsafeBlock(src) = b.rules {
            self.found.push(J::obj(vec![
                ("span", span_j(self.tcx, b.span)),
                ("user", J::Bool(matches!(src, rustc_hir::UnsafeSource::UserProvided))),
                ("closure", match self.closures.last() { Some(k) => J::s(k.clone()), None => J::Null }),
            ]));
        }
        rustc_hir::intravisit::walk_block(self, b);
    }
    fn visit_expr(&mut self, e: &'tcx rustc_hir::Expr<'tcx>) {
        if let rustc_hir::ExprKind::Closure(c) = e.kind {
            self.closures.push(stable_key(self.tcx, c.def_id.to_def_id()));
            rustc_hir::intravisit::walk_expr(self, e);
            self.closures.pop();
        } else {
            rustc_hir::intravisit::walk_expr(self, e);
        }
    }
}

fn dump_crate<'tcx>(tcx: TyCtxt<'tcx>, name: &str) -> J {
    let mut bodies = Vec::new();
    let mut consts = Vec::new();
    let mut unsafes = Vec::new();
    // VP_FILTER: comma separated substrings; when set only bodies whose key contains one of
    // them are dumped (used for large dependency crates)
    let filter: Vec<String> = std::env::var("VP_FILTER")
        .map(|s| s.split(',').filter(|x| !x.is_empty()).map(|x| x.to_string()).collect())
        .unwrap_or_default();
    for did in tcx.hir_body_owners() {
        let gdid = did.to_def_id();
        let kind = tcx.def_kind(gdid);
        if !filter.is_empty() {
            let k = stable_key(tcx, gdid);
            if !filter.iter().any(|f| k.contains(f.as_str())) {
                continue;
            }
        }
        match kind {
            DefKind::Fn | DefKind::AssocFn | DefKind::Closure => {
                bodies.push(dump_body(tcx, did));
                // unsafe blocks of this body (closures are visited as part of their parents
                // too, so only record for non-closures to avoid double counting)
                if !matches!(kind, DefKind::Closure) {
                    let body = tcx.hir_body_owned_by(did);
                    let mut f = UnsafeFinder { tcx, found: Vec::new(), closures: Vec::new() };
                    rustc_hir::intravisit::Visitor::visit_expr(&mut f, body.value);
                    for u in f.found {
                        unsafes.push(J::obj(vec![("in", J::s(stable_key(tcx, gdid))), ("block", u)]));
                    }
                }
            }
            DefKind::AssocConst { .. } | DefKind::Const { .. } => {
                let mut o: Vec<(&str, J)> = vec![
                    ("key", J::s(stable_key(tcx, gdid))),
                    ("path", J::s(path_s(tcx, gdid))),
                    ("span", span_j(tcx, tcx.def_span(gdid))),
                ];
                if tcx.generics_of(gdid).is_empty() || true {
                    if let Ok(v) = tcx.const_eval_poly(gdid) {
                        if let Some(si) = v.try_to_scalar_int() {
                            o.push(("val", J::Int(si.to_bits_unchecked() as i128)));
                        }
                    }
                }
                consts.push(J::obj(o));
            }
            _ => {}
        }
    }
    // ADT tables
    let mut adts = Vec::new();
    let mut impls = Vec::new();
    let mut unsafe_impls = Vec::new();
    for ldid in tcx.hir_crate_items(()).definitions() {
        if !filter.is_empty() {
            break;
        }
        let gdid = ldid.to_def_id();
        match tcx.def_kind(gdid) {
            DefKind::Struct | DefKind::Enum | DefKind::Union => {
                let def = tcx.adt_def(gdid);
                let mut vs = Vec::new();
                for v in def.variants() {
                    let fs: Vec<J> = v
                        .fields
                        .iter()
                        .map(|f| {
                            let fty = tcx.type_of(f.did).instantiate_identity().skip_norm_wip();
                            let (h, _) = adt_head(tcx, fty);
                            let mut o: Vec<(&str, J)> = vec![
                                ("name", J::s(f.name.to_string())),
                                ("ty", J::s(ty_s(fty))),
                                ("vis", J::s(vis_s(tcx, f.did))),
                            ];
                            if let Some(h) = h {
                                o.push(("adt", J::s(h)));
                            }
                            J::obj(o)
                        })
                        .collect();
                    vs.push(J::obj(vec![("name", J::s(v.name.to_string())), ("fields", J::Arr(fs))]));
                }
                adts.push(J::obj(vec![
                    ("path", J::s(path_s(tcx, gdid))),
                    ("kind", J::s(format!("{:?}", tcx.def_kind(gdid)))),
                    ("vis", J::s(vis_s(tcx, gdid))),
                    ("variants", J::Arr(vs)),
                    ("span", span_j(tcx, tcx.def_span(gdid))),
                ]));
            }
            DefKind::Impl { of_trait } => {
                let st = tcx.type_of(gdid).instantiate_identity().skip_norm_wip();
                let mut o: Vec<(&str, J)> = vec![("self_ty", J::s(ty_s(st)))];
                if of_trait {
                    let tr = tcx.impl_trait_ref(gdid).instantiate_identity().skip_norm_wip();
                    o.push(("trait", J::s(path_s(tcx, tr.def_id))));
                    let header = tcx.impl_trait_header(gdid);
                    if header.safety.is_unsafe() {
                        unsafe_impls.push(J::s(ty_s(st)));
                    }
                }
                let items: Vec<J> = tcx
                    .associated_item_def_ids(gdid)
                    .iter()
                    .map(|d| J::s(stable_key(tcx, *d)))
                    .collect();
                o.push(("items", J::Arr(items)));
                impls.push(J::obj(o));
            }
            _ => {}
        }
    }
    J::obj(vec![
        ("crate", J::s(name)),
        ("config", J::s(std::env::var("VP_CONFIG").unwrap_or_default())),
        ("rustc", J::s(option_env!("CFG_VERSION").unwrap_or("nightly"))),
        ("bodies", J::Arr(bodies)),
        ("consts", J::Arr(consts)),
        ("adts", J::Arr(adts)),
        ("impls", J::Arr(impls)),
        ("unsafe_blocks", J::Arr(unsafes)),
        ("unsafe_impls", J::Arr(unsafe_impls)),
    ])
}
