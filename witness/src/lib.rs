//! E5 — type-level witnesses for geo-ant/varpro (compile_fail doc-tests with compiling twins).
//! Run by `bin/vpcheck <Cxx> --tier thorough` through `cargo +nightly test --doc --offline`
//! (the stable toolchain ignores the error code of a compile_fail test).
//! Every witness names only public API items, as an external user would.

/// shared prelude for the doc-tests
#[doc(hidden)]
pub mod common {
    pub use nalgebra::{DMatrix, DVector, Dyn, OMatrix};
    pub use varpro::prelude::*;
    pub use varpro::solvers::levmar::{LevMarProblemBuilder, LevMarSolver};

    /// a hand-written model that is deliberately NOT `Sync`
    pub struct NotSync {
        pub x: DVector<f64>,
        pub tau: f64,
        pub counter: std::rc::Rc<std::cell::Cell<usize>>,
    }
    #[derive(Debug)]
    pub struct E;
    impl std::fmt::Display for E {
        fn fmt(&self, f: &mut std::fmt::Formatter<'_>) -> std::fmt::Result {
            write!(f, "e")
        }
    }
    impl std::error::Error for E {}
    impl SeparableNonlinearModel for NotSync {
        type ScalarType = f64;
        type Error = E;
        fn parameter_count(&self) -> usize {
            1
        }
        fn base_function_count(&self) -> usize {
            1
        }
        fn output_len(&self) -> usize {
            self.x.len()
        }
        fn set_params(&mut self, p: DVector<f64>) -> Result<(), E> {
            self.tau = p[0];
            Ok(())
        }
        fn params(&self) -> DVector<f64> {
            DVector::from_vec(vec![self.tau])
        }
        fn eval(&self) -> Result<OMatrix<f64, Dyn, Dyn>, E> {
            Ok(DMatrix::from_fn(self.x.len(), 1, |i, _| (-self.x[i] / self.tau).exp()))
        }
        fn eval_partial_deriv(&self, _: usize) -> Result<OMatrix<f64, Dyn, Dyn>, E> {
            Ok(DMatrix::from_fn(self.x.len(), 1, |i, _| {
                (-self.x[i] / self.tau).exp() * self.x[i] / (self.tau * self.tau)
            }))
        }
    }
    pub fn not_sync() -> NotSync {
        NotSync {
            x: DVector::from_vec(vec![0., 1., 2., 3.]),
            tau: 1.0,
            counter: Default::default(),
        }
    }
    pub fn y() -> DVector<f64> {
        DVector::from_vec(vec![1., 0.5, 0.25, 0.125])
    }
}

/// W-PAR-SYNC (C11): a model that is not `Sync` cannot be built into a parallel problem.
/// ```compile_fail,E0277
/// use vpwitness::common::*;
/// let _ = LevMarProblemBuilder::new_parallel(not_sync()).observations(y()).build();
/// ```
/// twin: the sequential build of the same model compiles
/// ```
/// use vpwitness::common::*;
/// let _ = LevMarProblemBuilder::new(not_sync()).observations(y()).build();
/// ```
pub struct WParSync;

/// W-STATS-SINGLE-RHS (C12): fit statistics are not offered for multiple right-hand sides.
/// ```compile_fail,E0308
/// use vpwitness::common::*;
/// let p = LevMarProblemBuilder::mrhs(not_sync()).observations(DMatrix::from_element(4, 2, 1.0)).build().unwrap();
/// let _ = LevMarSolver::default().fit_with_statistics(p);
/// ```
/// twin: the single right-hand side call compiles
/// ```
/// use vpwitness::common::*;
/// let p = LevMarProblemBuilder::new(not_sync()).observations(y()).build().unwrap();
/// let _ = LevMarSolver::default().fit_with_statistics(p);
/// ```
pub struct WStatsSingleRhs;

/// W-OBS-SHAPE (C18/C07): a matrix cannot be given to the single-rhs builder ...
/// ```compile_fail,E0308
/// use vpwitness::common::*;
/// let _ = LevMarProblemBuilder::new(not_sync()).observations(DMatrix::from_element(4, 2, 1.0));
/// ```
/// ... nor a vector to the multi-rhs builder
/// ```compile_fail,E0308
/// use vpwitness::common::*;
/// let _ = LevMarProblemBuilder::mrhs(not_sync()).observations(y());
/// ```
/// twins
/// ```
/// use vpwitness::common::*;
/// let _ = LevMarProblemBuilder::new(not_sync()).observations(y());
/// let _ = LevMarProblemBuilder::mrhs(not_sync()).observations(DMatrix::from_element(4, 2, 1.0));
/// ```
pub struct WObsShape;

/// W-STATE-PRIVATE (C02/C10): the cached state of a problem is not reachable from outside:
/// there is no public way to obtain a mutable reference to the model inside a problem.
/// ```compile_fail,E0599
/// use vpwitness::common::*;
/// let mut p = LevMarProblemBuilder::new(not_sync()).observations(y()).build().unwrap();
/// let _m: &mut NotSync = p.model_mut();
/// ```
/// twin: the shared accessor exists
/// ```
/// use vpwitness::common::*;
/// let p = LevMarProblemBuilder::new(not_sync()).observations(y()).build().unwrap();
/// let _m: &NotSync = p.model();
/// ```
pub struct WStatePrivate;
