"""More rules on the problem type and its builder: Kaufman column (C03), weighting (C01/C06),
who-may-write / no-history / definite initialisation (C02/C10), parallel twin (C11),
problem builder (C18), multiple right-hand sides (C07)."""
from core import *
from flow import consumers
import nf as nfmod
import rules_err
from rules_problem import (is_call, ok_of, self_field, strip_mut, wmul_parts, resolve_cache_roles_by_use,
                           flatten_arg)

FULL_COLUMN_WRITES = ("copy_from", "set_column", "copy_from_slice", "fill", "tr_copy_from")
INTERIOR_MUT = ("Cell<", "RefCell<", "Mutex<", "RwLock<", "Atomic", "UnsafeCell<", "OnceCell<", "OnceLock<", "LazyCell<", "LazyLock<")


# --------------------------------------------------------------------------- #
# C03 — Kaufman column
# --------------------------------------------------------------------------- #
def jacobian_column_write(F, ev, b):
    """the (form-independent) write of one Jacobian column, in canonical access form (tab.py): returns
    (matrix container M, column index k, value term, effect, all effects, Canon) or raises AnchorMissing.
    k is ('iv', n) when the column index is the counter of the iteration over the columns."""
    import effects as fx
    import tab
    from rules_panic import nosite
    env = Env(b)
    effs = list(fx.iteration_effects(ev, env))
    cn = tab.Canon(ev)
    # the matrix that is returned
    ev.fresh_ctx()
    rv = ev.ret_val(env)
    alts = rv[1] if rv[0] == "phi" else (rv,)
    rets = []
    for a in alts:
        if a[0] == "opt":
            rets.append(nosite(cn.container(a[1])))
    cw = [w for w in tab.column_writes(cn, effs) if not rets or nosite(w.D) in rets]
    if len(cw) != 1:
        raise AnchorMissing("expected exactly one full write of a column of the returned Jacobian per iteration, found %d" % len(cw))
    w = cw[0]
    # a fast path that writes the same column element by element (next to the whole-column copy as its fallback) must
    # write the same values: element i of the column is element i, in column-major order, of the matrix whose
    # column-major stacking the whole-column copy writes — and it must cover the column
    from rules_problem import flatten_arg
    ews = tab.elementwise_column_writes(cn, effs)
    for w0 in tab.element_writes(cn, effs):
        # fail closed: any other store into the returned matrix is a form this rule does not know
        tgt = w0.D[1] if w0.D is not None and w0.D[0] == "col" else w0.D
        if tgt is not None and nosite(tgt) in rets and not any(w2.eff is w0.eff for w2 in ews):
            raise AnchorMissing("a store into the returned Jacobian at `%s` that is neither a whole-column copy nor an element-wise copy of a column" % ", ".join(short(i)[:40] for i in w0.idx))
    for w2 in ews:
        if rets and nosite(w2.D) not in rets:
            continue
        Mx = flatten_arg(w.val)
        v2 = w2.val[1]
        same = Mx is not None and w2.idx[0] == w.idx[0] and v2[0] == "at" and len(v2) == 3 and nosite(v2[1]) == nosite(Mx) and v2[2] == w2.val[2]
        if not same:
            raise AnchorMissing("a second, element-wise write of the Jacobian column stores `%s`, not the elements of the matrix the whole-column copy stacks" % short(v2)[:120])
        ok, why = tab.elements_cover_column(cn, w2)
        if not ok:
            raise AnchorMissing("element-wise write of the Jacobian column: " + why)
    return w.D, w.idx[0], w.val, w.eff, effs, cn


def rule_kaufman_col(F, ev, R, config, rule="R-KAUFMAN-COL"):
    import effects as fx
    roles = problem_roles(F)
    cuse = resolve_cache_roles_by_use(F, ev)
    for self_ty, ms in sorted(lsp_impls(F).items()):
        b = ms.get("jacobian")
        fl = flavour_of(self_ty)
        if b is None:
            R.bad(rule, config, self_ty, "anchor-missing", "no jacobian()")
            continue
        try:
            M, k, val, e, effs, cn = jacobian_column_write(F, ev, b)
        except AnchorMissing as ex:
            R.bad(rule, config, b.key, "column-write@" + fl, "%s (undetermined)" % ex, b.j["span"])
            continue
        # --- index k ↔ column k: the column written in round k of the iteration over the columns is column k
        drv_ok = k is not None and k[0] == "iv"
        R.add(rule, config, b.key, "columns-enumerated@" + fl, drv_ok,
              "" if drv_ok else "the column written is not indexed by the enumeration index of the Jacobian's columns (index k ↔ column k): k = %s" % (short(k)[:100] if k else None), b.j["span"])
        # --- allocation (|S|·|R|) × |P|
        a = M
        while a[0] == "call" and a[1].endswith("assume_init"):
            a = a[3][0]
        okalloc = False
        is_call_ = is_call
        if a[0] == "call" and len(a[3]) >= 2:
            from rules_stats2 import dimval
            rd, cd = dimval(a[3][0]), dimval(a[3][1])
            rows_ok = (rd[0] == "bin" and rd[1] == "Mul" and
                       any(is_call(x, TRAIT_MODEL + "::output_len") for x in (rd[2], rd[3])) and
                       any(is_call(x, "Matrix::ncols") and self_field(x[3][0], b.key, roles["data"]) for x in (rd[2], rd[3])))
            cols_ok = is_call(cd, TRAIT_MODEL + "::parameter_count")
            okalloc = rows_ok and cols_ok
        R.add(rule, config, b.key, "allocation=(S·R)×P@" + fl, okalloc,
              "" if okalloc else "Jacobian allocated as `%s`, expected (output_len·ncols(Y_w)) × parameter_count" % short(a)[:200], b.j["span"])
        # --- the column value
        fn_key = e.body.key
        t = e.term
        Mx = flatten_arg(val)
        okflat = Mx is not None
        R.add(rule, config, fn_key, "column=vec(matrix)@" + fl, okflat,
              "" if okflat else "column value is not the column-major flattening shared with the residuals: %s" % short(val)[:160], t.get("span"))
        if Mx is None:
            continue
        N = nfmod.NF()
        n = N.nf(Mx)
        # the matrix handed to the flattening may itself be a reshaped matrix: vec(reshape(M)) = vec(M) (column-major
        # re-interpretation of one buffer), so a vec factor common to all monomials is the sink's own flattening
        V_ = (("vec",), False)
        if n and all(f and f[0] == V_ for (s_, f) in n):
            n = {(s_, f[1:]): c for (s_, f), c in n.items()}
        me = ("param", b.key, 1)
        U = ("payload", ("field", ("field", ("payload", ("field", me, roles["cache"]), "ok", "0"), cuse["svd"]), "u"), "ok", "0")
        W = ("W", ("field", me, roles["weights"]))
        C = ("field", ("payload", ("field", me, roles["cache"]), "ok", "0"), cuse["coeff"])
        dks = [x for x in walk(Mx) if x[0] == "call" and x[1] == TRAIT_MODEL + "::eval_partial_deriv"]
        dk = None
        okk = False
        if dks and all(d[3] == dks[0][3] for d in dks):
            d = dks[0]
            okk = d[3][1] == k and d[3][0] == ("field", me, roles["model"])
            dk = ("payload", d, "ok", "0")
        R.add(rule, config, fn_key, "derivative-index=column-index@" + fl, okk,
              "" if okk else "the partial derivative is taken w.r.t. `%s` of `%s`, expected the column index k of the problem's model" % (
                  short(dks[0][3][1])[:80] if dks else "?", short(dks[0][3][0])[:60] if dks else "?"), t.get("span"))
        if dk is None:
            continue
        X = ((W, False), (dk, False), (C, False))
        exp = {((), X): -1, ((), ((U, False), (U, True)) + X): 1}
        okn = n == exp
        R.add(rule, config, fn_key, "column=U·Uᵀ·X−X,X=W·Dk·C@" + fl, okn,
              "column normal form %s" % nfmod.show(n, short)[:300] if okn else
              "Jacobian column has normal form  %s  but the Kaufman column is  %s" % (nfmod.show(n, short)[:400], nfmod.show(exp, short)[:300]),
              t.get("span"))
    R.floor(rule, config, 5 if not config.endswith("parallel") else 10, "five clauses per jacobian() impl")


# --------------------------------------------------------------------------- #
# C01/C06 — weighting
# --------------------------------------------------------------------------- #
def builder_roles(F):
    fs = struct_fields(F, ADT_PBUILDER)
    roles = {}

    def one(role, pred):
        m = [f for f in fs if pred(f)]
        if len(m) != 1:
            raise AnchorMissing("builder role %s resolves to %d fields" % (role, len(m)))
        roles[role] = m[0]["name"]

    one("data", lambda f: f["ty"].startswith("std::option::Option<nalgebra::Matrix<"))
    one("model", lambda f: f["ty"] == "Model")
    one("eps", lambda f: f["ty"].startswith("std::option::Option<") and "RealField" in f["ty"] and "Matrix" not in f["ty"])
    one("weights", lambda f: f.get("adt") == ADT_WEIGHTS)
    return roles


def build_body(F):
    bs = [b for b in inherent_methods(F, ADT_PBUILDER) if ADT_PROBLEM in b.j.get("output", "") and b.j["output"].startswith("std::result::Result<")]
    if len(bs) != 1:
        raise AnchorMissing("LevMarProblemBuilder::build (%d candidates)" % len(bs))
    return bs[0]


def build_ok_problem(F, ev, b, env=None):
    ev.fresh_ctx()
    v = ev.ret_val(env if env is not None else Env(b))
    alts = v[1] if v[0] == "phi" else (v,)
    oks = [a for a in alts if a[0] == "agg" and a[2] == "Ok"]
    return oks, alts


def weight_variants(F):
    return [v["name"] for v in F.adts[ADT_WEIGHTS]["variants"]]


def weighted_by(d, W, M, variant):
    """is `d` the matrix M row-scaled by the weights W, given that W has the enum variant `variant`:
    the operator `&W * M` itself, or what it does for that variant (R-ROW-SCALING decides the operator:
    identity for Unit, `&DiagMatrix * M` of the payload for Diagonal)"""
    wp = wmul_parts(d)
    if W is not None and wp is not None and wp[0] == W and wp[1] == M:
        return True
    if variant == "Unit":
        return d == M
    if variant == "Diagonal":
        return (d[0] == "call" and d[1] == "std::ops::Mul::mul" and d[2] == ADT_DIAG and len(d[3]) == 2 and d[3][1] == M
                and d[3][0][0] == "payload" and (W is None or d[3][0][1] == W) and d[3][0][2] == "Diagonal")
    return False


def rule_data_weight_once(F, ev, R, config, rule="R-DATA-WEIGHT-ONCE"):
    pr = problem_roles(F)
    br = builder_roles(F)
    b = build_body(F)
    me = ("param", b.key, 1)
    Wb = ("field", me, br["weights"])
    Yb = ("payload", ("field", me, br["data"]), "ok", "0")
    # the stored data, decided once per variant of the weights (a `match` on the weights inside build() or in a
    # helper takes only that variant's arm): W·Y through the operator, or what the operator does for the variant
    okw, bad = True, None
    for var in weight_variants(F):
        with ev.assuming(Wb, var):
            oks_v, _ = build_ok_problem(F, ev, b, ev.inline_env(b, {}, 0))
        if len(oks_v) != 1:
            okw, bad = False, "%d Ok alternatives for %s weights" % (len(oks_v), var)
            continue
        pv, _ = strip_mut(oks_v[0][3][0][1])
        dv = dict(pv[3]).get(pr["data"]) if pv[0] == "agg" and pv[1] == ADT_PROBLEM else None
        if dv is None or not weighted_by(dv, Wb, Yb, var):
            okw, bad = False, "for %s weights the stored data are `%s`" % (var, short(dv)[:160] if dv else "?")
    oks, alts = build_ok_problem(F, ev, b)
    if len(oks) != 1:
        R.bad(rule, config, b.key, "ok-value", "build() has %d Ok alternatives (undetermined)" % len(oks), b.j["span"])
        return
    p, sites = strip_mut(oks[0][3][0][1])
    if p[0] != "agg" or p[1] != ADT_PROBLEM:
        R.bad(rule, config, b.key, "ok-value", "Ok payload is not a LevMarProblem aggregate: %s" % short(p)[:160], b.j["span"])
        return
    f = dict(p[3])
    R.add(rule, config, b.key, "Y_w=W·Y-once", okw,
          "" if okw else "%s, expected exactly one application of the builder's weights to the supplied observations" % bad, b.j["span"])
    ok = f[pr["weights"]] == Wb
    R.add(rule, config, b.key, "weights-role=builder-weights", ok,
          "" if ok else "the problem's weights `%s` are not the weights used on the data" % short(f[pr["weights"]])[:160], b.j["span"])
    e = f[pr["eps"]]
    def is_machine_eps_fn(fr):
        """`Float::epsilon` itself, or a local function without arguments that returns exactly `Float::epsilon()`"""
        if fr[0] != "fnref":
            return False
        if fr[1].endswith("Float::epsilon"):
            return True
        for k_ in ([fr[2]] if len(fr) > 2 and isinstance(fr[2], str) else []) + [fr[1]]:
            hb = F.bodies.get(k_) or next((x for x in F.bodies.values() if x.kind != "Closure" and strip_generics(x.j.get("path", "")) == fr[1]), None)
            if hb is not None and not hb.j.get("inputs"):
                try:
                    rv_ = ev.ret_val(Env(hb))
                except RecursionError:
                    return False
                return rv_[0] == "call" and rv_[1].endswith("Float::epsilon") and not rv_[3]
        return False
    ok = (e[0] == "call" and e[1].endswith("Option::unwrap_or_else") and e[3][0] == ("field", me, br["eps"])
          and is_machine_eps_fn(e[3][1]))
    ok = ok or (e[0] == "call" and e[1].endswith("Option::unwrap_or") and e[3][0] == ("field", me, br["eps"])
                and e[3][1][0] == "call" and e[3][1][1].endswith("Float::epsilon"))
    if not ok and e[0] == "phi" and len(e[1]) == 2:
        # match / if-let form: the given value on one arm, machine epsilon on the other
        alts = set(e[1])
        given = ("payload", ("field", me, br["eps"]), "ok", "0") in alts
        mach = any(x[0] == "call" and x[1].endswith("Float::epsilon") and not x[3] for x in alts)
        ok = given and mach
    R.add(rule, config, b.key, "eps=given-or-machine-eps", ok,
          "" if ok else "threshold is `%s`, expected the configured epsilon or machine epsilon" % short(e)[:160], b.j["span"])
    ok = f[pr["model"]] == ("field", me, br["model"])
    R.add(rule, config, b.key, "model-role=builder-model", ok, "" if ok else "model is `%s`" % short(f[pr["model"]])[:120], b.j["span"])
    ok = f[pr["cache"]] == ("none",)
    R.add(rule, config, b.key, "cache-starts-empty", ok, "" if ok else "initial cache is `%s`" % short(f[pr["cache"]])[:120], b.j["span"])
    # epsilon() stores |eps|
    for sb in inherent_methods(F, ADT_PBUILDER, "epsilon"):
        ev.fresh_ctx()
        v = ev.ret_val(Env(sb))
        ok = False
        fv = struct_view(F, v, ADT_PBUILDER)
        if fv is not None:
            e = fv.get(br["eps"])
            # Some(|eps|) for EVERY supplied value: a present value under a condition (`.filter(..)`, `then_some`) drops thresholds
            ok = (e is not None and e[0] == "opt" and not e[2] and e[1][0] == "call" and e[1][1].rsplit("::", 1)[-1] in ("abs", "modulus", "norm1")
                  and e[1][3] == (("param", sb.key, 2),))
            why_e = ("epsilon() stores the threshold only under `%s`: other supplied values are silently replaced by the default" % short(sorted(e[2], key=repr)[0])[:120]) \
                if (e is not None and e[0] == "opt" and e[2]) else "epsilon() stores `%s`, expected Some(|eps|)" % short(e if e is not None else v)[:200]
        else:
            why_e = "epsilon() returns `%s` (undetermined)" % short(v)[:120]
        R.add(rule, config, sb.key, "epsilon-stores-abs", ok, "" if ok else why_e, sb.j["span"])
    R.floor(rule, config, 6, "five build() clauses + epsilon()")


def rule_row_scaling(F, ev_unused, R, config, rule="R-ROW-SCALING"):
    ev = Eval(F, opaque=[k for k in F.bodies if k.startswith("<&" + ADT_DIAG)])
    wm = [b for b in F.bodies.values() if b.key.startswith("<&" + ADT_WEIGHTS) and " as std::ops::Mul<" in b.key and b.name == "mul"]
    dm = [b for b in F.bodies.values() if b.key.startswith("<&" + ADT_DIAG) and " as std::ops::Mul<" in b.key and b.name == "mul"]
    if len(wm) != 1 or len(dm) != 1:
        R.bad(rule, config, "-", "anchor-missing", "weight multiplication operators: %d/%d" % (len(wm), len(dm)))
        return
    b = wm[0]
    rhs = ("param", b.key, 2)
    me = ("param", b.key, 1)
    # decided once per variant (the operator's `match`, wherever it sits — also behind an accessor such as
    # `as_diagonal()` — takes only that variant's arm): exactly M for Unit, exactly `&payload * M` for Diagonal
    ok, got = True, {}
    for var in weight_variants(F):
        with ev.assuming(me, var):
            v = ev.ret_val(ev.inline_env(b, {}, 0))
        got[var] = v
        if not weighted_by(v, None, rhs, var) or (var == "Diagonal" and v[3][0][1] != me):
            ok = False
    R.add(rule, config, b.key, "unit=identity,diagonal=rowscale", ok,
          "" if ok else "`&Weights * M` evaluates to %s; expected M for Unit and `&DiagMatrix * M` for Diagonal" % {k: short(x)[:90] for k, x in got.items()}, b.j["span"])
    d = dm[0]
    env = Env(d)
    ev2 = Eval(F)
    rv = ev2.ret_val(env)
    import effects as fx
    import tab
    cn = tab.Canon(ev2)
    rhs = ("param", d.key, 2)
    ok = cn.container(rv) == rhs and rv != rhs
    R.add(rule, config, d.key, "returns-the-scaled-rhs", ok, "" if ok else "`&DiagMatrix * M` returns `%s`" % short(rv)[:160], d.j["span"])
    # the only mutation: for every column k, component_mul_assign(column k, diagonal) — closure, iterator-loop or index-loop form
    good = 0
    others = []
    for e in fx.iteration_effects(ev2, env):
        if e.kind == "store":
            others.append("store through %s" % short(e.args[0])[:40])
            continue
        m = e.name
        if m == "component_mul_assign" and len(e.raw) == 2:
            col = cn.canon(e.raw[0])
            dg = cn.canon(e.raw[1])
            okd = dg[0] == "field" and cn.container(dg[1]) == ("param", d.key, 1)
            okc = col[0] == "col" and col[1] == rhs and col[2][0] == "iv" and cn.extent.get(col[2][1]) == ("ncols", rhs) and tab.executes_every_iteration(e)
            if okc and okd:
                good += 1
            else:
                others.append("component_mul_assign(%s, %s)" % (short(col)[:50], short(dg)[:40]))
        elif m == "mul_assign" and len(e.raw) == 2:
            # element form: M[i, k] *= d[i] for every column k and every row i (one pass over the elements instead of
            # nalgebra's per-column kernel; the same multiplication per element)
            a_, d_ = cn.canon(e.raw[0]), cn.canon(e.raw[1])
            while d_[0] == "call" and d_[1] in ("std::clone::Clone::clone",) and d_[3]:
                d_ = d_[3][0]
            okel = False
            if a_[0] == "at" and d_[0] == "at" and len(d_) == 3 and d_[1][0] == "field" and cn.container(d_[1][1]) == ("param", d.key, 1):
                row = d_[2]
                colk = None
                if len(a_) == 3 and a_[1][0] == "col" and a_[1][1] == rhs and a_[2] == row:
                    colk = a_[1][2]
                elif len(a_) == 4 and a_[1] == rhs and a_[2] == row:
                    colk = a_[3]
                if colk is not None and colk[0] == "iv" and row[0] == "iv" and colk != row and tab.executes_every_iteration(e):
                    ce = cn.extent.get(colk[1])
                    re_ = cn.extent.get(row[1])
                    g_ = Guards(ev2, e.body, e.env)
                    facts = [(r[0], cn.norm_extent(cn.canon(r[1])), cn.norm_extent(cn.canon(r[2]))) for r in g_.relations_at(e.block)[0] if r[0] in ("Le", "Lt", "Eq")]
                    want_r = cn.norm_extent(("nrows", rhs))
                    def covers(ext, want):
                        if ext == want or tab.provably_eq(ext, want, facts):
                            return True
                        if ext and ext[0] == "min":
                            xs = [x if not (x[0] == "nrows" and x[1][0] == "col" and x[1][1] == rhs) else want for x in ext[1]]
                            return any(x == want or tab.provably_eq(x, want, facts) for x in xs) and all(x == want or tab.provably_eq(x, want, facts) or tab.provably_le(want, x, facts) for x in xs)
                        return False
                    okel = ce == ("ncols", rhs) and covers(re_, want_r)
            if okel:
                good += 1
            else:
                others.append("mul_assign(%s, %s)" % (short(a_)[:50], short(d_)[:40]))
        elif m in ("column_iter_mut", "column_mut", "nrows", "ncols", "size", "len", "for_each", "into_iter", "next", "enumerate", "shape", "iter", "iter_mut", "zip", "clone") or e.cid.startswith("core::panicking") or "assert_failed" in e.cid or "fmt::" in e.cid:
            continue
        else:
            others.append(e.cid)
    ok = good == 1 and not others
    R.add(rule, config, d.key, "every-column-times-diagonal", ok,
          "" if ok else "`&DiagMatrix * M` is not `for each column: component_mul_assign(diagonal)`: %s" % others[:3], d.j["span"])
    R.floor(rule, config, 3, "Weights::mul, DiagMatrix::mul return + column scaling")


def rv_operands(rv):
    for k in ("op", "a", "b"):
        if isinstance(rv.get(k), dict):
            yield rv[k]
    for o in rv.get("ops", []) or []:
        yield o


def is_entry(F, b):
    """a function the outside can call: public, a trait method, or without local callers"""
    if b.kind == "Closure":
        return False
    im = b.j.get("impl", {})
    if "trait" in im:
        return True
    if b.j.get("vis") == "pub":
        return True
    return not (local_callers(F).get(b.key, set()) - {b.key})


ROLE_ADTS = (ADT_PROBLEM, ADT_PBUILDER, ADT_STATS, ADT_SOLVER, ADT_FITRESULT)


def role_entries(F):
    """functions at which an analysis per role type starts: callable from outside, or called from
    code that belongs to a different role type (FitStatistics::try_calculate from the solver)"""
    out = []
    for b in sorted(F.bodies.values(), key=lambda x: x.key):
        if b.kind == "Closure":
            continue
        if is_entry(F, b):
            out.append(b)
            continue
        role = b.j.get("impl", {}).get("self_adt")
        if role in ROLE_ADTS:
            for ck in local_callers(F).get(b.key, ()):
                cr = F.bodies[ck].j.get("impl", {}).get("self_adt") if ck in F.bodies else None
                if cr != role:
                    out.append(b)
                    break
    return out


def rule_weight_sites(F, ev, R, config, rule="R-WEIGHT-SITES"):
    """every multiplication by weights uses the single weights role of the problem, exactly once
    per sample-space quantity (Y at build, Φ in set_params, D_k in jacobian, J and Φ·c in statistics).
    Decided per ENTRY function on the effects collected through inlined helpers and closures, so a
    wrapper around the multiplication or a helper that receives the weights as an argument is seen
    through; every multiplication site of the crate must be reached from some entry."""
    from effects import iteration_effects
    pr = problem_roles(F)
    all_sites = set()
    for b in F.bodies.values():
        for bi, t in b.calls():
            if "fn" in t and callee_id(t["fn"]) == "std::ops::Mul::mul" and t["fn"].get("self_adt") == ADT_WEIGHTS:
                all_sites.add((b.key, bi))
    covered = set()
    entries = role_entries(F)
    # entries are analysed one by one: an entry called from another entry is a boundary, not inlined
    ev = Eval(F, opaque=set(ev.opaque) | set(b.key for b in entries))
    for b in entries:
        im = b.j.get("impl", {})
        env = Env(b)
        try:
            effs = [e for e in iteration_effects(ev, env) if e.kind == "call" and e.cid == "std::ops::Mul::mul" and e.head == ADT_WEIGHTS]
        except RecursionError:
            effs = []
        me = ("param", b.key, 1)
        for e in effs:
            covered.add((e.body.key, e.block))
            W, M = e.args[0], e.args[1]
            inst = "W·%s" % (short(M)[:60])
            if im.get("self_adt") == ADT_PROBLEM:
                okw = W == ("field", me, pr["weights"])
                msg = "weight operand `%s` is not the problem's weights" % short(W)[:120]
            elif im.get("self_adt") == ADT_PBUILDER:
                okw = W[0] == "field" and W[1] == me
                msg = "weight operand `%s` is not the builder's weights" % short(W)[:120]
            elif im.get("self_adt") == ADT_STATS:
                okw = W[0] == "param"
                msg = "weight operand `%s` is not the weights argument" % short(W)[:120]
            elif im.get("self_adt") == ADT_WEIGHTS and W == me:
                # a method of the weights themselves (a wrapper around the operator): decided at its callers
                continue
            else:
                okw = False
                msg = "weight multiplication in an unexpected place (undetermined)"
            # applied exactly once: the multiplied matrix carries no weight factor itself
            def row_weighted(x, depth=0):
                """the ROWS of x carry a weight factor: x is `W·…`, or a product whose left factor is (the rows of `A·B`
                are combinations of the rows of A — the coefficients `solve(svd(W·Φ), Y_w)` as a RIGHT factor do not
                make `Φ·C` a weighted quantity), or a sum / difference / copy / column selection of such a matrix"""
                x0 = x
                while x0[0] in ("mutated", "payload", "opt"):
                    x0 = x0[1]
                if x0[0] != "call" or depth > 8:
                    return False
                if x0[1] == "std::ops::Mul::mul":
                    if x0[2] in (ADT_WEIGHTS, ADT_DIAG):
                        return True
                    return row_weighted(x0[3][0], depth + 1) if x0[3] else False
                if x0[1] in ("std::ops::Sub::sub", "std::ops::Add::add", "std::ops::Neg::neg"):
                    return any(row_weighted(a, depth + 1) for a in x0[3])
                if x0[1].rsplit("::", 1)[-1] in ("clone", "clone_owned", "into_owned", "column", "columns", "rows", "as_view", "reshape_generic") and x0[3]:
                    return row_weighted(x0[3][0], depth + 1)
                if x0[1].rsplit("::", 1)[-1] in ("transpose", "tr_mul"):
                    # rows and columns change places: stay on the safe side
                    return contains(x0, lambda y: y[0] == "call" and y[1] == "std::ops::Mul::mul" and y[2] in (ADT_WEIGHTS, ADT_DIAG))
                return False
            twice = row_weighted(M)
            if im.get("self_adt") == ADT_PROBLEM:
                # the stored data are already weighted: they must not be weighted again (as the operand
                # itself or as a factor/summand of it; occurrences inside index or dimension terms do not count)
                def weighted_operand(x, depth=0):
                    x0 = x
                    while x0[0] in ("mutated", "payload", "opt"):
                        x0 = x0[1]
                    if x0 == ("field", me, pr["data"]):
                        return True
                    if depth < 6 and x0[0] == "call" and x0[1] == "std::ops::Mul::mul" and x0[3]:
                        return weighted_operand(x0[3][0], depth + 1)      # rows come from the left factor
                    if depth < 6 and x0[0] == "call" and x0[1] in ("std::ops::Sub::sub", "std::ops::Add::add", "std::ops::Neg::neg") or \
                            (x0[0] == "call" and x0[1].rsplit("::", 1)[-1] in ("transpose", "clone", "column", "rows", "columns")):
                        return any(weighted_operand(a, depth + 1) for a in x0[3])
                    return False
                twice = twice or weighted_operand(M)
            if twice:
                okw = False
                msg = "weights applied to an already weighted quantity `%s`" % short(M)[:120]
            R.add(rule, config, b.key, inst, okw, "" if okw else msg, e.term.get("span"))
    for k, bi in sorted(all_sites - covered):
        R.bad(rule, config, k, "weights@bb%d" % bi, "this weight multiplication is not reached from any entry function through modelled calls (undetermined)",
              F.bodies[k].blocks[bi]["term"].get("span"))
    R.floor(rule, config, 4 if not config.endswith("parallel") else 5, "build 1, basis matrix >= 1, derivative 1/2, statistics 2 (a shared helper may serve both flavours)")


def rule_weight_uses(F, ev, R, config, rule="R-WEIGHT-USES"):
    """who may READ the weights: in the code of the problem, its builder and the statistics the weights value is
    only ever (a) the left operand of the row-scaling operator `&Weights * M`, (b) asked for its length (the
    size validation), (c) copied / borrowed / formatted / handed on to another role's entry function. Any other
    consumer (iterating the diagonal, counting non-zero weights, arithmetic on them) makes the result depend on
    the weights other than through the row scaling."""
    from effects import iteration_effects
    from terms import IDENTITY
    pr = problem_roles(F)
    entries = role_entries(F)
    ev = Eval(F, opaque=set(ev.opaque) | set(b.key for b in entries))
    SIZE = ("len", "nrows", "ncols", "shape", "size", "is_empty", "shape_generic")
    n = 0
    for b in entries:
        im = b.j.get("impl", {})
        sa = im.get("self_adt")
        me = ("param", b.key, 1)
        if sa in (ADT_PROBLEM, ADT_PBUILDER):
            fs = [f["name"] for f in struct_fields(F, sa) if f.get("adt") == ADT_WEIGHTS]
            Ws = [("field", me, f) for f in fs] if b.j.get("inputs") and sa in b.j["inputs"][0] else []
        elif sa == ADT_STATS:
            Ws = [("param", b.key, i) for i in range(1, b.arg_count + 1) if ADT_WEIGHTS in (b.locals[i].get("ty") or "")]
        else:
            continue
        if not Ws:
            continue
        try:
            effs = [e for e in iteration_effects(ev, Env(b)) if e.kind == "call"]
        except RecursionError:
            effs = []
        def direct(a, depth=0):
            """the argument IS the weights value, a part of it (variant payload, the diagonal), a copy of it, or an
            iterator / view over such a part — as opposed to a quantity computed from it by the row scaling"""
            if a in Ws:
                return True
            if depth > 8:
                return False
            if a[0] in ("payload", "field", "as", "opt", "mutated", "elem", "drv", "index") and len(a) > 1 and isinstance(a[1], tuple):
                return direct(a[1], depth + 1)
            if a[0] == "call" and len(a) == 5 and a[3]:
                if a[1] == "std::ops::Mul::mul" and a[2] in (ADT_WEIGHTS, ADT_DIAG):
                    return False
                nm_ = a[1].rsplit("::", 1)[-1]
                if a[1] in IDENTITY or nm_ in ("iter", "iter_mut", "into_iter", "as_slice", "column", "rows", "enumerate", "zip", "filter", "map", "skip", "take", "cloned", "copied",
                                               "diagonal", "as_view", "clone", "clone_owned", "unwrap", "expect"):
                    return any(direct(x, depth + 1) for x in a[3])
            return False

        for e in effs:
            hits = [a for a in e.args if direct(a)]
            if not hits:
                continue
            n += 1
            nm = e.name
            ok = False
            if e.cid == "std::ops::Mul::mul" and e.head == ADT_WEIGHTS and e.args and e.args[0] in Ws and not direct(e.args[1]):
                ok = True
            elif e.cid == "std::ops::Mul::mul" and e.head == ADT_DIAG and len(e.args) == 2 and e.args[0][0] == "payload" and e.args[0][1] in Ws \
                    and e.args[0][2] == "Diagonal" and not direct(e.args[1]):
                ok = True   # the row-scaling operator of the diagonal payload itself (what `&Weights * M` does for Diagonal)
            elif e.cid in IDENTITY or nm in ("clone", "borrow", "as_ref", "deref", "to_owned", "fmt", "clone_from") or "fmt::" in e.cid:
                ok = True
            elif nm in SIZE:
                ok = True
            elif e.cid.startswith("core::panicking") or "assert_failed" in e.cid:
                ok = True
            else:
                t = e.term
                k = t["fn"].get("resolved_key") or t["fn"].get("key") if "fn" in t else None
                if k in F.bodies and any(x.key == k for x in entries) and all(a in Ws or not direct(a) for a in e.args):
                    cb = F.bodies[k]
                    crole = cb.j.get("impl", {}).get("self_adt")
                    out = cb.j.get("output", "")
                    # handed on unchanged to another role's entry (analysed there), or to a method of the weights that
                    # yields a yes/no answer (size validation) or weights again — not a number or matrix derived from them
                    ok = crole in (ADT_PROBLEM, ADT_PBUILDER, ADT_STATS, ADT_SOLVER, ADT_FITRESULT) or \
                        (crole in (ADT_WEIGHTS, ADT_DIAG) and (out == "bool" or ADT_WEIGHTS in out or out == "()"))
            R.add(rule, config, b.key, "use:%s" % e.cid.rsplit("::", 2)[-1][:40] if not ok else "use:%s" % nm, ok,
                  "" if ok else "the weights are consumed by `%s(%s)`: not the row-scaling operator, a size query or a copy — the result would depend on the weights other than through row scaling"
                  % (e.cid, ", ".join(short(a)[:40] for a in e.args)), e.term.get("span"))
    R.floor(rule, config, 6, "row scalings in build / set_params / jacobian / statistics, size validation, accessor hand-over")


# --------------------------------------------------------------------------- #
# C02/C10 — who may write, no history, definite initialisation
# --------------------------------------------------------------------------- #
def rule_who_writes(F, ev, R, config, rule="R-WHO-WRITES"):
    pr = problem_roles(F)
    lsp_set = {ms["set_params"].key for ms in lsp_impls(F).values() if "set_params" in ms}
    # a private helper that is reached ONLY from LeastSquaresProblem::set_params (of either flavour) is part of it
    allk = set(F.bodies)
    helper_of_set_params = set()
    for k, hb in F.bodies.items():
        if hb.kind != "Closure" and k not in lsp_set and not stable_name(hb):
            anc = stable_ancestors(F, k, allk)
            if anc and anc <= lsp_set:
                helper_of_set_params.add(k)
    lsp_set = lsp_set | helper_of_set_params
    # 1. all fields private
    for f in struct_fields(F, ADT_PROBLEM):
        ok = f["vis"] != "pub"
        R.add(rule, config, ADT_PROBLEM, "private:" + f["name"], ok, "" if ok else "field `%s` of LevMarProblem is public: state can be changed from outside" % f["name"])
    for f in struct_fields(F, cache_adt_path(F)):
        ok = f["vis"] != "pub" or F.adts[cache_adt_path(F)]["vis"] != "pub"
        R.add(rule, config, cache_adt_path(F), "private:" + f["name"], ok, "" if ok else "cache field is public")
    # 2. no pub fn hands out &mut into the problem
    for b in F.bodies.values():
        im = b.j.get("impl", {})
        if im.get("self_adt") in (ADT_PROBLEM, ADT_FITRESULT) and b.j.get("vis") == "pub":
            out = b.j.get("output", "")
            if "&mut" in out:
                R.bad(rule, config, b.key, "no-mut-escape", "public method returns a mutable reference `%s` into problem state" % out[:80], b.j["span"])
    # 3. writes / mutable borrows of problem fields
    for b in sorted(F.bodies.values(), key=lambda x: x.key):
        if b.j.get("impl", {}).get("trait") == "std::clone::Clone" and b.name == "clone_from" and b.j.get("impl", {}).get("self_adt") in (ADT_PROBLEM, cache_adt_path(F)):
            continue    # an overridden clone_from replaces every field by the source's: decided by R-CLONE-IDENTITY (same properties)
        for bi, si, s in b.stmts():
            if s["k"] != "assign":
                continue
            # field-wise writes
            pf = [e for e in s["place"]["proj"] if e["k"] == "field" and e.get("owner") == ADT_PROBLEM]
            if pf:
                role = pf[0]["name"]
                whole_cache = role == pr["cache"] and len([e for e in s["place"]["proj"] if e["k"] in ("field", "downcast")]) == 1
                ok = whole_cache and b.key in lsp_set
                R.add(rule, config, b.key, "write:%s" % role, ok,
                      "" if ok else ("field `%s` of the problem is written %s" % (role, "field-wise (cache patched instead of replaced)" if role == pr["cache"] and not whole_cache else "outside LeastSquaresProblem::set_params")), s.get("span"))
            cf = [e for e in s["place"]["proj"] if e["k"] == "field" and e.get("owner") == cache_adt_path(F)]
            if cf:
                R.bad(rule, config, b.key, "write:cache.%s" % cf[0]["name"], "a field of the cached calculations is written in place", s.get("span"))
            rv = s["rv"]
            if rv["k"] in ("ref", "rawptr") and rv["mut"]:
                pf = [e for e in rv["place"]["proj"] if e["k"] == "field" and e.get("owner") in (ADT_PROBLEM, cache_adt_path(F))]
                if pf:
                    role = pf[0]["name"]
                    cons = [c for c in consumers(b, s["place"]["l"]) if c["kind"] == "call"]
                    ok = (role == pr["model"] and b.key in lsp_set and len(cons) == 1 and is_model_call(cons[0]["term"], "set_params"))
                    # drop glue / whole-field replacement take no &mut in MIR; anything else is a mutation channel
                    R.add(rule, config, b.key, "mut-borrow:%s" % role, ok,
                          "" if ok else "mutable borrow of problem field `%s` (only the model, as receiver of Model::set_params inside set_params, may be borrowed mutably)" % role, s.get("span"))
            if rv["k"] == "agg" and rv.get("adt") == ADT_PROBLEM:
                im = b.j.get("impl", {})
                def allowed_ctor(bb):
                    im_ = bb.j.get("impl", {})
                    return (im_.get("self_adt") == ADT_PROBLEM and (bb.name in ("into_sequential", "into_parallel") or im_.get("trait") == "std::clone::Clone")) or \
                           (im_.get("self_adt") == ADT_PBUILDER)
                allowed = allowed_ctor(b)
                if not allowed and b.j.get("vis") != "pub" and b.kind != "Closure" and not im.get("trait"):
                    # a private constructor helper (`fn from_parts(fields..) -> Self`) that only the allowed constructors call
                    callers = [F.bodies[c] for c in local_callers(F).get(b.key, ()) if c in F.bodies]
                    allowed = bool(callers) and all(allowed_ctor(c) for c in callers)
                R.add(rule, config, b.key, "constructs-problem", allowed,
                      "" if allowed else "a LevMarProblem is constructed outside build()/into_*/Clone", s.get("span"))
    R.floor(rule, config, 9 if not config.endswith("parallel") else 11, "5+3 private fields, cache writes, model borrow, constructors")


def rule_no_history(F, ev, R, config, rule="R-NO-HISTORY"):
    pr = problem_roles(F)
    # (a) no interior mutability in state types
    for path in (ADT_PROBLEM, cache_adt_path(F), ADT_PBUILDER, ADT_FITRESULT):
        for f in struct_fields(F, path):
            bad = [m for m in INTERIOR_MUT if m in f["ty"]]
            R.add(rule, config, path, "no-interior-mut:" + f["name"], not bad,
                  "" if not bad else "field `%s: %s` has interior mutability: &self queries could change state" % (f["name"], f["ty"][:80]))
    # (b) set_params does not read the old cache
    for self_ty, ms in sorted(lsp_impls(F).items()):
        b = ms.get("set_params")
        if b is None:
            continue
        fl = flavour_of(self_ty)
        reads = []
        for bb in body_and_closures(F, b):
            for bi, si, s in bb.stmts():
                if s["k"] != "assign":
                    continue
                rv = s["rv"]
                places = []
                if rv["k"] in ("ref", "rawptr", "discr"):
                    places.append(rv["place"])
                for o in ([rv.get("op")] if rv.get("op") else []) + rv.get("ops", []) + [rv.get("a"), rv.get("b")]:
                    if isinstance(o, dict) and o.get("k") in ("copy", "move"):
                        places.append(o["place"])
                for p in places:
                    if any(e["k"] == "field" and e.get("owner") == ADT_PROBLEM and e["name"] == pr["cache"] for e in p["proj"]):
                        reads.append(s)
            for bi, t in bb.calls():
                for a in t["args"]:
                    if a["k"] in ("copy", "move") and any(e["k"] == "field" and e.get("owner") == ADT_PROBLEM and e["name"] == pr["cache"] for e in a["place"]["proj"]):
                        reads.append(t)
            if bb.kind == "Closure":
                for c in bb.j.get("captures", []):
                    if c["place"].endswith("." + pr["cache"]) or ("." + pr["cache"] + ".") in c["place"]:
                        reads.append({"span": bb.j["span"]})
        ok = not reads
        R.add(rule, config, b.key, "no-read-of-old-cache@" + fl, ok,
              "" if ok else "set_params reads the previous cache: the new state depends on history", reads[0].get("span") if reads else b.j["span"])
        # (c) every path to return passes a whole-value cache write (never left as before)
        cw = rules_err.cache_writes(F, ev, b, pr)
        wblocks = set(x[0] for x in cw)
        okp = b.must_pass(0, b.exits(), wblocks)
        R.add(rule, config, b.key, "every-path-rewrites-cache@" + fl, okp,
              "" if okp else "a path through set_params returns without replacing the cache: stale state survives", b.j["span"])
    R.floor(rule, config, 14 if not config.endswith("parallel") else 16, "field types + set_params impls")


def rule_def_init(F, ev, R, config, rule="R-DEF-INIT"):
    """every uninitialised result matrix is fully overwritten before any success return; no
    unsafe outside the tabled allocation sites"""
    allowed_roots = set()
    for ms in lsp_impls(F).values():
        if "jacobian" in ms:
            allowed_roots.add(ms["jacobian"].key)
    for b in trait_impl_methods(F, TRAIT_MODEL, ADT_SEPMODEL, "eval"):
        allowed_roots.add(b.key)
    # a private helper reached only from the allowed functions is part of them (its code is analysed in their merged bodies)
    allk = set(F.bodies)
    helpers = set()
    for k, hb in F.bodies.items():
        if hb.kind != "Closure" and k not in allowed_roots and not stable_name(hb):
            anc = stable_ancestors(F, k, allk)
            if anc and anc <= allowed_roots:
                helpers.add(k)
    # (1) unsafe inventory
    for u in F.unsafe_blocks:
        if not u["block"]["user"]:
            continue
        ok = u["in"] in allowed_roots or u["in"] in helpers
        R.add(rule, config, u["in"], "unsafe-block", ok,
              "" if ok else "new `unsafe` block outside the two reviewed uninitialised-allocation sites (needs review)", u["block"]["span"])
    for b in F.bodies.values():
        if b.j.get("unsafe_fn"):
            R.bad(rule, config, b.key, "unsafe-fn", "unsafe fn in the crate (needs review)", b.j["span"])
    # (2) every assume_init / set_len / MaybeUninit use is one of the tabled sites, and proven
    n_sites = 0
    bodies_to_scan = [merged(F, F.bodies[k]) if k in allowed_roots else F.bodies[k] for k in sorted(F.bodies) if k not in helpers]
    for b in bodies_to_scan:
        for bi, t in b.calls():
            if "fn" not in t:
                continue
            nm = t["fn"]["name"]
            path = t["fn"]["path"]
            if nm in ("assume_init", "set_len", "assume_init_mut", "assume_init_ref", "assume_init_read", "uninit", "new_uninit", "uninit_array", "from_raw_parts",
                      "transmute", "zeroed", "uninitialized", "get_unchecked", "get_unchecked_mut", "unwrap_unchecked") or "MaybeUninit" in path.split("<")[0]:
                root = b.j.get("root", b.key)
                if nm != "assume_init":
                    ok = root in allowed_roots and nm == "uninit"
                    if not ok:
                        R.bad(rule, config, b.key, "raw:" + nm, "call of `%s` outside the reviewed allocation sites (needs review)" % nm, t.get("span"))
                    continue
                n_sites += 1
                if root not in allowed_roots or b.kind == "Closure":
                    R.bad(rule, config, b.key, "assume_init", "assume_init outside the reviewed sites (needs review)", t.get("span"))
                    continue
                ok, msg = proven_full_overwrite(F, ev, b, bi, t)
                R.add(rule, config, b.key, "uninit-fully-overwritten", ok, msg if not ok else "every column written before the matrix can be returned: " + msg, t.get("span"))
    # result matrices allocated initialised (zeros / from_element) satisfy the clause trivially
    for rk in sorted(allowed_roots):
        b = merged(F, F.bodies[rk])
        env = Env(b)
        for bi, t in b.calls():
            if "fn" in t and t["fn"]["name"] in ("column_iter_mut", "par_column_iter_mut"):
                v = ev.call_val(env, bi)
                src = strip_mut(v[3][0])[0]
                if src[0] == "phi":
                    alts = [strip_mut(x)[0] for x in src[1] if x[0] != "loopback"]
                    src = alts[0] if alts else src
                if src[0] == "call" and src[1].rsplit("::", 1)[-1] in ("zeros", "zeros_generic", "from_element", "from_element_generic", "repeat", "from_fn", "identity"):
                    R.ok(rule, config, b.key, "result-matrix-allocated-initialised", "allocated with `%s`" % src[1].rsplit("::", 1)[-1], t.get("span"))
    n_alloc = sum(1 for i in R.instances if i["rule"] == rule and i["config"] == config and i["inst"] in ("uninit-fully-overwritten", "result-matrix-allocated-initialised"))
    want = 2 if not config.endswith("parallel") else 3
    if n_alloc < want:
        R.bad(rule, config, "-", "floor", "only %d of the %d result-matrix allocation sites (SeparableModel::eval, jacobian per flavour) were matched" % (n_alloc, want))


def is_col_of(term, alloc):
    """term denotes a column of `alloc` obtained from a column iteration (form independent)"""
    import effects as fx
    hit = fx.column_of(fx.norm_elems(term))
    return hit is not None and hit[0] == alloc


def writes_target_on_all_paths(F, ev, body, env, pred, depth=0):
    """blocks of `body` whose terminator fully writes a receiver satisfying pred — directly
    (copy_from / set_column / fill ...) or through a local helper that writes that argument on
    every path"""
    out = set()
    for bi, t in body.calls():
        if "fn" not in t:
            continue
        fn = t["fn"]
        args = [ev.operand(env, a, (bi, None)) for a in t["args"]]
        key = fn.get("resolved_key") or fn.get("key")
        if fn["name"] in FULL_COLUMN_WRITES and args and pred(args[0]):
            out.add(bi)
        elif key and key in F.bodies and key not in ev.opaque and depth < 3:
            hits = [i for i, a in enumerate(args) if pred(a)]
            if hits:
                hb = F.bodies[key]
                sub = Env(hb, {i + 1: x for i, x in enumerate(args)}, depth + 1)
                hw = writes_target_on_all_paths(F, ev, hb, sub, pred, depth + 1)
                if hw and hb.must_pass(0, hb.exits(), hw):
                    out.add(bi)
    return out


def proven_full_overwrite(F, ev, b, bi, t):
    """the uninitialised matrix allocated at (b, bi) has EVERY column fully written before it can be
    returned as a success — decided on the canonical column writes (tab.py), so index loops, iterator
    loops, driven closures (map/for_each/try_for_each + a driver) and writes inside helpers coincide:
      * a full-column write col(A, k) with k the counter of an iteration whose extent is ncols(A),
      * executed on every non-failing path of every iteration (through helpers: on all their success paths),
      * a lazily mapped closure is driven to completion,
      * a success return of A is reachable only after the iteration ran to exhaustion."""
    import effects as fx
    import tab
    from rules_panic import nosite
    from rules_stats2 import base_alloc, dimval
    # partial evaluation of the (merged) body itself: a `match` on a value whose variant is known here — e.g. the result
    # of a selector closure that a shared helper received from this very function — takes only its feasible arm
    env = ev.inline_env(b, {}, 0)
    b = env.body
    alloc = ev.call_val(env, bi)
    a = alloc
    while a[0] == "call" and a[1].endswith("assume_init"):
        a = a[3][0]
    if not (a[0] == "call" and a[1].endswith("uninit") and len(a[3]) == 2):
        return False, "allocation `%s` not recognised (undetermined)" % short(alloc)[:120]
    cn = tab.Canon(ev)
    effs = list(fx.iteration_effects(ev, env))
    A = nosite(cn.container(alloc))
    ncols = dimval(a[3][1])
    ws = [w for w in tab.column_writes(cn, effs) if nosite(w.D) == A]
    reasons = []
    # a column written element by element counts when the element iteration covers the whole column
    for w in tab.elementwise_column_writes(cn, effs):
        if nosite(w.D) != A:
            continue
        ok, why = tab.elements_cover_column(cn, w)
        if ok:
            ws.append(w)
        else:
            reasons.append(why + " (column left uninitialised)")
    if not ws:
        return False, reasons[0] if reasons else "no full-column write into the uninitialised matrix was found (undetermined)"
    for w in ws:
        k = w.idx[0]
        if k[0] != "iv":
            reasons.append("column index `%s` is not the counter of an iteration" % short(k)[:60])
            continue
        if not tab.extent_covers(cn, w, k, ncols):
            reasons.append("the iteration (`%s` rounds) may end before all %s columns of the allocation are written: columns may stay uninitialised"
                           % (short(cn.extent.get(k[1]))[:80] if cn.extent.get(k[1]) else "?", short(ncols)[:40]))
            continue
        # a fast path and its fallback: the other full writes of the same column
        alts = [w2 for w2 in ws if w2 is not w and w2.idx[0] == k]
        ok, why = tab.written_each_iteration(cn, w, k, alts)
        if not ok:
            reasons.append(why + " (column left uninitialised)")
            continue
        key = [kk for kk, n in cn.keys.items() if n == k[1]][0]
        m = key[1]
        chain = tab.write_chain(cn, w)
        if m[0] == "next":
            _, bkey, nblk, path = m
            body = chain[len(path)][0]
            h, blks = min([(h_, bl) for h_, bl in body.natural_loops().items() if nblk in bl], key=lambda x: len(x[1]))
            exh = None
            nt = body.blocks[nblk]["term"]
            for (sb, si, pk, variants) in body.discr_switches():
                if sb in blks and pk[0] == nt["dest"]["l"] and not pk[1]:
                    exh, _ = variant_edge(body, sb, "None")
            if not exh:
                reasons.append("loop exit not found (undetermined)")
                continue
            r2 = body.reachable(h, avoid_edges=set(exh))
            if any(x in r2 for x in tab.success_returns(body)):
                reasons.append("the matrix can be returned after leaving the loop early (remaining columns uninitialised)")
                continue
            return True, "loop form, one full-column write per iteration over all %s columns, success only after exhaustion" % short(ncols)[:40]
        else:
            clo_key, bkey, cbi, path = m
            body = chain[len(path)][0]
            ct = body.blocks[cbi]["term"]
            nm = ct["fn"]["name"] if "fn" in ct else ""
            if nm in ("map", "map_init", "inspect", "filter_map"):
                cons = consumers(body, ct["dest"]["l"])
                if not any(c["kind"] == "call" and c["cid"].rsplit("::", 1)[-1] in ("collect", "for_each", "try_for_each", "count", "sum", "last", "try_fold", "fold", "collect_into_vec") for c in cons):
                    reasons.append("the per-column map is lazy and never driven to completion")
                    continue
                # a driver that stops at the first failure (collect into Result, try_for_each) or folds: the
                # collected status must decide the success return — R-JAC-ABSENT; here: not `last`/`fold` of statuses
                if any(c["kind"] == "call" and c["cid"].rsplit("::", 1)[-1] in ("last", "fold", "reduce", "reduce_with", "find", "any", "all") for c in cons):
                    reasons.append("the per-column results are reduced by `%s`: a failed column can be hidden" % [c["cid"].rsplit("::", 1)[-1] for c in cons if c["kind"] == "call"][0])
                    continue
            return True, "closure form, full-column write on every success path of the closure, all %s columns" % short(ncols)[:40]
    return False, (reasons[0] if reasons else "no recognised initialisation pattern for the uninitialised matrix (undetermined)")


def covers_all_columns(it, alloc, ncols, fx):
    """the iterator visits every column of alloc: the column iteration itself (optionally
    enumerated), or zipped with a collection whose length is the allocation's column count"""
    it = fx.base_iter(it)
    if it[0] != "call":
        return False
    last = it[1].rsplit("::", 1)[-1]
    if last in ("column_iter_mut", "par_column_iter_mut"):
        from rules_stats2 import base_alloc
        return base_alloc(it[3][0]) == alloc
    if last in ("enumerate", "into_iter", "by_ref"):
        return covers_all_columns(it[3][0], alloc, ncols, fx)
    if last == "zip":
        a, c = fx.base_iter(it[3][0]), fx.base_iter(it[3][1])
        for cols, coll in ((a, c), (c, a)):
            if covers_all_columns(cols, alloc, ncols, fx):
                x = coll
                while x[0] == "call" and x[1].rsplit("::", 1)[-1] in ("iter", "into_iter", "iter_mut", "enumerate"):
                    x = fx.base_iter(x[3][0])
                if ncols[0] == "call" and ncols[1].rsplit("::", 1)[-1] == "len" and ncols[3][0] == x:
                    return True
                return False
    return False


# --------------------------------------------------------------------------- #
# C11 — parallel twin
# --------------------------------------------------------------------------- #
def canon(t, memo=None):
    """canonical form of a term for seq/par comparison: drop body keys and site ids, map
    rayon adapters to their std twins"""
    if memo is None:
        memo = {}
    if not isinstance(t, tuple):
        if isinstance(t, frozenset):
            return frozenset(canon(x, memo) for x in t)
        return t
    if not t:
        return t
    tag = t[0]
    if tag == "param":
        return ("param", "", t[2])
    if tag == "call":
        cid = t[1]
        cid = {"nalgebra::par_iter::par_column_iter_mut": "nalgebra::Matrix::column_iter_mut",
               "rayon::iter::IndexedParallelIterator::enumerate": "std::iter::Iterator::enumerate",
               "rayon::iter::ParallelIterator::map": "std::iter::Iterator::map",
               "rayon::iter::ParallelIterator::collect": "std::iter::Iterator::collect"}.get(cid, cid)
        head = t[2]
        if cid in ("nalgebra::Matrix::column_iter_mut", "std::iter::Iterator::enumerate", "std::iter::Iterator::map", "std::iter::Iterator::collect"):
            head = None
        return ("call", cid, head, tuple(canon(a, memo) for a in t[3]), None)
    if tag == "closure":
        return ("closure", "*", ())  # closures are compared separately (effects / normal forms)
    if tag == "mutated":
        return ("mutated", canon(t[1], memo), ("-", 0, 0), ())
    return tuple(canon(x, memo) if isinstance(x, (tuple, frozenset)) else x for x in t)


def rule_sibling(F, ev, R, config, rule="R-SIBLING"):
    impls = lsp_impls(F)
    fl = {flavour_of(k): v for k, v in impls.items()}
    if "par" not in fl:
        if config.endswith("parallel"):
            R.bad(rule, config, "-", "anchor-missing", "no parallel LeastSquaresProblem impl in the parallel configuration")
        return
    pr = problem_roles(F)
    seq, par = fl["seq"], fl["par"]
    for m in ("set_params", "params", "residuals", "jacobian"):
        if m not in seq or m not in par:
            R.bad(rule, config, m, "missing", "method missing in one impl")
            continue
        bs, bp = seq[m], par[m]
        if m == "set_params":
            # values only: the conditions under which each flavour stores them are path conditions in one form and
            # presence conditions in another; they are decided per flavour by R-SVD-FINITE / R-ERR-DISCIPLINE / R-NO-HISTORY
            val = lambda v: canon(v[1]) if v is not None and v[0] == "opt" else canon(v)
            ws = [(k, val(v)) for (_, _, k, v, _) in rules_err.cache_writes(F, ev, bs, pr)]
            wp = [(k, val(v)) for (_, _, k, v, _) in rules_err.cache_writes(F, ev, bp, pr)]
            ok = set(map(repr, ws)) == set(map(repr, wp))
            R.add(rule, config, bp.key, "set_params-sinks-equal", ok,
                  "" if ok else "the cache values written by the parallel set_params differ from the sequential ones", bp.j["span"])
            # … and they are stored under the same conditions: the guard formulas (logic.py; early returns, `?`, combinator
            # chains and `if let` tuples coincide) of the present-cache writes agree conjunct by conjunct
            import logic
            from rules_panic import nosite
            L = logic.Logic(ev)

            def presence(bb):
                out = set()
                for (bi, si, k, v, st) in rules_err.cache_writes(F, ev, bb, pr):
                    if k != "some":
                        continue
                    # a value that is one alternative of a join (the Some(..) of a spliced-in helper with early
                    # returns): the conditions are those of the block that constructs it
                    env0 = Env(bb)
                    origins = [b2 for b2, s2, st2 in bb.stmts() if st2["k"] == "assign" and st2["rv"]["k"] == "agg"
                               and st2["rv"].get("variant") == "Some" and b2 != bi
                               and repr(nosite(ev.rvalue(env0, st2["rv"], (b2, s2)))) == repr(nosite(v))]
                    at = origins[0] if len(origins) == 1 else bi
                    fs = L.conditions_at(bb, env0, at) + ([L.of_option(v, True)] if v is not None and v[0] in ("opt", "phi") else [])
                    stack = list(fs)
                    while stack:
                        f = stack.pop()
                        if f[0] == "and":
                            stack.extend(f[1])
                        elif f[0] != "true":
                            out.add(repr(canon(f)))
                return out
            cs, cp = presence(bs), presence(bp)
            okc = cs == cp
            R.add(rule, config, bp.key, "set_params-conditions-equal", okc,
                  "" if okc else "the parallel set_params stores a present cache under different conditions than the sequential one: only-seq %s / only-par %s" % (
                      [x[:160] for x in sorted(cs - cp)][:2], [x[:160] for x in sorted(cp - cs)][:2]), bp.j["span"])
            # … and the cache is left as it was on the same paths (none, on the pinned tree): with equal conditions for a
            # present cache, "every path to return replaces the cache" in both flavours makes the absent cases coincide too
            def rewrites(bb):
                wb = set(x[0] for x in rules_err.cache_writes(F, ev, bb, pr))
                return bb.must_pass(0, bb.exits(), wb)
            rs_, rp_ = rewrites(bs), rewrites(bp)
            R.add(rule, config, bp.key, "set_params-untouched-paths-equal", rs_ == rp_,
                  "" if rs_ == rp_ else "one flavour of set_params replaces the cache on every path to return, the other can return with the "
                  "previous cache still in place (sequential: %s, parallel: %s)" % ("every path" if rs_ else "not every path", "every path" if rp_ else "not every path"), bp.j["span"])
            continue
        ev.fresh_ctx()
        vs = canon(ev.ret_val(Env(bs)))
        vp = canon(ev.ret_val(Env(bp)))
        if m == "jacobian":
            # one flavour may use a for loop and the other an iterator pipeline: compare what can be
            # returned as present (the allocation) — the column computation is compared below
            vs, vp = ret_signature(vs), ret_signature(vp)
        ok = vs == vp
        R.add(rule, config, bp.key, m + "-value-equal", ok, "" if ok else "return value of parallel %s() differs from the sequential one:\n   seq %s\n   par %s" % (m, short(vs)[:300], short(vp)[:300]), bp.j["span"])
        if m == "jacobian":
            try:
                Ms, ks, vs_, es, effs_s, cns = jacobian_column_write(F, ev, bs)
                Mp, kp, vp_, ep, effs_p, cnp = jacobian_column_write(F, ev, bp)
                sig_s = effects_signature(effs_s, cns, vs_, pretty=False)
                sig_p = effects_signature(effs_p, cnp, vp_, pretty=False)
                ok = sig_s == sig_p and canon(Ms) == canon(Mp) and canon(ks) == canon(kp) and ks[0] == "iv"
                R.add(rule, config, bp.key, "column-closure-effects-equal", ok,
                      "equal normal forms of the written column, equal allocation, index and model calls" if ok else
                      "the per-column computation of the parallel jacobian() differs from the sequential one:\n   seq %s\n   par %s" % (
                          effects_signature(effs_s, cns, vs_, True), effects_signature(effs_p, cnp, vp_, True)), bp.j["span"])
            except AnchorMissing as ex:
                R.bad(rule, config, bp.key, "column-closure-effects-equal", "%s (undetermined)" % ex, bp.j["span"])
    R.floor(rule, config, 7, "4 methods + conditions + column closure")


def effects_signature(effs, cn, val, pretty=False):
    """(model calls, normal form of the full-column write) in canonical access form (loop / closure /
    index-loop forms coincide), canonicalised for the seq/par comparison"""
    N = nfmod.NF()
    calls = sorted(set(repr((e.cid, tuple(canon(cn.canon(a)) for a in e.raw))) for e in effs if e.kind == "call" and e.cid.startswith(TRAIT_MODEL)))
    n = N.nf(canon(val))
    w = nfmod.show(n, short) if pretty else repr(sorted(n.items(), key=repr))
    if pretty:
        return "writes %s; model calls %d" % (w[:300], len(calls))
    return (tuple(calls), w)


def closure_signature(effects, pretty=False):
    """(model calls, normal forms of full-column writes) of a per-column closure"""
    N = nfmod.NF()
    calls = sorted(repr((c, a)) for c, a in effects if c.startswith(TRAIT_MODEL))
    writes = []
    for c, a in effects:
        if c.rsplit("::", 1)[-1] in FULL_COLUMN_WRITES and len(a) >= 2:
            n = N.nf(a[1])
            writes.append((repr(a[0]), nfmod.show(n, short) if pretty else repr(sorted(n.items(), key=repr))))
    if pretty:
        return "writes %s; model calls %d" % ([w[1][:200] for w in writes], len(calls))
    return (tuple(calls), tuple(sorted(writes)))


def ret_signature(v):
    from rules_stats2 import base_alloc
    alts = v[1] if v[0] == "phi" else (v,)
    present = sorted(set(repr(base_alloc(a[1])) for a in alts if a[0] == "opt"))
    absent = any(is_absent_value(a) for a in alts)
    return (tuple(present), absent)


# try_for_each: runs the closure for every item and keeps only "did any fail" — no value depends on the schedule
RAYON_OK = {"par_column_iter_mut", "enumerate", "map", "collect", "try_for_each"}


def rule_par_pure(F, ev, R, config, rule="R-PAR-PURE", metadata=None):
    """rayon is used only as par_column_iter_mut().enumerate().map(c).collect(); the closure
    captures by shared reference, has no unsafe / interior mutability / sync primitives"""
    n = 0
    allk = set(F.bodies)
    for b in sorted(F.bodies.values(), key=lambda x: x.key):
        rootb = F.bodies.get(b.j.get("root", b.key), b)
        # a private function that nothing calls cannot influence any result (kept code, `#[allow(dead_code)]`)
        dead = rootb.j.get("vis") != "pub" and "trait" not in rootb.j.get("impl", {}) and not local_callers(F).get(rootb.key)
        for bi, t in b.calls():
            if "fn" not in t:
                continue
            fn = t["fn"]
            if fn.get("krate") in ("rayon", "rayon_core") or "par_iter" in fn["path"] or (fn.get("trait", "").startswith("rayon")):
                if dead:
                    R.ok(rule, config, b.key, "rayon-in-unreachable-code", "private function without any caller", t.get("span"))
                    continue
                n += 1
                ok = fn["name"] in RAYON_OK
                why_not = "rayon combinator `%s` (a reduction/fold/for_each makes the result depend on the schedule)" % fn["name"]
                if fn["name"] == "map_init":
                    # per-worker scratch state: how many items share one state depends on the schedule, so the state a call
                    # FINDS must not reach anything the call produces — every read of it comes after it was overwritten
                    import effects as fx
                    v0 = ev.call_val(Env(b), bi)
                    opc = v0[3][2] if v0[0] == "call" and len(v0[3]) == 3 and v0[3][2][0] == "closure" else None
                    INIT = ("sym", "init")
                    leak = None
                    seen_any = False
                    if opc is not None:
                        for e in list(fx.iteration_effects(ev, Env(rootb))):   # all of them first: summaries are recorded while later effects are evaluated
                            if not (e.body.key == opc[1] or e.body.key.startswith(opc[1] + "::") or any(pk == opc[1] for pk, _ in e.env.path)):
                                continue
                            seen_any = True
                            ob = ev.kernel_obligations.get((e.body.key, e.block, e.env.path)) if e.kind == "call" else None
                            for a_ in (e.raw or []):
                                if a_ == INIT and ob is not None and not contains(ob[2], lambda y: y == INIT):
                                    continue   # handed over as the buffer of an overwriting kernel: written, not read
                                if contains(a_, lambda y: y == INIT):
                                    leak = "%s(%s)" % (e.name if e.kind == "call" else "store", short(a_)[:80])
                                    break
                            if leak:
                                break
                        if leak is None and seen_any:
                            cenv_ = ev.inline_env(F.bodies[opc[1]], {1: opc, 2: INIT, 3: ("sym", "item")}, 1)
                            rv_ = ev.ret_val(cenv_)
                            if contains(rv_, lambda y: y == INIT):
                                leak = "returned value"
                    ok = opc is not None and seen_any and leak is None
                    why_not = ("rayon `map_init`: the per-worker state as found by a call reaches `%s` — the result depends on how rayon "
                               "splits the items over workers" % leak) if leak else "rayon `map_init` whose closure cannot be analysed (undetermined)"
                R.add(rule, config, b.key, "rayon:" + fn["name"], ok, "" if ok else why_not, t.get("span"))
                if fn["name"] in ("map", "try_for_each", "map_init"):
                    # the closure
                    env = Env(b)
                    v = ev.call_val(env, bi)
                    c = v[3][-1] if v[0] == "call" else None
                    if fn["name"] == "try_for_each":
                        ty = b.local_ty(t["dest"]["l"]) or ""
                        okp = ty.startswith("std::result::Result<()") or ty.startswith("std::option::Option<()")
                        R.add(rule, config, b.key, "collected-payload-is-unit", okp, "" if okp else "try_for_each yields `%s`" % ty[:80], t.get("span"))
                    if not c or c[0] != "closure":
                        R.bad(rule, config, b.key, "rayon-closure", "map() argument is not a closure literal (undetermined)", t.get("span"))
                        continue
                    cb = F.bodies[c[1]]
                    caps = cb.j.get("captures", [])
                    okc = all(cp["by"].startswith("ref:Immutable") for cp in caps)
                    R.add(rule, config, cb.key, "captures-shared-only", okc,
                          "" if okc else "closure captures %s" % [(cp["place"], cp["by"]) for cp in caps if not cp["by"].startswith("ref:Immutable")], cb.j["span"])
                    bad = []
                    for x in [cb] + F.all_closures_under(cb.key):
                        for l in x.locals:
                            if any(m in l["ty"] for m in INTERIOR_MUT) or "thread_local" in l["ty"]:
                                bad.append(l["ty"][:60])
                        for cbi, ctt in x.calls():
                            if "fn" in ctt:
                                p = ctt["fn"]["path"]
                                if any(s in p for s in ("std::sync::", "std::cell::", "std::thread::", "std::io::", "std::fs::", "std::env::", "atomic", "static_mut")):
                                    bad.append(p[:60])
                    for u in F.unsafe_blocks:
                        if not u["block"]["user"] or u["in"] != cb.j.get("root"):
                            continue
                        if "closure" in u["block"]:
                            # by nesting (recorded by the extractor): inside this closure or one nested in it
                            uc = u["block"]["closure"]
                            inside = uc is not None and (uc == cb.key or uc.startswith(cb.key + "::"))
                        else:
                            inside = cb.j["span"]["line"] <= u["block"]["span"]["line"] <= cb.j["span"]["eline"]
                        if inside:
                            bad.append("unsafe block")
                    R.add(rule, config, cb.key, "no-shared-mutation", not bad, "" if not bad else "closure run by rayon uses %s" % bad[:3], cb.j["span"])
                if fn["name"] == "collect":
                    ty = b.local_ty(t["dest"]["l"])
                    okp = ty.startswith("std::result::Result<std::vec::Vec<()>")
                    R.add(rule, config, b.key, "collected-payload-is-unit", okp, "" if okp else "collected type `%s` carries data whose order could matter" % ty[:80], t.get("span"))
    if config.endswith("parallel"):
        R.floor(rule, config, 6, "4 rayon calls + closure checks")


def rule_into_identity(F, ev, R, config, rule="R-INTO-IDENTITY"):
    for name in ("into_sequential", "into_parallel"):
        bs = inherent_methods(F, ADT_PROBLEM, name)
        if name == "into_sequential" and len(bs) != 1:
            R.bad(rule, config, "-", "anchor-missing", "into_sequential not found")
        for b in bs:
            ev.fresh_ctx()
            v = ev.ret_val(Env(b))
            ok = v[0] == "agg" and v[1] == ADT_PROBLEM and all(t == ("field", ("param", b.key, 1), f) for f, t in v[3]) and len(v[3]) == len(struct_fields(F, ADT_PROBLEM))
            R.add(rule, config, b.key, "all-roles-moved-unchanged", ok, "" if ok else "%s() returns `%s`" % (name, short(v)[:200]), b.j["span"])
    R.floor(rule, config, 1, "into_sequential")


def rule_ctor_siblings(F, ev, R, config, rule="R-CTOR-SIBLINGS"):
    br = builder_roles(F)
    ctors = [b for b in inherent_methods(F, ADT_PBUILDER) if b.j.get("inputs") == ["Model"] and ADT_PBUILDER in b.j.get("output", "") and b.j.get("vis") == "pub"]
    for b in ctors:
        ev.fresh_ctx()
        v = ev.ret_val(Env(b))
        ok = False
        if v[0] == "agg" and v[1] == ADT_PBUILDER:
            f = dict(v[3])
            ok = (f[br["data"]] == ("none",) and f[br["eps"]] == ("none",) and f[br["model"]] == ("param", b.key, 1)
                  and f[br["weights"]] == ("agg", ADT_WEIGHTS, "Unit", ()))
        R.add(rule, config, b.key, "empty-builder", ok, "" if ok else "constructor returns `%s`, expected no data, no epsilon, unit weights, the given model" % short(v)[:200], b.j["span"])
    R.floor(rule, config, 2 if not config.endswith("parallel") else 4, "new/mrhs (+ parallel twins)")


def rule_no_const_param_use(F, ev, R, config, rule="R-NO-CONST-PARAM-USE"):
    """no function body uses the const generics MRHS / PAR / PARALLEL as a value: single and
    multiple right-hand sides, sequential and parallel problems share one code path"""
    import json
    n = 0
    for b in F.bodies.values():
        gens = [g[0] for g in b.j.get("generics", []) if g[1] == "const"]
        if not gens:
            continue
        n += 1
        used = set()
        for x in walk_json(b.j["blocks"]):
            if isinstance(x, dict) and x.get("k") == "const" and "param" in x:
                used.add(x["param"])
        ok = not used
        R.add(rule, config, b.key, "const-generics-not-inspected", ok, "" if ok else "body branches on / uses const generic %s as a value" % sorted(used), b.j["span"])
    R.floor(rule, config, 20, "bodies generic over MRHS/PAR")


def walk_json(x):
    st = [x]
    while st:
        y = st.pop()
        if isinstance(y, dict):
            yield y
            st.extend(y.values())
        elif isinstance(y, list):
            st.extend(y)


def rule_obs_reshape(F, ev, R, config, rule="R-OBS-RESHAPE"):
    br = builder_roles(F)
    obs = inherent_methods(F, ADT_PBUILDER, "observations")
    for b in obs:
        ev.fresh_ctx()
        v = ev.ret_val(Env(b))
        ok = False
        msg = "observations() returns `%s`" % short(v)[:200]
        fv_ = struct_view(F, v, ADT_PBUILDER)   # aggregate, or `mut self; self.Y = ..; self` (an update of the receiver)
        if fv_ is not None and br["data"] in fv_:
            y = fv_[br["data"]]
            arg = ("param", b.key, 2)
            if y[0] == "opt" and not y[2]:
                p = y[1]
                if p == arg:
                    ok = True
                elif p[0] == "call" and p[1].endswith("reshape_generic") and p[3][0] == arg:
                    r, c = p[3][1], p[3][2]
                    rd = r[3][0][1] if r[0] == "agg" and r[3] else r
                    cd = c[3][0][1] if c[0] == "agg" and c[3] else c
                    ok = is_call(rd, "Matrix::nrows") and rd[3][0] == arg and cd == ("const", "usize", 1)
                    if not ok:
                        msg = "the observation vector is reshaped to %s × %s, expected nrows(y) × 1" % (short(rd), short(cd))
        R.add(rule, config, b.key, "observations-stored-as-given", ok, "" if ok else msg, b.j["span"])
    R.floor(rule, config, 2, "single- and multi-rhs observations()")


# --------------------------------------------------------------------------- #
# C18 — problem builder
# --------------------------------------------------------------------------- #
def rule_setter_frame(F, ev, R, config, rule="R-SETTER-FRAME"):
    br = builder_roles(F)
    expect = {"observations": "data", "epsilon": "eps", "weights": "weights"}
    n = 0
    for b in inherent_methods(F, ADT_PBUILDER):
        if b.name not in expect:
            continue
        n += 1
        ev.fresh_ctx()
        v = ev.ret_val(Env(b))
        fv = struct_view(F, v, ADT_PBUILDER)
        if fv is None:
            R.bad(rule, config, b.key, "frame", "setter returns `%s` (undetermined)" % short(v)[:120], b.j["span"])
            continue
        own = br[expect[b.name]]
        for f, t in sorted(fv.items()):
            if f == own:
                dep = contains(t, lambda x: x[0] == "param" and x[2] == 1)
                R.add(rule, config, b.key, "sets:" + f, not dep, "" if not dep else "new value of `%s` depends on previous builder state" % f, b.j["span"])
            else:
                ok = t == ("field", ("param", b.key, 1), f)
                R.add(rule, config, b.key, "keeps:" + f, ok, "" if ok else "%s() changes field `%s` to `%s`" % (b.name, f, short(t)[:80]), b.j["span"])
    # every OTHER function that returns a builder: a conversion or a new setter. It must take a builder and hand every role
    # on unchanged — except the threshold, which may only become Some(|argument|) (the contract of `epsilon`) — or be
    # one of the plain constructors (R-CTOR-SIBLINGS) or Clone (R-CLONE-IDENTITY). Anything else creates builder states the
    # reviewed API cannot (a conversion that forgets the threshold, a `From<Problem>` that feeds weighted data back in).
    for b in sorted(F.bodies.values(), key=lambda x: x.key):
        out = b.j.get("output", "")
        if b.kind == "Closure" or not out.startswith(ADT_PBUILDER) and out not in ("Self",):
            continue
        im = b.j.get("impl", {})
        if out == "Self" and im.get("self_adt") != ADT_PBUILDER:
            continue
        if im.get("trait") == "std::clone::Clone":
            continue
        if not im.get("trait") and b.j.get("vis") != "pub":
            continue    # private helpers are seen through the public functions that call them
        ins = b.j.get("inputs", [])
        if im.get("self_adt") == ADT_PBUILDER and not im.get("trait") and (b.name in expect or ins == ["Model"]):
            continue
        takes_builder = bool(ins) and (ins[0].startswith(ADT_PBUILDER) or (ins[0] in ("Self", "self") and im.get("self_adt") == ADT_PBUILDER))
        if not takes_builder:
            R.bad(rule, config, b.key, "unreviewed-constructor", "`%s` builds a LevMarProblemBuilder from something that is not a builder: a new way to "
                  "create builder states (needs review: observations must be the UNWEIGHTED data, the threshold |ε|, …)" % b.key[-60:], b.j["span"])
            continue
        ev.fresh_ctx()
        v = ev.ret_val(Env(b))
        fv = struct_view(F, v, ADT_PBUILDER)
        if fv is None:
            R.bad(rule, config, b.key, "frame", "returns `%s` (undetermined)" % short(v)[:120], b.j["span"])
            continue
        me1 = ("param", b.key, 1)
        for f, t in sorted(fv.items()):
            ok = t == ("field", me1, f)
            if not ok and f == br["eps"]:
                ok = (t[0] == "opt" and not t[2] and t[1][0] == "call" and t[1][1].rsplit("::", 1)[-1] in ("abs", "modulus", "norm1")
                                         and len(t[1][3]) == 1 and t[1][3][0][0] == "param") or \
                    (t[0] == "opt" and t[1][0] == "call" and t[1][1].rsplit("::", 1)[-1] in ("abs", "modulus", "norm1") and len(t[1][3]) == 1
                     and t[1][3][0][0] == "payload" and t[1][3][0][1][0] == "param")
            R.add(rule, config, b.key, "keeps:" + f, ok, "" if ok else "%s() changes field `%s` to `%s` (a conversion must keep every role; a threshold "
                  "setter must store |ε|)" % (b.name, f, short(t)[:80]), b.j["span"])
    R.floor(rule, config, 16, "4 setters × 4 fields")


def rule_initial_set_params(F, ev, R, config, rule="R-INITIAL-SET-PARAMS"):
    pr = problem_roles(F)
    br = builder_roles(F)
    b = build_body(F)
    oks, alts = build_ok_problem(F, ev, b)
    if len(oks) != 1:
        R.bad(rule, config, b.key, "ok-value", "build() Ok alternatives: %d" % len(oks), b.j["span"])
        return
    p, sites = strip_mut(oks[0][3][0][1])
    ok = False
    msg = "the built problem is returned without a parameter update at the model's initial parameters"
    # the update may sit in build() itself or in a private helper it calls: look at the effects
    from effects import iteration_effects
    me = ("param", b.key, 1)
    ups = [e for e in iteration_effects(ev, Env(b)) if e.kind == "call" and e.cid == TRAIT_LSP + "::set_params" and strip_mut(e.args[0])[0] == p]
    if len(sites) == 1 and len(ups) == 1:
        a1 = ups[0].args[1]
        if is_call(a1, TRAIT_MODEL + "::params") and a1[3][0] == ("field", me, br["model"]):
            ok = True
        else:
            msg = "initial parameter update uses `%s`, not the model's own parameters" % short(a1)[:120]
    elif len(sites) > 1 or len(ups) > 1:
        msg = "the problem is mutated %d times before being returned (undetermined)" % max(len(sites), len(ups))
    R.add(rule, config, b.key, "ok-passes-set_params(model.params)", ok, "" if ok else msg, b.j["span"])
    R.floor(rule, config, 1, "build()")


def rule_problem_build_table(F, ev, R, config, rule="R-PROBLEM-BUILD-TABLE"):
    """build(): each LevMarBuilderError only under its own condition, Ok only after all
    validations — wherever the checks live (build() itself or private helpers it calls)"""
    br = builder_roles(F)
    b0 = build_body(F)
    me = ("param", b0.key, 1)
    Yopt = ("field", me, br["data"])
    Y = ("payload", Yopt, "ok", "0")
    XL = lambda x: is_call(x, TRAIT_MODEL + "::output_len") and strip_mut(x[3][0])[0] == ("field", me, br["model"])
    NR = lambda x: is_call(x, "Matrix::nrows") and x[3][0] == Y

    def classify(term):
        """('zero'|'empty'|'rows'|'weights_fit', truth value of `term` that means the *defect*) or None"""
        t = term
        neg = False
        while t[0] == "un" and t[1] == "Not":
            t, neg = t[2], not neg
        r = canon_rel(term, True)
        if r and r[0] in ("Eq", "Ne"):
            ops = (r[1], r[2])
            if any(XL(x) for x in ops) and ("const", "usize", 0) in ops:
                return ("zero", r[0] == "Eq")
            if any(XL(x) for x in ops) and any(NR(x) for x in ops):
                return ("rows", r[0] == "Ne")
            # emptiness of the observations spelled out by extent: no rows / no columns / no elements
            if ("const", "usize", 0) in ops:
                for x in ops:
                    if x[0] == "call" and len(x) >= 4 and x[3] and x[3][0] == Y and "nalgebra" in x[1]:
                        n_ = x[1].rsplit("::", 1)[-1]
                        if n_ == "nrows":
                            return ("empty_rows", r[0] == "Eq")
                        if n_ == "ncols":
                            return ("empty_cols", r[0] == "Eq")
                        if n_ == "len":
                            return ("empty", r[0] == "Eq")
        if t[0] == "call" and t[1].endswith("::is_empty") and t[3][0] == Y:
            return ("empty", not neg)
        if t[0] != "discr" and contains(t, lambda x: x[0] == "payload" and x[2] == "Diagonal") and contains(t, lambda x: x == ("field", me, br["weights"])) and \
                contains(t, lambda x: (x[0] == "bin" and x[1] in ("Eq", "Ne")) or (x[0] == "call" and x[1].startswith("std::cmp::PartialEq"))):
            if r and r[0] in ("Eq", "Ne"):
                return ("weights_fit", r[0] == "Ne")   # a direct comparison of the diagonal's length: `!=` is the defect
            return ("weights_fit", neg)   # the size test (a bool built from such a comparison) is true when the weights fit
        return None

    Wterm = ("field", me, br["weights"])
    results = {}
    order = []

    def analyse(var, env, b):
        def rec(fnkey, inst, ok, msg="", span=None):
            if var == "Unit" and ("weights_fit" in inst or inst == "weights-length-vs-rows"):
                return   # nothing to validate for unit weights (that they are never rejected is checked below)
            k = (fnkey, inst)
            if k not in results:
                results[k] = [True, "", span]
                order.append(k)
            if not ok and results[k][0]:
                results[k] = [False, "for %s weights: %s" % (var, msg), span]

        def recbad(fnkey, inst, msg, span=None):
            if var == "Unit" and inst == "err-only-under-its-condition:InvalidLengthOfWeights" and "never produced" in msg:
                return
            rec(fnkey, inst, False, msg, span)
        pairs = inlined_envs(ev, env)
        found = {}
        err_results = {}
        per_body = {}

        def implies_defect(term, truth, names):
            """`term == truth` implies one of the defects `names`"""
            if term[0] == "un" and term[1] == "Not":
                return implies_defect(term[2], not truth, names)
            if term[0] == "bin" and term[1] in ("LAnd", "LOr"):
                conj = (term[1] == "LAnd") == truth      # a conjunction of the (possibly negated) members holds
                a, b_ = implies_defect(term[2], truth, names), implies_defect(term[3], truth, names)
                return (a or b_) if conj else (a and b_)
            c = classify(term)
            if c and c[0] == "weights_fit" and "weights_fit" not in found:
                found["weights_fit"] = {"term": term}       # a size test that is a value, not a branch (`….then_some(())`)
            return bool(c) and c[0] in names and c[1] == truth

        def guards_of(body, e2):
            if id(e2) not in per_body:
                g = Guards(ev, body, e2)
                atoms = {}
                for sw in g.switches:
                    c = classify(sw["term"])
                    if c:
                        atoms.setdefault(c[0], []).append((sw, c[1]))
                        found[c[0]] = sw
                per_body[id(e2)] = (g, atoms)
            return per_body[id(e2)]

        def site_ok(body, e2, bi, names, local=None, depth=0):
            """the error built in block `bi` can be returned only when one of the defects `names` is present"""
            g, atoms = guards_of(body, e2)
            es = [g.bool_edges(sw, defect_truth) for a in names for sw, defect_truth in atoms.get(a, [])]
            if es and g.holds_on_all_paths_to(bi, es):
                return True
            # the conditions that hold at the site (also: presence conditions of `?` on `cond.then_some(..).ok_or(..)`)
            if any(isinstance(tr, bool) and implies_defect(t_, tr, names) for t_, tr, sw_ in g.relations_at(bi)[1]):
                return True
            # built eagerly as the argument of `recv.ok_or(E)`: returned only when recv is absent
            if local is not None:
                only_if = returned_only_if(ev, body, e2, local)
                if only_if and (never_holds(only_if) or any(implies_defect(t_, tr, names) for t_, tr in only_if)):
                    return True
            # a private constructor helper of the error value: the site is its call
            if depth < 3 and e2.parent is not None and e2.path and unconditional_constructor(body, bi):
                pb, pblk = e2.parent.body, e2.path[-1][1]
                return site_ok(pb, e2.parent, pblk, names, pb.blocks[pblk]["term"]["dest"]["l"], depth + 1)
            return False
        for body, e2 in pairs:
            g, atoms = guards_of(body, e2)
            spec = {"ZeroLengthVector": ["zero", "empty", "empty_rows", "empty_cols"], "InvalidLengthOfData": ["rows"], "InvalidLengthOfWeights": ["weights_fit"]}
            for bi, si, s in body.stmts():
                if s["k"] == "assign" and s["rv"]["k"] == "agg" and s["rv"].get("adt", "").endswith("LevMarBuilderError"):
                    v = s["rv"]["variant"]
                    if v in spec:
                        ok = site_ok(body, e2, bi, spec[v], s["place"]["l"] if not s["place"]["proj"] else None)
                        err_results.setdefault(v, []).append((ok, body, s))
                    elif v == "YDataMissing":
                        cons = consumers(body, s["place"]["l"])
                        ok = False
                        if len(cons) == 1 and cons[0]["kind"] == "call" and cons[0]["cid"].rsplit("::", 1)[-1] in ("ok_or",):
                            recv = ev.operand(e2, cons[0]["term"]["args"][0], (cons[0]["block"], None))
                            ok = recv == Yopt
                        else:
                            # match form: the site lies on the None edge of a test of the data option
                            es = []
                            for sw in g.switches:
                                if sw["term"][0] == "discr" and sw["term"][1] == Yopt:
                                    yes, no = variant_edge(body, sw["block"], "None")
                                    if yes:
                                        es.append(yes)
                            ok = bool(es) and g.holds_on_all_paths_to(bi, es)
                        err_results.setdefault(v, []).append((ok, body, s))
        for v in ("YDataMissing", "ZeroLengthVector", "InvalidLengthOfData", "InvalidLengthOfWeights"):
            if v not in err_results:
                recbad(b.key, "err-only-under-its-condition:" + v, "error variant %s is never produced: the violated requirement is not reported" % v, b.j["span"])
            for ok, body, s in err_results.get(v, []):
                rec(body.key, "err-only-under-its-condition:" + v, ok,
                      "" if ok else "Err(%s) can be returned although its requirement is not violated" % v, s.get("span"))
        # the weight length must be compared with the number of *rows* of the observations
        if "weights_fit" in found:
            wt = found["weights_fit"]["term"]
            cmp_ok = False
            seen = []
            for x in walk(wt):
                if x[0] == "bin" and x[1] in ("Eq", "Ne"):
                    for side in (x[2], x[3]):
                        seen.append(side)
                        if NR(side) or (side[0] == "call" and side[1].endswith("Matrix::nrows") and strip_mut(side[3][0])[0] == Y):
                            cmp_ok = True
            rec(b.key, "weights-length-vs-rows", cmp_ok,
                  "" if cmp_ok else "the weight length is validated against `%s`, not against the number of rows of the observations: "
                  "for several right-hand sides a wrong weight vector passes and the row scaling panics" % [short(x)[:50] for x in seen][:4], b.j["span"])
        # Ok dominated by all validations (conditions collected interprocedurally)
        g = Guards(ev, b, env)
        ok_sites = [(bi, s) for bi, si, s in b.stmts() if s["k"] == "assign" and s["rv"]["k"] == "agg" and s["rv"].get("variant") == "Ok" and s["place"]["l"] == 0]
        if not ok_sites:
            recbad(b.key, "ok-site", "build() never returns Ok", b.j["span"])
        for bi, s in ok_sites:
            rels, raw = g.relations_at(bi)
            have = {"zero": False, "empty": False, "rows": False, "weights_fit": False, "observations-present": False}
            parts = {"empty_rows": False, "empty_cols": False}
            conds = [(t, tr) for t, tr, sw in raw if isinstance(tr, bool)]
            for r in rels:
                conds.append((("bin", r[0], r[1], r[2]), True))
            for t, tr in conds:
                c = classify(t)
                if c and c[0] == "weights_fit" and "weights_fit" not in found:
                    found["weights_fit"] = {"term": t}
                if c and c[1] != tr:
                    if c[0] in parts:
                        parts[c[0]] = True
                    else:
                        have[c[0]] = True
            # not empty = at least one row and at least one column (rows also follow from output_len ≠ 0 = nrows)
            if (parts["empty_rows"] or (have["zero"] and have["rows"])) and parts["empty_cols"]:
                have["empty"] = True
            for t, tr, sw in raw:
                if t[0] == "discr" and not isinstance(tr, bool):
                    inner = t[1][1] if t[1][0] == "cf" else t[1]
                    if contains(inner, lambda x: x == Yopt):
                        have["observations-present"] = True
            for k2, v in have.items():
                rec(b.key, "ok-needs:%s" % k2, v, "" if v else "Ok(problem) is reachable without the check `%s`" % k2, s.get("span"))

    for var in weight_variants(F):
        with ev.assuming(Wterm, var):
            env_v = ev.inline_env(b0, {}, 0)
            analyse(var, env_v, env_v.body)
            if var == "Unit":
                # unit weights fit every data length: the weights error must not be constructible for them
                live = env_v.body.live_blocks()
                sites = [st for bi, si, st in env_v.body.stmts() if bi in live and st["k"] == "assign" and st["rv"]["k"] == "agg"
                         and st["rv"].get("adt", "").endswith("LevMarBuilderError") and st["rv"].get("variant") == "InvalidLengthOfWeights"]
                # a value built eagerly as the argument of `cond.then_some(()).ok_or(E)` with cond folded to true is never handed on
                sites = [st for st in sites if st["place"]["proj"] or not never_holds(returned_only_if(ev, env_v.body, env_v, st["place"]["l"]) or [])]
                k = (b0.key, "unit-weights-never-rejected")
                results[k] = [not sites, "" if not sites else "Err(InvalidLengthOfWeights) can be returned for unit weights", sites[0].get("span") if sites else b0.j["span"]]
                order.append(k)
    for k in order:
        ok, msg, span = results[k]
        R.add(rule, config, k[0], k[1], ok, msg, span)
    b = b0
    # is_size_correct_for_data_length table
    for sb in inherent_methods(F, ADT_WEIGHTS, "is_size_correct_for_data_length"):
        ev.fresh_ctx()
        v = ev.ret_val(Env(sb))
        alts = set(v[1] if v[0] == "phi" else (v,))
        t1 = ("const", "bool", 1) in alts
        eqs = [a for a in alts if a[0] == "bin" and a[1] == "Eq" and ("param", sb.key, 2) in (a[2], a[3])
               and contains(a, lambda x: x[0] == "payload" and x[2] == "Diagonal")]
        ok = t1 and len(eqs) == 1 and len(alts) == 2
        if not ok:
            # another spelling (`!matches!(self, Diagonal(d) if d.size() != n)`): decided once per variant
            def simp(t):
                neg = False
                while t[0] == "un" and t[1] == "Not":
                    t, neg = t[2], not neg
                if t[0] == "const" and t[1] == "bool":
                    return ("const", "bool", int(bool(t[2]) != neg))
                return ("un", "Not", t) if neg else t
            got = {}
            me_w = ("param", sb.key, 1)
            for var in weight_variants(F):
                ev.fresh_ctx()
                with ev.assuming(me_w, var):
                    got[var] = simp(ev.ret_val(ev.inline_env(sb, {}, 0)))
            r_ = canon_rel(got.get("Diagonal", ("none",)), True)
            ok = got.get("Unit") == ("const", "bool", 1) and bool(r_) and r_[0] == "Eq" and ("param", sb.key, 2) in (r_[1], r_[2]) and \
                contains(("t", r_[1], r_[2]), lambda x: x[0] == "payload" and x[2] == "Diagonal")
        R.add(rule, config, sb.key, "unit=>true,diagonal=>len==n", ok, "" if ok else "weights size check evaluates to `%s`" % short(v)[:200], sb.j["span"])
    R.floor(rule, config, 10, "4 error variants + 5 success conditions + size table")


def rule_weights_ctor(F, ev, R, config, rule="R-WEIGHTS-CTOR"):
    """the weights a caller supplies are the weights that are stored: the builder's weights setter stores exactly
    `Diagonal(DiagMatrix{diagonal: the given vector})` — one alternative, no path on which given weights become Unit or
    are changed — and every public constructor of Weights / DiagMatrix from a vector is that identity embedding"""
    br = builder_roles(F)
    dfield = [f["name"] for f in struct_fields(F, ADT_DIAG)]
    n = 0

    def is_diag_of(t, vec):
        """t == Weights::Diagonal(DiagMatrix{diagonal: vec})"""
        if t[0] != "agg" or t[1] != ADT_WEIGHTS or t[2] != "Diagonal" or not t[3]:
            return False
        d = t[3][0][1]
        return d[0] == "agg" and d[1] == ADT_DIAG and len(d[3]) == 1 and d[3][0][1] == vec

    for sb in inherent_methods(F, ADT_PBUILDER):
        # a setter taking a vector and returning the builder whose weights field changes
        if not (sb.j.get("inputs") and ADT_PBUILDER in sb.j["inputs"][0] and len(sb.j["inputs"]) == 2 and "nalgebra::Matrix" in sb.j["inputs"][1]):
            continue
        ev.fresh_ctx()
        v = ev.ret_val(Env(sb))
        fv = struct_view(F, v, ADT_PBUILDER)
        if fv is None:
            continue
        w = fv.get(br["weights"])
        if w is None or w == ("field", ("param", sb.key, 1), br["weights"]):
            continue   # not the weights setter
        n += 1
        ok = is_diag_of(w, ("param", sb.key, 2))
        R.add(rule, config, sb.key, "stores-the-given-weights", ok,
              "" if ok else "the weights setter stores `%s`, not Diagonal(the given vector): supplied weights can be dropped or altered" % short(w)[:160], sb.j["span"])
    # public constructors: Weights::diagonal(v), From<DiagMatrix>, DiagMatrix::from(v)
    for b in F.bodies.values():
        if b.kind == "Closure":
            continue
        im = b.j.get("impl", {})
        out = b.j.get("output", "")
        ins = b.j.get("inputs", [])
        if im.get("self_adt") == ADT_WEIGHTS and len(ins) == 1 and "nalgebra::Matrix" in ins[0] and (out.startswith(ADT_WEIGHTS) or out == "Self"):
            n += 1
            ev.fresh_ctx()
            v = ev.ret_val(Env(b))
            ok = is_diag_of(v, ("param", b.key, 1))
            R.add(rule, config, b.key, "diagonal(v)=Diagonal(v)", ok, "" if ok else "constructing weights from a vector yields `%s`" % short(v)[:160], b.j["span"])
        if im.get("self_adt") == ADT_DIAG and im.get("trait", "").startswith("std::convert::From") and len(ins) == 1 and "nalgebra::Matrix" in ins[0]:
            n += 1
            ev.fresh_ctx()
            v = ev.ret_val(Env(b))
            ok = v[0] == "agg" and v[1] == ADT_DIAG and len(v[3]) == 1 and v[3][0][1] == ("param", b.key, 1)
            R.add(rule, config, b.key, "DiagMatrix::from(v) keeps v", ok, "" if ok else "DiagMatrix::from yields `%s`" % short(v)[:160], b.j["span"])
    R.floor(rule, config, 3, "builder setter, Weights::diagonal, DiagMatrix::from")


def rule_clone_identity(F, ev, R, config, rule="R-CLONE-IDENTITY", adts=None, group=None):
    """a copy of a state value is that value: every `Clone::clone` of a local type (derived or written by hand) returns, for
    structs, the aggregate whose field f is (a clone of) self.f for EVERY field, and for enums, per variant, the same variant
    with (clones of) its own payload fields. A hand-written Clone that fills one field from another (two same-typed
    counts, say) would make every accessor of the copy answer for a different object."""
    from terms import IDENTITY

    def strip(t):
        while t[0] == "call" and len(t) == 5 and t[3] and (t[1] in IDENTITY or t[1].rsplit("::", 1)[-1] in ("clone", "clone_owned", "to_owned", "clone_from")):
            t = t[3][0]
        return t
    if group is not None:
        adts = set()
        for g in group:
            adts |= {"stats": {ADT_STATS}, "problem": {ADT_PROBLEM, cache_adt_path(F)}, "weights": {ADT_WEIGHTS, ADT_DIAG}, "builder": {ADT_PBUILDER}}[g]
    n = 0
    for b in sorted(F.bodies.values(), key=lambda x: x.key):
        im = b.j.get("impl", {})
        adt = im.get("self_adt")
        if b.kind == "Closure" or im.get("trait") != "std::clone::Clone" or b.name != "clone" or adt not in F.adts:
            continue
        if adts is not None and adt not in adts:
            continue
        n += 1
        me = ("param", b.key, 1)
        ev.fresh_ctx()
        v = ev.ret_val(Env(b))
        alts = v[1] if v[0] == "phi" else (v,)
        kind = F.adts[adt].get("kind")
        bad = None
        if kind == "Enum":
            want = {vr["name"]: [f["name"] for f in vr["fields"]] for vr in F.adts[adt]["variants"]}
            seen = set()
            for a in alts:
                if a == me:
                    seen |= set(want)     # `*self` (Copy)
                    continue
                if a[0] != "agg" or a[1] != adt or a[2] not in want:
                    bad = "returns `%s`" % short(a)[:100]
                    break
                seen.add(a[2])
                fv = dict(a[3])
                for fn_ in want[a[2]]:
                    x = strip(fv.get(fn_, ("missing",)))
                    if not (x[0] == "payload" and x[1] == me and x[2] == a[2] and (len(x) < 4 or x[3] == fn_)):
                        bad = "variant %s: field `%s` of the copy is `%s`" % (a[2], fn_, short(x)[:80])
            if bad is None and seen != set(want):
                bad = "variants %s are not copied to themselves" % sorted(set(want) - seen)
        else:
            names = [f["name"] for f in struct_fields(F, adt)]
            if len(alts) == 1 and alts[0] == me:
                pass
            elif len(alts) != 1 or alts[0][0] != "agg" or alts[0][1] != adt:
                bad = "returns `%s`" % short(v)[:120]
            else:
                fv = dict(alts[0][3])
                for fn_ in names:
                    x = strip(fv.get(fn_, ("missing",)))
                    if x != ("field", me, fn_):
                        bad = "field `%s` of the copy is `%s`, not a clone of self.%s" % (fn_, short(x)[:80], fn_)
                        break
        R.add(rule, config, b.key, "clone-is-identity:" + adt.rsplit("::", 1)[-1], bad is None,
              "" if bad is None else "Clone for %s is not the identity copy: %s" % (adt.rsplit("::", 1)[-1], bad), b.j["span"])
    # an overridden `clone_from(&mut self, source)` must leave self equal to source as well: every field is replaced, on every
    # path, by (a clone of) the source's field — by assignment or by the field's own clone_from
    for b in sorted(F.bodies.values(), key=lambda x: x.key):
        im = b.j.get("impl", {})
        adt = im.get("self_adt")
        if b.kind == "Closure" or im.get("trait") != "std::clone::Clone" or b.name != "clone_from" or adt not in F.adts:
            continue
        if adts is not None and adt not in adts:
            continue
        if F.adts[adt].get("kind") == "Enum":
            R.bad(rule, config, b.key, "clone_from-is-identity:" + adt.rsplit("::", 1)[-1], "hand-written clone_from on an enum (needs review)", b.j["span"])
            continue
        me, src = ("param", b.key, 1), ("param", b.key, 2)
        env = Env(b)
        names = [f["name"] for f in struct_fields(F, adt)]
        covered = {}
        badw = None
        for bi, si, st in b.stmts():
            if st["k"] != "assign":
                continue
            pf = [e for e in st["place"]["proj"] if e["k"] == "field" and e.get("owner") == adt]
            if not pf:
                continue
            f_ = pf[0]["name"]
            whole = len([e for e in st["place"]["proj"] if e["k"] in ("field", "downcast")]) == 1
            v = strip(ev.rvalue(env, st["rv"], (bi, si)))
            if whole and v == ("field", src, f_):
                covered.setdefault(f_, set()).add(bi)
            else:
                badw = "field `%s` is set to `%s`" % (f_, short(v)[:80])
        for bi, t in b.calls():
            if "fn" in t and t["fn"]["name"] == "clone_from" and len(t["args"]) == 2:
                a0 = ev.operand(env, t["args"][0], (bi, None))
                a1 = ev.operand(env, t["args"][1], (bi, None))
                while a0[0] == "mutated":
                    a0 = a0[1]
                if a0[0] == "field" and a0[1] == me and a1 == ("field", src, a0[2]):
                    covered.setdefault(a0[2], set()).add(bi)
        if badw is None:
            for f_ in names:
                blks = covered.get(f_, set())
                if not blks or not b.must_pass(0, b.exits(), blks):
                    badw = "field `%s` is not replaced by the source's on every path" % f_
                    break
        R.add(rule, config, b.key, "clone_from-is-identity:" + adt.rsplit("::", 1)[-1], badw is None,
              "" if badw is None else "clone_from for %s does not make self a copy of the source: %s" % (adt.rsplit("::", 1)[-1], badw), b.j["span"])
    R.floor(rule, config, 1 if adts is not None else 5, "Clone impls of the state types")


def rule_no_shadow(F, ev, R, config, rule="R-NO-SHADOW", adts=None):
    """method resolution prefers inherent methods: a public inherent method of a state type with the NAME of a method of a
    trait implemented for that type silently replaces the trait method for every direct call on the concrete type (the
    solver, which calls through the trait, keeps using the other one). Allowed only when it returns exactly what the trait
    method returns (a delegating convenience method)."""
    types = set(adts or (ADT_PROBLEM, ADT_SEPMODEL, ADT_FITRESULT, ADT_STATS, ADT_PBUILDER, ADT_WEIGHTS))
    trait_methods = {}
    for b in F.bodies.values():
        im = b.j.get("impl", {})
        if b.kind != "Closure" and im.get("trait") and im.get("self_adt") in types and b.name:
            trait_methods.setdefault((im["self_adt"], b.name), []).append(b)
    n = 0
    for b in sorted(F.bodies.values(), key=lambda x: x.key):
        im = b.j.get("impl", {})
        if b.kind == "Closure" or im.get("trait") or im.get("self_adt") not in types or b.j.get("vis") != "pub":
            continue
        n += 1
        twins = [t for t in trait_methods.get((im["self_adt"], b.name), []) if t.j["impl"]["trait"] not in ("std::clone::Clone", "std::fmt::Debug", "std::default::Default")]
        if not twins:
            continue
        ev.fresh_ctx()
        vi = canon(ev.ret_val(Env(b)))
        same = True
        for t in twins:
            ev.fresh_ctx()
            vt = canon(ev.ret_val(Env(t)))
            if vt != vi and not (vi[0] == "call" and vi[1].endswith("::" + b.name) and vi[3] and vi[3][0] == ("param", "", 1)):
                same = False
        R.add(rule, config, b.key, "inherent-shadows-trait:" + b.name, same,
              "" if same else "the public inherent method `%s` takes precedence over `%s::%s` on the concrete type and returns something else: "
              "direct calls and calls through the trait now disagree" % (b.name, twins[0].j["impl"]["trait"].split("<")[0], b.name), b.j["span"])
    R.add(rule, config, "-", "inherent-methods-scanned", n > 0, "" if n else "no public inherent methods of the state types found (anchor)")
    R.floor(rule, config, 1, "scan of the state types' public inherent methods")


def _adt_args(ty, adt):
    """generic argument lists of every mention of `adt<…>` in a type string"""
    from mir import _split_top
    out = []
    i = 0
    while True:
        i = ty.find(adt + "<", i)
        if i < 0:
            return out
        j = i + len(adt) + 1
        depth, k = 1, j
        while k < len(ty) and depth:
            depth += ty[k] in "<([" 
            depth -= ty[k] in ">)]"
            k += 1
        out.append(_split_top(ty[j:k - 1]))
        i = k


def rule_flavour_flags(F, ev, R, config, rule="R-FLAVOUR-FLAGS"):
    """the two const flags of the problem type (right-hand-side flavour, execution flavour) keep their slots: wherever a
    function takes a problem and hands out a problem (the conversions between the sequential and the parallel flavour, the
    builder's `build`, `Clone`), a generic parameter that occurs in both types occurs at the same position — a type alias
    or signature with the two `bool`s swapped type-checks (a struct literal moving the fields fits any flags) but relabels
    a multi-column problem as a single-column one"""
    n = 0
    for b in sorted(F.bodies.values(), key=lambda x: x.key):
        if b.kind == "Closure":
            continue
        outs = _adt_args(b.j.get("output") or "", ADT_PROBLEM)
        ins = []
        for t in (b.j.get("inputs") or []):
            ins.extend(_adt_args(t, ADT_PROBLEM))
        if not outs or not ins:
            continue
        gen = set()
        for g in (b.j.get("generics") or []):
            gen.add(g if isinstance(g, str) else (g[0] if isinstance(g, (list, tuple)) and g else (g.get("name") if isinstance(g, dict) else None)))
        for o in outs:
            for a in ins:
                if len(o) != len(a):
                    continue
                n += 1
                bad = [(x, a.index(x), o.index(x)) for x in o if x in a and a.index(x) != o.index(x) and (not gen or x in gen or x.isidentifier())]
                R.add(rule, config, b.key, "flags-keep-their-slots", not bad,
                      "" if not bad else "`%s` moves from slot %d of the argument's `%s<%s>` to slot %d of the result's `<%s>`: the right-hand-side flavour and the execution "
                      "flavour are exchanged" % (bad[0][0], bad[0][1] + 1, ADT_PROBLEM.rsplit("::", 1)[-1], ", ".join(a), bad[0][2] + 1, ", ".join(o)), b.j["span"])
    # the fit result carries the problem in the flavour it was given: field type = what `into_sequential` hands out
    fr = [x for x in struct_fields(F, ADT_FITRESULT) if x.get("adt") == ADT_PROBLEM]
    conv = [b for b in F.bodies.values() if b.kind != "Closure" and b.j.get("impl", {}).get("self_adt") == ADT_PROBLEM and not b.j.get("impl", {}).get("trait")
            and _adt_args(b.j.get("output") or "", ADT_PROBLEM) and len(b.j.get("inputs") or []) == 1 and _adt_args((b.j.get("inputs") or [""])[0], ADT_PROBLEM)]
    for x in fr:
        fa = _adt_args(x["ty"], ADT_PROBLEM)
        for b in conv:
            ia = _adt_args(b.j["inputs"][0], ADT_PROBLEM)[0]
            if fa and len(fa[0]) == len(ia):
                n += 1
                bad = [(y, ia.index(y), fa[0].index(y)) for y in fa[0] if y in ia and ia.index(y) != fa[0].index(y)]
                R.add(rule, config, b.key, "result-field-keeps-slots:" + x["name"], not bad,
                      "" if not bad else "the fit result stores `<%s>` where the problem type is `<%s>`: `%s` changes its slot" % (", ".join(fa[0]), ", ".join(ia), bad[0][0]), b.j["span"])
    R.floor(rule, config, 3, "into_sequential, into_parallel, build/clone signatures")
