"""Property -> rules table. Every claimed property lists the structural clauses decided
(see DESIGN.md §5) and what is explicitly not decided."""
from core import Eval
import rules_err
import rules_stats
import rules_svd

BOTH = ("default", "parallel")


def make_eval(F):
    # the two weight-multiplication operators stay symbolic (W·M); their bodies are
    # checked separately by R-ROW-SCALING
    return Eval(F, opaque=[k for k in F.bodies if " as std::ops::Mul<" in k])


def _dof_guard(F, ev, R, c, **kw):
    rules_stats.rule_dof_guard(F, ev, R, c, checked=not c.startswith("release"), **kw)


PROPS = {}

PROPS["C09"] = {
    "configs": BOTH,
    "rules": [
        ("R-ERR-DISCIPLINE", rules_err.rule_err_discipline, {}),
        ("R-JAC-ABSENT", rules_err.rule_jac_absent, {}),
        ("R-STATS-ERR-MAP", rules_stats.rule_stats_err_map, {}),
    ],
    "explanation": "Error discipline decided on the type-checked MIR of both feature configurations: every call site of a "
                   "Result-returning SeparableNonlinearModel method is propagated with ?, converted with .ok() into an Option whose "
                   "None reaches the absent outcome, or branched on with the failure edge leading only to an emptied cache; "
                   "jacobian() returns Some only through the Ok edge of the collected column results; fit_with_statistics maps every failure to Err(FitResult).",
    "not_decided": ["absence of panics beyond C08's inventory", "content of the state carried by Err"],
}

PROPS["C12"] = {
    "configs": BOTH,
    "thorough_configs": ("release",),
    "rules": [
        ("R-DOF-GUARD", _dof_guard, {}),
        ("R-STATS-ERR-MAP", rules_stats.rule_stats_err_map, {}),
    ],
    "explanation": "Guard-before-subtraction and decision-table rules on FitStatistics' constructor and fit_with_statistics: the "
                   "degrees-of-freedom role is N-(M+P) of the model counts, every overflow-checked subtraction of these operands is "
                   "dominated by the edge N > M+P, Err(Underdetermined) is produced only under N <= M+P, Ok requires a successful "
                   "report, present coefficients and Ok statistics (release profile analysed in the thorough tier).",
    "not_decided": ["numerical values of the statistics"],
}

PROPS["C08"] = {
    "configs": BOTH,
    "rules": [
        ("R-SVD-FINITE", rules_svd.rule_svd_finite, {}),
    ],
    "explanation": "Every SVD constructor call in local code receives a matrix that was checked all-finite after its last arithmetic "
                   "(qualifier dataflow over presence conditions), both LeastSquaresProblem impls.",
    "not_decided": ["termination/panic-freedom inside nalgebra and levenberg-marquardt on finite input"],
}
