"""Property -> rules table. Every claimed property lists the structural clauses decided
(see DESIGN.md §5) and what is explicitly not decided."""
from core import Eval
import rules_err
import rules_stats
import rules_svd
import rules_problem as rp
import rules_problem2 as rp2
import rules_stats2 as rs2
import rules_mbuilder as rmb
import rules_model as rm
import rules_panic as rpn
import shapes
import rules_lm

BOTH = ("default", "parallel")


# one-line statements of the rules that were added to properties after the explanations above were written: appended to
# the explanation (MANIFEST level text, evidence coverage.explanation) so that what a check claims is what it runs
RULE_LINES = {
    "R-NO-HISTORY": "every update replaces the cache on every path (no value computed for earlier parameters survives; no interior mutability)",
    "R-OBS-RESHAPE": "observations are stored exactly as supplied",
    "R-WEIGHTS-CTOR": "supplied weights are stored unchanged as Diagonal(v)",
    "R-CLONE-IDENTITY": "Clone / clone_from of the state types copy every field to itself",
    "R-WHO-WRITES": "LevMarProblem fields are private, written only in set_params, no &mut handed out, constructed only by build()/into_*/Clone",
    "R-NO-SHADOW": "no public inherent method shadows a trait method with a different result",
    "R-SETTER-FRAME": "every public function returning a builder keeps all roles except its own (threshold: Some(|eps|)); no unreviewed constructor",
    "R-PROBLEM-BUILD-TABLE": "build() decision table per weights variant; weight length compared with the ROW count",
    "R-DATA-WEIGHT-ONCE": "stored data = W*Y exactly once, decided per weights variant",
    "R-ROW-SCALING": "&Weights*M is M for Unit and the diagonal product for Diagonal (per variant); every column scaled",
    "R-COEF-SOLVE": "coefficients = solve(svd(W*Phi, U, V), Y_w, eps) with an SVD entry point whose tolerance is not caller-controlled",
    "R-CHECKED-CALLS": "a basis function / derivative output of the wrong length (shorter or longer) is an error, never copied",
    "R-STATS-ARGS": "the statistics are computed from the roles of the one fitted problem",
    "R-RESID-TERM": "cached residuals = Y_w - W*Phi*c with the cached c",
    "R-FIT-MAP": "fit() returns Ok exactly under was_successful (decision may sit in a private helper)",
    "R-CHI2": "reduced chi2 = |r_w|^2 / dof, standard error = sqrt",
    "R-DOF-GUARD": "dof = N-(M+P) (stored or derived from stored shapes), subtraction guarded, Err(Underdetermined) iff N <= M+P",
    "R-STATS-SEALED": "FitStatistics: private fields, single constructor, never written after construction",
    "R-MODEL-SEALED": "SeparableModel: private fields, only the parameter vector written and only in set_params, built only by the builder",
    "R-MODEL-VALUE-SETTERS": "initial_parameters / independent_variable store Some(argument) in their own role only",
    "R-NAME-CONVERSION": "names become Strings only from their AsRef<str> view",
    "R-DECLARED-ORDER": "functions and derivatives are wrapped with the stored name lists in declared order",
}


def _augment_explanations():
    for pid, spec in PROPS.items():
        extra = []
        for r in spec["rules"]:
            line = RULE_LINES.get(r[0])
            if line and r[0] not in spec["explanation"] and line not in extra:
                extra.append("%s: %s" % (r[0], line))
        if extra:
            spec["explanation"] = spec["explanation"].rstrip() + " Also run: " + "; ".join(extra) + "."




def make_eval(F):
    # the two weight-multiplication operators stay symbolic (W·M); their bodies are
    # checked separately by R-ROW-SCALING
    return Eval(F, opaque=[k for k in F.bodies if " as std::ops::Mul<" in k])


def _dof_guard(F, ev, R, c, **kw):
    rules_stats.rule_dof_guard(F, ev, R, c, checked=not c.startswith("release"), **kw)


def _panic_sites(F, ev, R, c, **kw):
    import rules_panic
    return rules_panic.rule_panic_sites(F, ev, R, c, **kw)


def _fit_map(F, ev, R, c, **kw):
    import rules_stats2
    return rules_stats2.rule_fit_map(F, ev, R, c, **kw)


def _model_value_setters(F, ev, R, c, **kw):
    """the part of R-TYPESTATE that says what the builder's value setters store (initial parameters, independent
    variable): reported under its own rule name, so that typestate-table violations do not alarm other properties"""
    from core import Report
    tmp = Report(R.prop if hasattr(R, "prop") else "-")
    rmb.rule_typestate(F, ev, tmp, c)
    n = 0
    for i in tmp.instances:
        if i["inst"].endswith(":stores-the-given-value") or i["inst"] in ("anchor-missing", "engine"):
            R.add("R-MODEL-VALUE-SETTERS", c, i["fn"], i["inst"], i["ok"], i["msg"], None)
            R.instances[-1]["loc"] = i["loc"]
            n += 1
    R.floor("R-MODEL-VALUE-SETTERS", c, 2, "initial_parameters, independent_variable")


def _chi2(F, ev, R, c, **kw):
    import rules_stats2
    return rules_stats2.rule_chi2(F, ev, R, c, **kw)


PROPS = {}

PROPS["C09"] = {
    "configs": BOTH,
    "rules": [
        ("R-CLONE-IDENTITY", rp2.rule_clone_identity, {"group": ("problem",)}),
        # no other way to change the model or the cache than set_params (a `&mut` accessor to the model would let a caller apply
        # parameters without the cache being emptied or recomputed: stale data)
        ("R-WHO-WRITES", rp2.rule_who_writes, {}),
        # builder-made models honour the shape contract the rest relies on: a basis function or derivative whose output has the
        # wrong length (too short OR too long) is reported as an error, never copied into a column (where nalgebra would panic)
        ("R-CHECKED-CALLS", rm.rule_checked_calls, {"configs": ("default",)}),
        ("R-ERR-DISCIPLINE", rules_err.rule_err_discipline, {}),
        ("R-JAC-ABSENT", rules_err.rule_jac_absent, {}),
        ("R-STATS-ERR-MAP", rules_stats.rule_stats_err_map, {}),
        ("R-FIT-MAP", _fit_map, {}),
        ("R-LM-CONTRACT", rules_lm.rule_lm_contract, {"configs": ("default",)}),
        # "never values computed for earlier parameters": no update reads or keeps the previous cache (a "parameters unchanged"
        # shortcut compares with ==, and 0.0 == -0.0)
        ("R-NO-HISTORY", rp2.rule_no_history, {}),
        # "no failure at any call index causes a panic": also not a debug assertion about the state after the minimisation
        ("R-PANIC-SITES", rpn.rule_panic_sites, {}),
    ],
    "explanation": "Error discipline decided on the type-checked MIR of both feature configurations: every call site of a "
                   "Result-returning SeparableNonlinearModel method is propagated with ?, converted with .ok() into an Option whose "
                   "None reaches the absent outcome, or branched on with the failure edge leading only to an emptied cache; "
                   "jacobian() returns Some only through the Ok edge of the collected column results; fit_with_statistics maps every failure to Err(FitResult).",
    "not_decided": ["absence of panics beyond C08's inventory", "content of the state carried by Err"],
}

PROPS["C12"] = {
    "configs": BOTH,
    "thorough_configs": ("release",),
    "rules": [
        ("R-STATS-SEALED", rs2.rule_stats_sealed, {}),
        ("R-CLONE-IDENTITY", rp2.rule_clone_identity, {"group": ('stats', 'problem', 'weights')}),
        ("R-DOF-GUARD", _dof_guard, {}),
        ("R-STATS-ERR-MAP", rules_stats.rule_stats_err_map, {}),
        # "... or the model errs while the statistics are computed ... returns Err, without panicking"
        ("R-ERR-DISCIPLINE", rules_err.rule_err_discipline, {"scope": "statistics"}),
        ("R-PANIC-SITES", _panic_sites, {"scope": "statistics"}),
        ("R-CHI2", _chi2, {}),
        # "the reported weighted residuals equal the final residuals of the fit": the statistics' inputs are the roles of the
        # fitted problem, and that problem's cached residuals have the same form Y_w − W·Φ·c with its cached coefficients
        ("R-STATS-ARGS", rs2.rule_stats_args, {}),
        ("R-RESID-TERM", rp.rule_resid_term, {}),
        # "if the fit failed … returns the fit result as Err": fit_with_statistics may rely on `self.fit(problem)?`, whose own
        # Ok ⇔ successful mapping is this rule
        ("R-FIT-MAP", _fit_map, {}),
        # "without panicking" also when N <= M: the matrix operations of the fit and of the statistics conform for every shape
        # (a workspace sized for N >= M would make nalgebra panic before the degrees-of-freedom guard is reached)
        ("R-SHAPES", shapes.rule_shapes, {"parts": ("set_params", "jacobian", "statistics")}),
    ],
    "explanation": "Guard-before-subtraction and decision-table rules on FitStatistics' constructor and fit_with_statistics: the "
                   "degrees-of-freedom role is N-(M+P) of the model counts, every overflow-checked subtraction of these operands is "
                   "dominated by the edge N > M+P, Err(Underdetermined) is produced only under N <= M+P, Ok requires a successful "
                   "report, present coefficients and Ok statistics (release profile analysed in the thorough tier); the matrix operations of the fit and of the statistics conform in shape for every N, M (incl. workspaces of in-place kernels), so no nalgebra shape panic pre-empts the Err.",
    "not_decided": ["numerical values of the statistics"],
}

PROPS["C08"] = {
    "configs": BOTH,
    "rules": [
        # builder-made models honour the shape contract the rest relies on: a basis function or derivative whose output has the
        # wrong length (too short OR too long) is reported as an error, never copied into a column (where nalgebra would panic)
        ("R-CHECKED-CALLS", rm.rule_checked_calls, {"configs": ("default",)}),
        ("R-SVD-FINITE", rules_svd.rule_svd_finite, {}),
    ],
    "explanation": "Every SVD constructor call in local code receives a matrix that was checked all-finite after its last arithmetic "
                   "(qualifier dataflow over presence conditions), both LeastSquaresProblem impls.",
    "not_decided": ["termination/panic-freedom inside nalgebra and levenberg-marquardt on finite input"],
}

PROPS["C08"]["rules"] += [
    ("R-PANIC-SITES", rpn.rule_panic_sites, {}),
    ("R-LOOPS-BOUNDED", rpn.rule_loops_bounded, {}),
    ("R-ERR-DISCIPLINE", rules_err.rule_err_discipline, {}),
    ("R-SHAPES", shapes.rule_shapes, {}),
    ("R-PROBLEM-BUILD-TABLE", rp2.rule_problem_build_table, {}),
    ("R-LM-CONTRACT", rules_lm.rule_lm_contract, {"configs": ("default",)}),
]
PROPS["C08"]["explanation"] = ("Three clauses on the no-panic cone (local call graph from build/set_params/residuals/jacobian/fit/fit_with_statistics/statistics accessors/"
    "SeparableModel's trait impl and the wrapped user callables): (1) every SVD constructor call receives a matrix checked all-finite after its last arithmetic (qualifier dataflow over presence conditions); "
    "(2) every explicit panic call, unwrap/expect, checked Sub/Neg/Shl/Shr/Div/Rem, bounds check and Index call is dominated by a guard establishing its condition (also a guard inside a helper that only returns when it holds), discharged in every calling context by an in-bounds / refuted-assert proof over canonical indices (discharge.py: extents, dominating asserts along the call chain, the square-covariance invariant), or is an entry of the reviewed table (multiplicity-limited, one reason each, addressed by function, by stable ancestors of a private helper, or by structural role); "
    "(3) every natural loop is a for-loop over a finite std/nalgebra iterator, every iterator pipeline driven to completion has a finite source, and there is no recursion on the cone; model errors are never unwrapped (shared with C09).")
PROPS["C08"]["not_decided"] = ["panics inside nalgebra on dimension mismatch (excluded by the shape rules given a model honouring the shape contract)",
    "termination of levenberg-marquardt and of nalgebra's SVD on finite input", "behaviour on subnormals/extremes"]

PROPS["C01"] = {
    "configs": BOTH,
    "rules": [
        # the observations are stored exactly as supplied (the single-column setter reshapes N×1 in order)
        ("R-OBS-RESHAPE", rp2.rule_obs_reshape, {}),
        # "for the current α" / "at every α": every update replaces the cache on every path (no value computed for earlier parameters survives)
        ("R-NO-HISTORY", rp2.rule_no_history, {}),
        ("R-COEF-SOLVE", rp.rule_coef_solve, {}),
        ("R-DATA-WEIGHT-ONCE", rp2.rule_data_weight_once, {}),
        ("R-ROW-SCALING", rp2.rule_row_scaling, {}),
        ("R-SIBLING", rp2.rule_sibling, {"configs": ("parallel",)}),
        ("R-NALGEBRA-SOLVE", rules_lm.rule_nalgebra_solve, {"configs": ("default",)}),
        ("R-SETTER-FRAME", rp2.rule_setter_frame, {}),
        ("R-CTOR-SIBLINGS", rp2.rule_ctor_siblings, {}),
        ("R-WEIGHTS-CTOR", rp2.rule_weights_ctor, {}),
    ],
    "explanation": "Provenance of the coefficient solve decided on the term reconstructed from MIR for both LeastSquaresProblem impls: "
                   "cached coefficients = SVD::solve(svd(W*Model::eval(model after Model::set_params), true, true), weighted data role, epsilon role by pure copy); "
                   "build() weights the observations exactly once with the same weights it stores, epsilon = |given| or machine epsilon; `&Weights*M` is the identity for Unit and "
                   "per-column component_mul_assign(diagonal) for Diagonal. The weights and threshold a caller configured reach build(): every builder setter "
                   "replaces exactly its own field and the constructors agree (frame rules).",
    "not_decided": ["that nalgebra's SVD/solve returns the minimum-norm minimiser", "finiteness of values", "numerical linearity in y"],
}
PROPS["C02"] = {
    "configs": BOTH,
    "rules": [
        ("R-NO-SHADOW", rp2.rule_no_shadow, {}),
        # "in the shape of the observations": which accessors a problem offers is decided by its right-hand-side flag, which must
        # survive the conversions and the fit result
        ("R-FLAVOUR-FLAGS", rp2.rule_flavour_flags, {}),
        # the observations are stored exactly as supplied (the single-column setter reshapes N×1 in order)
        ("R-OBS-RESHAPE", rp2.rule_obs_reshape, {}),
        ("R-CLONE-IDENTITY", rp2.rule_clone_identity, {"group": ('problem',)}),
        ("R-RESID-TERM", rp.rule_resid_term, {}),
        # "for the α currently in effect", over every sequence of updates: each update replaces the cache on every path
        ("R-NO-HISTORY", rp2.rule_no_history, {}),
        ("R-PURE-PROJECTION", rp.rule_pure_projection, {}),
        ("R-VEC-COLMAJOR", rp.rule_vec_colmajor, {}),
        ("R-BESTFIT", rp.rule_bestfit, {}),
        ("R-WHO-WRITES", rp2.rule_who_writes, {}),
        ("R-DATA-WEIGHT-ONCE", rp2.rule_data_weight_once, {}),
        ("R-COEF-SOLVE", rp.rule_coef_solve, {}),
        ("R-WEIGHTS-CTOR", rp2.rule_weights_ctor, {}),
    ],
    "explanation": "One-state rules: cached residuals = Y_w - (W*Phi)*C built from the same W*Phi and C term nodes that feed the SVD and the coefficient role; "
                   "residuals() is the column-major flattening of that matrix; accessors are pure projections of their roles; best_fit = eval(model)*C; "
                   "who-may-write table over all bodies (fields private, cache replaced only wholesale in set_params, model borrowed mutably only for Model::set_params); "
                   "eval follows Model::set_params on every path that stores a cache.",
    "not_decided": ["numerical equality for models whose eval is not pure (trait contract)"],
}
PROPS["C03"] = {
    "configs": BOTH,
    "rules": [
        # "for the current α" / "at every α": every update replaces the cache on every path (no value computed for earlier parameters survives)
        ("R-NO-HISTORY", rp2.rule_no_history, {}),
        ("R-KAUFMAN-COL", rp2.rule_kaufman_col, {}),
        # the C(α) and U the column formula uses are the least-squares coefficients and the left factor of an ACCURATE SVD of W·Φ
        ("R-COEF-SOLVE", rp.rule_coef_solve, {}),
        ("R-JAC-ABSENT", rules_err.rule_jac_absent, {}),
        ("R-VEC-COLMAJOR", rp.rule_vec_colmajor, {}),
        ("R-SHAPES", shapes.rule_shapes, {"parts": ("set_params", "jacobian")}),
        # W in the Kaufman column is the row-scaling operator: every operator impl for the weights must be that scaling
        ("R-ROW-SCALING", rp2.rule_row_scaling, {}),
    ],
    "explanation": "Algebraic normal form of the value written to Jacobian column k equals +U*U^T*X - X with X = W*eval_partial_deriv(model,k)*C, U the cached left singular vectors, "
                   "k the enumerate index of the column; allocation (output_len*ncols(Y_w)) x parameter_count; same flattening as the residuals; Some(J) only through the Ok edge of the collected column results.",
    "not_decided": ["that U*U^T is the projector onto range(W*Phi) (full-rank hypothesis, nalgebra)", "numerical exactness of the gradient"],
}
PROPS["C04"] = {
    "configs": BOTH,
    "rules": [
        ("R-CLONE-IDENTITY", rp2.rule_clone_identity, {"group": ("problem",)}),
        # "residuals = W(Y − Φ(α̂)Ĉ)" for the weights the caller supplied: they are stored unchanged
        ("R-WEIGHTS-CTOR", rp2.rule_weights_ctor, {}),
        # "residuals = W(Y − Φ(α̂)Ĉ)": the stored data are W·Y, every column
        ("R-DATA-WEIGHT-ONCE", rp2.rule_data_weight_once, {}),
        ("R-FIT-MAP", rs2.rule_fit_map, {}),
        ("R-INTO-IDENTITY", rp2.rule_into_identity, {}),
        ("R-NO-HISTORY", rp2.rule_no_history, {}),
        # coherence of the final state (C-hat optimal for alpha-hat, residuals = W(Y - Phi C)) is the
        # per-update coherence of C01/C02, in both flavours
        ("R-COEF-SOLVE", rp.rule_coef_solve, {}),
        ("R-RESID-TERM", rp.rule_resid_term, {}),
        ("R-PURE-PROJECTION", rp.rule_pure_projection, {}),
        ("R-SIBLING", rp2.rule_sibling, {"configs": ("parallel",)}),
        ("R-LM-CONTRACT", rules_lm.rule_lm_contract, {"configs": ("default",)}),
        ("R-WHO-WRITES", rp2.rule_who_writes, {}),
        ("R-INITIAL-SET-PARAMS", rp2.rule_initial_set_params, {}),
    ],
    "explanation": "fit(): minimize is called on the caller-configured solver with the caller's problem; Ok and Err carry the same FitResult built from the optimizer's final problem "
                   "(all five roles moved unchanged) and report; Ok is reachable only on the successful edge of TerminationReason::was_successful and Err only on the other; "
                   "every path through set_params replaces the whole cache, so the optimizer's last update leaves a coherent state.",
    "not_decided": ["objective never larger than at the start, evaluation budget, accepted-point re-application: behaviour of levenberg-marquardt 0.14 (trusted)"],
}
PROPS["C06"] = {
    "configs": BOTH,
    "rules": [
        ("R-CLONE-IDENTITY", rp2.rule_clone_identity, {"group": ('weights', 'problem', 'builder')}),
        ("R-WEIGHT-SITES", rp2.rule_weight_sites, {}),
        ("R-ROW-SCALING", rp2.rule_row_scaling, {}),
        ("R-DATA-WEIGHT-ONCE", rp2.rule_data_weight_once, {}),
        # a weighted problem exists exactly when the row-scaled one does: one weight per ROW is accepted, for any number of columns
        ("R-PROBLEM-BUILD-TABLE", rp2.rule_problem_build_table, {}),
        ("R-CTOR-SIBLINGS", rp2.rule_ctor_siblings, {}),
        ("R-SETTER-FRAME", rp2.rule_setter_frame, {}),
        ("R-KAUFMAN-COL", rp2.rule_kaufman_col, {}),
        ("R-COEF-SOLVE", rp.rule_coef_solve, {}),
        ("R-RESID-TERM", rp.rule_resid_term, {}),
        ("R-WEIGHT-USES", rp2.rule_weight_uses, {}),
        ("R-WEIGHTS-CTOR", rp2.rule_weights_ctor, {}),
    ],
    "explanation": "Every multiplication by weights in the crate uses the single weights role (problem / builder / statistics argument) and is applied to an unweighted quantity exactly once "
                   "(Y at build, Phi at every update, each D_k in the Jacobian, J and Phi*c in the statistics); default weights are Unit; Unit is the identity; Diagonal is elementwise row scaling. "
                   "Who may read the weights: in the problem, its builder and the statistics the weights value is only the left operand of the row scaling, asked for its size, copied, or handed to another role's entry — "
                   "nothing else (e.g. a count of non-zero weights) is computed from it, so the weights enter every result through the row scaling and nowhere else.",
    "not_decided": ["equivalence with the row-scaled problem along a whole fit (numerics)", "zero/negative weights beyond 'pure elementwise product'"],
}
PROPS["C07"] = {
    "configs": BOTH,
    "rules": [
        # "for the current α" / "at every α": every update replaces the cache on every path (no value computed for earlier parameters survives)
        ("R-NO-HISTORY", rp2.rule_no_history, {}),
        ("R-NO-CONST-PARAM-USE", rp2.rule_no_const_param_use, {}),
        ("R-OBS-RESHAPE", rp2.rule_obs_reshape, {}),
        # every column of a weighted multi-column problem is the single-column problem: the data are W·Y with the row
        # scaling applied to EVERY column (a flat zip of the matrix with the N weights would stop after column 0)
        ("R-DATA-WEIGHT-ONCE", rp2.rule_data_weight_once, {}),
        ("R-ROW-SCALING", rp2.rule_row_scaling, {}),
        # … and it can be built exactly when its single-column problems can: one weight per ROW, whatever the number of columns
        ("R-PROBLEM-BUILD-TABLE", rp2.rule_problem_build_table, {}),
        ("R-VEC-COLMAJOR", rp.rule_vec_colmajor, {}),
        ("R-KAUFMAN-COL", rp2.rule_kaufman_col, {}),
        ("R-RESID-TERM", rp.rule_resid_term, {}),
        ("R-PURE-PROJECTION", rp.rule_pure_projection, {}),
        # the single- and multi-rhs builder paths are siblings: same frame behaviour, same empty builder
        ("R-SETTER-FRAME", rp2.rule_setter_frame, {}),
        ("R-CTOR-SIBLINGS", rp2.rule_ctor_siblings, {}),
        ("R-COEF-SOLVE", rp.rule_coef_solve, {}),
        ("R-SHAPES", shapes.rule_shapes, {"parts": ("set_params", "jacobian", "best_fit")}),
        # a multi-column problem stays labelled as one through every conversion and inside the fit result
        ("R-FLAVOUR-FLAGS", rp2.rule_flavour_flags, {}),
    ],
    "explanation": "Single- and multi-right-hand-side problems share one code path (no body uses the const generics MRHS/PAR as a value); single-rhs observations are only reshaped to N x 1; "
                   "coefficients, residuals and Jacobian columns are products with the data/coefficient matrix on the right (columns never mixed) and residuals and every Jacobian column use the same column-major flattening, so block s belongs to column s.",
    "not_decided": ["permutation invariance of the fitted alpha up to optimizer accuracy", "column-wise behaviour of nalgebra's solve/products (signature table)"],
}
PROPS["C10"] = {
    "configs": BOTH,
    "rules": [
        ("R-NO-SHADOW", rp2.rule_no_shadow, {}),
        ("R-CLONE-IDENTITY", rp2.rule_clone_identity, {"group": ('problem',)}),
        ("R-NO-HISTORY", rp2.rule_no_history, {}),
        ("R-WHO-WRITES", rp2.rule_who_writes, {}),
        ("R-DEF-INIT", rp2.rule_def_init, {}),
        ("R-JAC-ABSENT", rules_err.rule_jac_absent, {}),
        # the crate's own model is part of the state: it has no hidden state, and a refused parameter vector is not stored
        # (otherwise the next update is judged against it: the reported state depends on the failed call before)
        ("R-MODEL-SEALED", rm.rule_model_sealed, {}),
        ("R-ERR-STATE-PRESERVING", rm.rule_err_state_preserving, {}),
    ],
    "explanation": "Cache written only as a whole value on every path through set_params, built from terms of the same invocation with no read of the previous cache; no interior mutability in state types; "
                   "each uninitialised result matrix (exactly the reviewed unsafe sites, or private helpers reached only from them) is proven fully overwritten before any success return: a full-column write col(A,k) with k the counter of an iteration whose extent covers ncols(A), executed on every non-failing path of every iteration (through helpers), a lazily mapped closure driven to completion, success only after exhaustion — decided on canonical column writes (tab.py) of the merged body (inline.py).",
    "not_decided": ["value equality with a freshly built problem (follows from the decided clauses plus purity of the model - trait contract)"],
}
PROPS["C11"] = {
    "configs": ("parallel",),
    "rules": [
        ("R-NO-SHADOW", rp2.rule_no_shadow, {}),
        # conversions between the flavours of the builder keep every role (a `parallel()` that forgets the threshold makes the
        # two flavours compute different things)
        ("R-SETTER-FRAME", rp2.rule_setter_frame, {}),
        ("R-SIBLING", rp2.rule_sibling, {}),
        ("R-PAR-PURE", rp2.rule_par_pure, {}),
        ("R-INTO-IDENTITY", rp2.rule_into_identity, {}),
        ("R-CTOR-SIBLINGS", rp2.rule_ctor_siblings, {}),
        ("R-NO-CONST-PARAM-USE", rp2.rule_no_const_param_use, {}),
    ],
    "explanation": "Sibling agreement of the parallel LeastSquaresProblem impl with the sequential one (equal canonical sink terms for set_params/params/residuals/jacobian and equal per-column effect sequences modulo the rayon<->std iterator mapping); "
                   "rayon is used only as par_column_iter_mut().enumerate().map(c).collect() with a closure capturing by shared reference, no interior mutability/sync/IO, unit payload (no schedule-dependent reduction); into_sequential moves all roles unchanged; parallel constructors equal the sequential ones.",
    "not_decided": ["bit-identical behaviour of nalgebra/rayon internals (trusted)", "performance"],
}
PROPS["C13"] = {
    "configs": BOTH,
    "rules": [
        ("R-STATS-SEALED", rs2.rule_stats_sealed, {}),
        # H = W·J with W the row scaling by the given weights (exactly M for Unit, exactly the diagonal product for Diagonal)
        ("R-ROW-SCALING", rp2.rule_row_scaling, {}),
        ("R-CLONE-IDENTITY", rp2.rule_clone_identity, {"group": ('stats', 'problem', 'weights')}),
        ("R-MODEL-JAC", rs2.rule_model_jac, {}),
        ("R-COVARIANCE", rs2.rule_covariance, {}),
        # "σ² is the reduced χ²": ‖r_w‖² over the degrees of freedom N−(M+P) of the model counts
        ("R-CHI2", _chi2, {}),
        ("R-DOF-GUARD", _dof_guard, {}),
        ("R-STATS-ARGS", rs2.rule_stats_args, {}),
        ("R-VAR-SLICES", rs2.rule_var_slices, {}),
        ("R-CORRELATION", rs2.rule_correlation, {}),
    ],
    "explanation": "Model-function Jacobian J = [eval | (d_idx Phi * c)_idx] with the left block copied to columns idx and the right block to idx+|left|; covariance normal form chi2_red * inv((W*J)^T (W*J)), chi2_red = |r_w|^2 / (N-(M+P)) with r_w = Y_w - W*Phi*c; "
                   "variance accessors slice diag(cov) at [0,|B|) and [|B|,|B|+|P|) with the count roles initialised from the matching model counts; correlation element (i,j) = cov(i,j)/sqrt(cov(i,i)*cov(j,j)) over the full square.",
    "not_decided": ["symmetry / non-negativity / |corr| <= 1 (numerics of try_inverse)"],
}
PROPS["C14"] = {
    "configs": BOTH,
    "rules": [
        ("R-STATS-SEALED", rs2.rule_stats_sealed, {}),
        ("R-CLONE-IDENTITY", rp2.rule_clone_identity, {"group": ('stats', 'problem', 'weights')}),
        ("R-BAND", rs2.rule_band, {}),
        ("R-DOF-GUARD", _dof_guard, {}),
        ("R-MODEL-JAC", rs2.rule_model_jac, {}),
        # "at the optimum": the model and coefficients the Jacobian is built from are those of the fitted problem
        ("R-STATS-ARGS", rs2.rule_stats_args, {}),
        # σ_i² = j_iᵀ·Cov·j_i: the band is only as good as the covariance it is computed from
        ("R-COVARIANCE", rs2.rule_covariance, {}),
    ],
    "explanation": "confidence_band_radius continues past its assertion only if p is finite, > 0 and < 1 (else the documented panic); quantile level is the affine form (p+1)/2; degrees of freedom handed to the Student-t quantile are the stored N-(M+P) by pure conversion; "
                   "radius_i = t * sigma_i in lock-step over the samples; sigma_i = sqrt(j_i^T Cov j_i) over the rows of the unweighted model-function Jacobian.",
    "not_decided": ["monotonicity in p, finiteness/non-negativity of entries, correctness of distrs' quantile"],
}
PROPS["C15"] = {
    "configs": ("default",),
    "rules": [
        ("R-NAME-CONVERSION", rmb.rule_name_conversion, {}),
        ("R-TYPESTATE", rmb.rule_typestate, {}),
        ("R-FN-RESULT-STICKY", rmb.rule_fn_result_sticky, {}),
        ("R-BUILD-GUARDS", rmb.rule_build_guards, {}),
        # "exactly one partial derivative for each of them and for no other name": the key a derivative is stored under is the
        # model index of the NAMED parameter, which must be one the function lists
        ("R-DERIV-KEY", rm.rule_deriv_key, {}),
        # "otherwise it returns an error": no builder method panics on a defective specification
        ("R-PANIC-SITES", _panic_sites, {"scope": "model-builder"}),
    ],
    "explanation": "Typestate transition table of SeparableModelBuilder, obtained by evaluating every public method once per state with `self` a symbolic aggregate of that state (helpers, closures and self-delegation inlined, matches on known variants partially evaluated), equals the reviewed table: errors are sticky with payload unchanged, "
                   "derivatives attach only directly after a function, every other call first finalises the pending function; the function builder's recorded result is only ever overwritten with Err; "
                   "each ModelBuildError is constructed only under its defining predicate and the model is built only after all validations passed; names are stored verbatim (no trim/slice/case change between the caller's AsRef<str> view and the stored String); a derivative is stored under the model index of the named, listed parameter; no unguarded panic-capable site in the two builders.",
    "not_decided": ["the full iff over all call sequences (language membership over run-time data)", "which of several simultaneous defects is reported"],
}
PROPS["C18"] = {
    "configs": BOTH,
    "rules": [
        ("R-CLONE-IDENTITY", rp2.rule_clone_identity, {"group": ('builder', 'weights')}),
        ("R-PROBLEM-BUILD-TABLE", rp2.rule_problem_build_table, {}),
        ("R-INITIAL-SET-PARAMS", rp2.rule_initial_set_params, {}),
        ("R-SETTER-FRAME", rp2.rule_setter_frame, {}),
        ("R-CTOR-SIBLINGS", rp2.rule_ctor_siblings, {}),
        ("R-DATA-WEIGHT-ONCE", rp2.rule_data_weight_once, {}),
        ("R-OBS-RESHAPE", rp2.rule_obs_reshape, {}),
        ("R-WEIGHTS-CTOR", rp2.rule_weights_ctor, {}),
        # "USES the absolute value of a supplied singular-value threshold": the solve takes the stored field as its epsilon, unmodified
        ("R-COEF-SOLVE", rp.rule_coef_solve, {}),
    ],
    "explanation": "build() decision table by edge dominance: each LevMarBuilderError only under its own condition and Ok only after data present, non-zero lengths, equal row counts and fitting weights; "
                   "Ok(problem) passes LeastSquaresProblem::set_params(&mut problem, &model.params()) after the struct is built with an empty cache; each setter writes exactly its own field (frame rule), so call order only matters through last-write-wins; all constructors build the same empty builder; epsilon stored as |eps| and handed to the solve unmodified.",
    "not_decided": ["'already exposes residuals when the model evaluates there' relies on C01/C02/C09"],
}

PROPS["C16"] = {
    "configs": ("default",),
    "rules": [
        ("R-NAME-CONVERSION", rmb.rule_name_conversion, {}),
        ("R-MODEL-SEALED", rm.rule_model_sealed, {}),
        # "taken from the current parameter vector", "parameters set on the model are returned unchanged": the builder's value
        # setters store what they are given (a later call overrides an earlier one)
        ("R-MODEL-VALUE-SETTERS", _model_value_setters, {}),
        ("R-ARITY-SLOTS", rm.rule_arity_slots, {}),
        ("R-NAME-ROUTING", rm.rule_name_routing, {}),
        ("R-DERIV-KEY", rm.rule_deriv_key, {}),
        ("R-COLUMN-ORDER", rm.rule_column_order, {}),
        ("R-DECLARED-ORDER", rm.rule_declared_order, {}),
        # "taken from the current parameter vector": the stored vector always has the model's parameter count (a refused
        # vector is not stored), otherwise the index mapping of the routing would not address it
        ("R-ERR-STATE-PRESERVING", rm.rule_err_state_preserving, {}),
    ],
    "explanation": "Index typing of the routing: in each of the 10 arity dispatch impls argument slot i receives clone(params[i]) with ARGUMENT_COUNT = N under the length guard; the index mapping is the position of the f-th function parameter in the model list in declaration order and the wrapper pushes params[mapping[f]] in that order (same wrapper for functions and derivatives); "
                   "the derivative map key is the enumerate index over the model parameter list (not taken after a filter) and eval_partial_deriv looks up the requested index in a zero-initialised matrix; column j of eval / eval_partial_deriv is written from the j-th function (resp. its derivative stored under the requested index) evaluated on x and the current parameters (canonical column writes: zip, index loop, try_for_each and shared helpers coincide) and the list is only ever pushed to; set_params stores the vector unchanged; the function builder stores exactly the two name lists the function was wrapped with, wraps every derivative with them and never reorders them (R-DECLARED-ORDER).",
    "not_decided": ["that user-supplied derivative callables are the derivatives"],
}
PROPS["C17"] = {
    "configs": ("default",),
    "rules": [
        ("R-MODEL-SEALED", rm.rule_model_sealed, {}),
        ("R-NO-SHADOW", rp2.rule_no_shadow, {}),
        ("R-CHECKED-CALLS", rm.rule_checked_calls, {}),
        ("R-ERR-STATE-PRESERVING", rm.rule_err_state_preserving, {}),
        ("R-MODEL-GUARDS", rm.rule_model_guards, {}),
        ("R-COLUMN-ORDER", rm.rule_column_order, {}),
        # "never a panic": no unguarded panic-capable site in the model's methods and the wrapped callables
        ("R-PANIC-SITES", _panic_sites, {"scope": "model"}),
    ],
    "explanation": "The only call site of a stored user callable is the checking helper, which returns Ok(v) only under len(v) == len(x); its callers propagate with ?; in &mut self methods of SeparableModel no field write lies on a path to Err and the parameter write is dominated by the length check; "
                   "allocation in eval/eval_partial_deriv is dominated by the parameter-count (and index) guards; Err(DerivativeIndexOutOfBounds) only under index >= number of parameters; results are allocated |x| x |functions| and no Ok return hands out a matrix that was not filled from the checked evaluations (unless there are no functions); a successful set_params has stored the given vector on every path; no unguarded panic-capable site in the model's methods and the wrapped callables.",
    "not_decided": [],
}


_augment_explanations()
