"""Loading of E1 fact files and the CFG layer (E2): normal-flow CFG, dominators,
post-dominators, reachability, edge dominance, natural loops, pretty printer.

Nothing here runs varpro; it only reads the JSON the rustc driver printed."""
import json
from collections import defaultdict


# --------------------------------------------------------------------------- #
# pretty printing helpers
# --------------------------------------------------------------------------- #
def place_str(p):
    s = "_%d" % p["l"]
    for e in p["proj"]:
        k = e["k"]
        if k == "deref":
            s = "(*%s)" % s
        elif k == "field":
            s = "%s.%s" % (s, e["name"])
        elif k == "downcast":
            s = "(%s as %s)" % (s, e["variant"])
        elif k == "index":
            s = "%s[_%d]" % (s, e["l"])
        elif k == "cindex":
            s = "%s[%s%d]" % (s, "-" if e["from_end"] else "", e["offset"])
        else:
            s = "%s.<%s>" % (s, k)
    return s


def op_str(o):
    k = o["k"]
    if k in ("copy", "move"):
        return ("move " if k == "move" else "") + place_str(o["place"])
    if k == "const":
        if "fn" in o:
            return "fn:" + o["fn"]["path"]
        if "closure" in o:
            return "closure:" + o["closure"]
        if "param" in o:
            return "constparam:" + o["param"]
        if "val" in o:
            return "%d_%s" % (o["val"], o["ty"])
        if "fval" in o:
            return "%s_%s" % (o["fval"], o["ty"])
        if "uneval" in o:
            return "const:" + o.get("uneval_key", o["uneval"])
        return "const<%s>%s" % (o["ty"], o.get("dbg", ""))
    return "?" + json.dumps(o)


def rv_str(r):
    k = r["k"]
    if k == "use":
        return op_str(r["op"])
    if k == "ref":
        return "&%s%s" % ("mut " if r["mut"] else "", place_str(r["place"]))
    if k == "rawptr":
        return "&raw %s%s" % ("mut " if r["mut"] else "const ", place_str(r["place"]))
    if k == "bin":
        return "%s(%s, %s)" % (r["op"], op_str(r["a"]), op_str(r["b"]))
    if k == "un":
        return "%s(%s)" % (r["op"], op_str(r["a"]))
    if k == "discr":
        return "discriminant(%s)" % place_str(r["place"])
    if k == "cast":
        return "%s as %s (%s)" % (op_str(r["op"]), r["ty"], r["kind"])
    if k == "agg":
        a = r["agg"]
        ops = ", ".join(op_str(o) for o in r["ops"])
        if a == "adt":
            fs = r["fields"]
            body = ", ".join("%s: %s" % (f, op_str(o)) for f, o in zip(fs, r["ops"]))
            return "%s::%s{%s}" % (r["adt"], r["variant"], body)
        if a == "closure":
            body = ", ".join("%s: %s" % (f, op_str(o)) for f, o in zip(r.get("fields", []), r["ops"]))
            return "closure[%s]{%s}" % (r["closure"], body)
        return "%s(%s)" % (a, ops)
    return "%s:%s" % (k, r.get("dbg", ""))


def callee_name(t):
    if "fn" in t:
        f = t["fn"]
        if "trait" in f:
            return "<%s as %s>::%s" % (f.get("self_ty", "?"), f["trait"], f["name"])
        return f["path"]
    return "indirect:" + op_str(t["fnop"])


def term_str(t):
    k = t["k"]
    if k == "goto":
        return "goto bb%d" % t["t"]
    if k == "switch":
        return "switch %s [%s, otherwise: bb%d]" % (
            op_str(t["op"]),
            ", ".join("%d: bb%d" % (v, b) for v, b in t["targets"]),
            t["otherwise"],
        )
    if k == "call":
        return "%s = %s(%s) -> %s" % (
            place_str(t["dest"]),
            callee_name(t),
            ", ".join(op_str(a) for a in t["args"]),
            "bb%d" % t["t"] if t["t"] is not None else "!",
        )
    if k == "assert":
        m = t["msg"]
        extra = ""
        if m["kind"] == "Overflow":
            extra = "%s(%s,%s)" % (m["op"], op_str(m["a"]), op_str(m["b"]))
        elif m["kind"] == "BoundsCheck":
            extra = "idx %s < len %s" % (op_str(m["index"]), op_str(m["len"]))
        return "assert(%s == %s, %s %s) -> bb%d" % (op_str(t["cond"]), t["expected"], m["kind"], extra, t["t"])
    if k == "drop":
        return "drop(%s) -> bb%d" % (place_str(t["place"]), t["t"])
    return k


def loc_str(span):
    if not span:
        return "?"
    return "%s:%d" % (span["file"], span["line"])


# --------------------------------------------------------------------------- #
class Body:
    def __init__(self, j, facts):
        self.j = j
        self.facts = facts
        self.key = j["key"]
        self.kind = j["kind"]
        self.name = j.get("name")
        self.blocks = j["blocks"]
        self.locals = j["locals"]
        self.arg_count = j["arg_count"]
        self.n = len(self.blocks)
        self._succ = None
        self._pred = None
        self._dom = None
        self._pdom = None
        self._defs = None

    # ---- CFG (normal flow: cleanup blocks and unwind edges are not followed) ----
    def succ(self, b):
        if self._succ is None:
            self._build_cfg()
        return self._succ[b]

    def pred(self, b):
        if self._pred is None:
            self._build_cfg()
        return self._pred[b]

    def _build_cfg(self):
        self._succ = []
        self._pred = [[] for _ in range(self.n)]
        for i, bb in enumerate(self.blocks):
            t = bb["term"]
            k = t["k"]
            s = []
            if bb["cleanup"]:
                s = []
            elif k == "goto":
                s = [t["t"]]
            elif k == "switch":
                s = [b for _, b in t["targets"]] + [t["otherwise"]]
            elif k in ("call", "assert", "drop"):
                s = [t["t"]] if t["t"] is not None else []
            elif k in ("return", "unreachable", "resume", "terminate"):
                s = []
            else:
                s = []
            # dedupe keeping order
            seen = []
            for x in s:
                if x not in seen:
                    seen.append(x)
            self._succ.append(seen)
        for i, ss in enumerate(self._succ):
            for x in ss:
                self._pred[x].append(i)

    def reachable(self, start=0, avoid=(), avoid_edges=()):
        """blocks reachable from start without entering blocks in `avoid`
        and without taking edges in `avoid_edges`"""
        avoid = set(avoid)
        avoid_edges = set(avoid_edges)
        if start in avoid:
            return set()
        seen = {start}
        st = [start]
        while st:
            b = st.pop()
            for s in self.succ(b):
                if s in seen or s in avoid or (b, s) in avoid_edges:
                    continue
                seen.add(s)
                st.append(s)
        return seen

    def discr_switches(self):
        """[(block, stmt index of the discriminant read, place key, [(value, variant name)])] for
        switches on an enum discriminant read in the same block"""
        if getattr(self, "_dsw", None) is None:
            from terms import place_key
            out = []
            for bi in self.rpo():
                bb = self.blocks[bi]
                if bb["term"]["k"] != "switch":
                    continue
                for si in range(len(bb["stmts"]) - 1, -1, -1):
                    st = bb["stmts"][si]
                    if st["k"] == "assign" and st["rv"]["k"] == "discr":
                        op = bb["term"]["op"]
                        if op["k"] in ("copy", "move") and op["place"]["l"] == st["place"]["l"]:
                            out.append((bi, si, place_key(st["rv"]["place"]), st["rv"]["variants"]))
                        break
            self._dsw = out
        return self._dsw

    def pruned_multi(self, fixed):
        """copy of this body in which the switch of block b is replaced by `goto fixed[b]`"""
        if not fixed:
            return self
        cache = self.__dict__.setdefault("_pruned_cache", {})
        k = tuple(sorted(fixed.items()))
        if k not in cache:
            j = dict(self.j)
            blocks = list(j["blocks"])
            for b, tg in fixed.items():
                bb = dict(blocks[b])
                bb["term"] = {"k": "goto", "t": tg}
                blocks[b] = bb
            j["blocks"] = blocks
            cache[k] = Body(j, self.facts)
        return cache[k]

    def live_blocks(self):
        if getattr(self, "_live", None) is None:
            self._live = self.reachable(0)
        return self._live

    def dominators(self):
        """dom[b] = set of blocks dominating b (over blocks reachable from entry)"""
        if self._dom is not None:
            return self._dom
        live = sorted(self.live_blocks())
        allb = set(live)
        dom = {b: set(allb) for b in live}
        dom[0] = {0}
        changed = True
        order = self.rpo()
        while changed:
            changed = False
            for b in order:
                if b == 0:
                    continue
                ps = [p for p in self.pred(b) if p in allb]
                if not ps:
                    continue
                new = set.intersection(*(dom[p] for p in ps)) | {b}
                if new != dom[b]:
                    dom[b] = new
                    changed = True
        self._dom = dom
        return dom

    def rpo(self):
        seen = set()
        out = []

        def dfs(b):
            st = [(b, iter(self.succ(b)))]
            seen.add(b)
            while st:
                x, it = st[-1]
                adv = False
                for s in it:
                    if s not in seen:
                        seen.add(s)
                        st.append((s, iter(self.succ(s))))
                        adv = True
                        break
                if not adv:
                    out.append(x)
                    st.pop()

        dfs(0)
        out.reverse()
        return out

    def dominates(self, a, b):
        d = self.dominators()
        return b in d and a in d[b]

    def exits(self):
        """normal exits: return blocks"""
        return [i for i in self.live_blocks() if self.blocks[i]["term"]["k"] == "return"]

    def edge_dominates(self, edge, b):
        """every path entry->b uses edge (u,v)"""
        u, v = edge
        if b not in self.live_blocks():
            return False
        r = self.reachable(0, avoid_edges=[(u, v)])
        return b not in r

    def must_pass(self, frm, to_set, through):
        """every path from block `frm` to any block in to_set passes a block in `through`"""
        r = self.reachable(frm, avoid=set(through))
        return not (r & set(to_set))

    def back_edges(self):
        be = []
        dom = self.dominators()
        for b in self.live_blocks():
            for s in self.succ(b):
                if s in dom.get(b, ()):
                    be.append((b, s))
        return be

    def natural_loops(self):
        """header -> set of blocks"""
        loops = {}
        for (t, h) in self.back_edges():
            body = {h, t}
            st = [t]
            while st:
                x = st.pop()
                if x == h:
                    continue
                for p in self.pred(x):
                    if p not in body and p in self.live_blocks():
                        body.add(p)
                        st.append(p)
            loops.setdefault(h, set()).update(body)
        return loops

    # ---- statements / terminators iteration ----
    def calls(self, live_only=True):
        live = self.live_blocks() if live_only else range(self.n)
        for i in sorted(live):
            t = self.blocks[i]["term"]
            if t["k"] == "call":
                yield i, t

    def stmts(self, live_only=True):
        live = self.live_blocks() if live_only else range(self.n)
        for i in sorted(live):
            for si, s in enumerate(self.blocks[i]["stmts"]):
                yield i, si, s

    def local_ty(self, l):
        return self.locals[l]["ty"]

    def local_adt(self, l):
        return self.locals[l].get("adt")

    def dump(self, cleanup=False):
        out = ["fn %s  [%s] args=%d" % (self.key, self.kind, self.arg_count)]
        for i, l in enumerate(self.locals):
            out.append("  let _%d: %s%s" % (i, l["ty"], "  // " + l["name"] if "name" in l else ""))
        for i, bb in enumerate(self.blocks):
            if bb["cleanup"] and not cleanup:
                continue
            out.append(" bb%d%s:" % (i, " (cleanup)" if bb["cleanup"] else ""))
            for s in bb["stmts"]:
                if s["k"] == "assign":
                    out.append("    %s = %s   // %s" % (place_str(s["place"]), rv_str(s["rv"]), loc_str(s["span"])))
                else:
                    out.append("    %s %s" % (s["k"], s.get("dbg", "")))
            out.append("    %s   // %s" % (term_str(bb["term"]), loc_str(bb["term"].get("span"))))
        return "\n".join(out)


# definition paths the rules name (public type and trait names of the crate; the module they are defined in is not part
# of the API when it is re-exported): a type or trait of the same NAME found at another path is presented under the
# canonical one
CANONICAL_PATHS = (
    "model::SeparableNonlinearModel", "basis_function::BasisFunction",
    "solvers::levmar::LevMarProblem", "solvers::levmar::builder::LevMarProblemBuilder", "solvers::levmar::LevMarSolver",
    "solvers::levmar::FitResult", "solvers::levmar::builder::LevMarBuilderError", "statistics::FitStatistics", "statistics::Error",
    "model::SeparableModel", "model::builder::SeparableModelBuilder", "model::builder::UnfinishedModel",
    "model::builder::modelfunction_builder::ModelBasisFunctionBuilder", "model::builder::error::ModelBuildError",
    "model::model_basis_function::ModelBasisFunction", "model::errors::ModelError", "util::weights::Weights", "util::DiagMatrix",
)


def canonicalise_containers(text, j):
    """Standard containers that differ only in representation are presented as one: an ordered map is a map
    (`BTreeMap` -> `HashMap`: the rules use get / insert / contains_key / keys / len, never the iteration order of a
    HashMap), a shared or boxed slice of strings is a list of strings (`Arc<[String]>`, `Rc<[String]>`, `Box<[String]>` ->
    `Vec<String>`), and a `Box` around a LOCAL struct or enum is that value (`Option<Box<Cached>>` -> `Option<Cached>`;
    boxes of trait objects — the stored callables — stay)."""
    import re
    if j.get("crate") != "varpro":
        return text
    text = text.replace("std::collections::BTreeMap", "std::collections::HashMap").replace("std::collections::btree_map::", "std::collections::hash_map::")
    S = "std::string::String"
    for w in ("std::sync::Arc<[%s]>" % S, "std::rc::Rc<[%s]>" % S, "std::boxed::Box<[%s]>" % S,
              "std::sync::Arc<[%s], std::alloc::Global>" % S, "std::boxed::Box<[%s], std::alloc::Global>" % S):
        text = text.replace(w, "std::vec::Vec<%s>" % S)
    local = sorted((a["path"] for a in j.get("adts", [])), key=len, reverse=True)
    if "std::boxed::Box<" in text and local:
        out, i = [], 0
        key = "std::boxed::Box<"
        while True:
            k = text.find(key, i)
            if k < 0:
                out.append(text[i:])
                break
            out.append(text[i:k])
            # balanced argument list
            depth, m = 0, k + len(key) - 1
            while m < len(text):
                if text[m] == "<":
                    depth += 1
                elif text[m] == ">" and text[m - 1] != "-":
                    depth -= 1
                    if depth == 0:
                        break
                m += 1
            args = _split_top(text[k + len(key):m])
            first = args[0] if args else ""
            sized_value = first and not first.startswith(("dyn ", "(dyn", "[", "str")) and "dyn " not in first.split("<", 1)[0]
            if any(first == p_ or first.startswith(p_ + "<") for p_ in local) or (sized_value and re.fullmatch(r"[A-Z][A-Za-z0-9_]*", first)):
                # a local struct / enum, or a type parameter (`enum Cache<T> { Empty, Valid(Box<T>) }`)
                out.append(first)
            else:
                out.append(text[k:m + 1])
            i = m + 1
        text = "".join(out)
    return text


def canonicalise_paths(text, j):
    """rename moved definitions to their canonical paths in the raw fact text; returns (text, {actual: canonical})"""
    import re
    have = set(a["path"] for a in j.get("adts", []))
    for im in j.get("impls", []):
        if im.get("trait"):
            have.add(im["trait"].split("<", 1)[0])
    for b in j.get("bodies", []):
        tr = (b.get("impl") or {}).get("trait")
        if tr:
            have.add(tr.split("<", 1)[0])
    ren = {}
    for c in CANONICAL_PATHS:
        if c in have:
            continue
        name = c.rsplit("::", 1)[-1]
        cands = [p_ for p_ in have if p_.rsplit("::", 1)[-1] == name and "::" in p_ and not p_.startswith(("std::", "core::", "alloc::", "nalgebra", "levenberg_marquardt", "rayon", "num_"))]
        if len(cands) == 1:
            ren[cands[0]] = c
    for actual, canon in sorted(ren.items(), key=lambda kv: -len(kv[0])):
        text = re.sub(r"(?<![A-Za-z0-9_:])" + re.escape(actual) + r"(?![A-Za-z0-9_])", canon, text)
    return text, ren


def _split_top(s):
    """split `a, b<c, d>, e` at top-level commas"""
    out, depth, cur = [], 0, ""
    for ch in s:
        if ch in "<([":
            depth += 1
        elif ch in ">)]":
            depth -= 1
        if ch == "," and depth == 0:
            out.append(cur.strip())
            cur = ""
        else:
            cur += ch
    if cur.strip():
        out.append(cur.strip())
    return out


def erase_newtypes(j):
    """A private single-field struct that is not one of the role types (`struct Epsilon<T>(T)`, `struct
    BasisFunctions<T>(Vec<ModelBasisFunction<T>>)`) is its field: the same memory, the same value. The facts are presented
    with such wrappers erased — the wrapping aggregate is its operand, the projection of the only field is the identity,
    `N<args>` in type strings is the field type — so that introducing or removing a newtype around a role does not change
    any term. The wrapper's own methods stay ordinary local functions (a constructor that normalises its argument is
    still seen doing so when it is inlined). Returns {newtype path: field type template}."""
    import re
    canon = set(CANONICAL_PATHS)
    nts = {}
    for a in j.get("adts", []):
        if a.get("kind") != "Struct" or a["path"] in canon or len(a.get("variants", [])) != 1:
            continue
        fs = a["variants"][0].get("fields", [])
        if len(fs) != 1 or a["path"].startswith(("std::", "core::", "alloc::")):
            continue
        nts[a["path"]] = {"field": fs[0]["name"], "ty": fs[0]["ty"], "params": None}
    if not nts:
        return {}
    # generic parameter names in declaration order, from the identity self types of the impls
    for im in j.get("impls", []):
        st = im.get("self_ty", "")
        for n_, info in nts.items():
            if info["params"] is None and (st == n_ or st.startswith(n_ + "<")) :
                info["params"] = _split_top(st[len(n_) + 1:-1]) if st.startswith(n_ + "<") else []
    for b in j.get("bodies", []):
        st = (b.get("impl") or {}).get("self_ty", "")
        for n_, info in nts.items():
            if info["params"] is None and (st == n_ or st.startswith(n_ + "<")):
                info["params"] = _split_top(st[len(n_) + 1:-1]) if st.startswith(n_ + "<") else []
    nts = {k: v for k, v in nts.items() if v["params"] is not None or "<" not in v["ty"] and v["ty"].isidentifier() is False}
    for v in nts.values():
        if v["params"] is None:
            v["params"] = []

    def subst_ty(t):
        """rewrite every `N<args>` in a type string"""
        changed = True
        guard = 0
        while changed and guard < 20:
            changed = False
            guard += 1
            for n_, info in nts.items():
                i = t.find(n_)
                while i >= 0:
                    before = t[i - 1] if i > 0 else " "
                    after_i = i + len(n_)
                    if before.isalnum() or before in "_:" or (after_i < len(t) and (t[after_i].isalnum() or t[after_i] in "_")) or t[after_i:after_i + 2] == "::":
                        i = t.find(n_, i + 1)
                        continue
                    args = []
                    end = after_i
                    if end < len(t) and t[end] == "<":
                        depth, k = 0, end
                        while k < len(t):
                            if t[k] == "<":
                                depth += 1
                            elif t[k] == ">" and (k == 0 or t[k - 1] != "-"):
                                depth -= 1
                                if depth == 0:
                                    break
                            k += 1
                        args = _split_top(t[end + 1:k])
                        end = k + 1
                    inner = info["ty"]
                    for pn, av in zip(info["params"], args):
                        inner = re.sub(r"(?<![A-Za-z0-9_:])" + re.escape(pn) + r"(?![A-Za-z0-9_])", av.replace("\\", "\\\\"), inner)
                    t = t[:i] + inner + t[end:]
                    changed = True
                    i = t.find(n_, i + len(inner))
        return t

    def fix_place(pl):
        if isinstance(pl, dict) and "proj" in pl:
            pl["proj"] = [e for e in pl["proj"] if not (e.get("k") == "field" and e.get("owner") in nts)]
            for e in pl["proj"]:
                if isinstance(e.get("ty"), str):
                    e["ty"] = subst_ty(e["ty"])

    def walk(o):
        if isinstance(o, dict):
            if "proj" in o and "l" in o:
                fix_place(o)
            for k, v in list(o.items()):
                if k in ("ty",) and isinstance(v, str):
                    o[k] = subst_ty(v)
                elif k in ("inputs", "gargs") and isinstance(v, list):
                    o[k] = [subst_ty(x) if isinstance(x, str) else x for x in v]
                elif k == "output" and isinstance(v, str):
                    o[k] = subst_ty(v)
                else:
                    walk(v)
        elif isinstance(o, list):
            for x in o:
                walk(x)
    for b in j.get("bodies", []):
        for blk in b.get("blocks", []):
            for s_ in blk.get("stmts", []):
                rv = s_.get("rv")
                if isinstance(rv, dict) and rv.get("k") == "agg" and rv.get("adt") in nts and len(rv.get("ops", [])) == 1:
                    s_["rv"] = {"k": "use", "op": rv["ops"][0]}
        walk(b)
    for a in j.get("adts", []):
        if a["path"] in nts:
            continue
        for v in a.get("variants", []):
            for f in v.get("fields", []):
                if isinstance(f.get("ty"), str):
                    f["ty"] = subst_ty(f["ty"])
                if f.get("adt") in nts:
                    f["adt"] = None
    return {k: v["ty"] for k, v in nts.items()}


def present_option_like_enums(j):
    """A private enum with exactly one unit variant and one variant that carries a single value (`enum Cache { Empty,
    Valid(Calculations) }`) is an `Option` under other names. The facts are presented with such an enum as
    `std::option::Option` — aggregates, discriminant reads, downcasts and type strings — so that every rule that knows
    "absent / present" (the Option algebra of the evaluator, the cache rules) applies unchanged. Role types (Weights:
    Unit / Diagonal) are not touched. Returns {enum path: (absent variant, present variant)}."""
    canon = set(CANONICAL_PATHS)
    es = {}
    for a in j.get("adts", []):
        if a.get("kind") != "Enum" or a["path"] in canon or len(a.get("variants", [])) != 2 or a["path"].startswith(("std::", "core::")):
            continue
        v0, v1 = a["variants"]
        unit = [v for v in (v0, v1) if not v.get("fields")]
        full = [v for v in (v0, v1) if len(v.get("fields", [])) == 1]
        if len(unit) == 1 and len(full) == 1:
            es[a["path"]] = {"none": unit[0]["name"], "some": full[0]["name"], "ty": full[0]["fields"][0]["ty"], "params": None,
                             "field": full[0]["fields"][0]["name"]}
    if not es:
        return {}
    for src in [im.get("self_ty", "") for im in j.get("impls", [])] + [(b.get("impl") or {}).get("self_ty", "") for b in j.get("bodies", [])]:
        for n_, info in es.items():
            if info["params"] is None and (src == n_ or src.startswith(n_ + "<")):
                info["params"] = _split_top(src[len(n_) + 1:-1]) if src.startswith(n_ + "<") else []
    for v in es.values():
        if v["params"] is None:
            v["params"] = []
    import re

    def subst_ty(t):
        guard = 0
        for n_, info in es.items():
            i = t.find(n_)
            while i >= 0 and guard < 50:
                guard += 1
                before = t[i - 1] if i > 0 else " "
                end = i + len(n_)
                if before.isalnum() or before in "_:" or (end < len(t) and (t[end].isalnum() or t[end] == "_")) or t[end:end + 2] == "::":
                    i = t.find(n_, i + 1)
                    continue
                args = []
                if end < len(t) and t[end] == "<":
                    depth, k = 0, end
                    while k < len(t):
                        if t[k] == "<":
                            depth += 1
                        elif t[k] == ">" and t[k - 1] != "-":
                            depth -= 1
                            if depth == 0:
                                break
                        k += 1
                    args = _split_top(t[end + 1:k])
                    end = k + 1
                inner = info["ty"]
                for pn, av in zip(info["params"], args):
                    inner = re.sub(r"(?<![A-Za-z0-9_:])" + re.escape(pn) + r"(?![A-Za-z0-9_])", lambda m_, av=av: av, inner)
                rep = "std::option::Option<" + inner + ">"
                t = t[:i] + rep + t[end:]
                i = t.find(n_, i + len(rep))
        return t

    def walk(o):
        if isinstance(o, dict):
            if o.get("k") == "agg" and o.get("adt") in es:
                info = es[o["adt"]]
                o["variant"] = "Some" if o.get("variant") == info["some"] else "None"
                o["adt"] = "std::option::Option"
                if o["variant"] == "Some":
                    o["fields"] = ["0"]
            if o.get("k") == "discr" and o.get("adt") in es:
                info = es[o["adt"]]
                o["variants"] = [[v, ("Some" if n == info["some"] else "None")] for v, n in o.get("variants", [])]
                o["adt"] = "std::option::Option"
            if "proj" in o and "l" in o:
                pr = o["proj"]
                for i_, e in enumerate(pr):
                    if e.get("k") == "field" and e.get("owner") in es:
                        info = es[e["owner"]]
                        e["owner"] = "std::option::Option"
                        e["name"] = "0"
                        if i_ > 0 and pr[i_ - 1].get("k") == "downcast":
                            pr[i_ - 1]["variant"] = "Some" if pr[i_ - 1].get("variant") == info["some"] else "None"
            for k, v in list(o.items()):
                if k == "ty" and isinstance(v, str):
                    o[k] = subst_ty(v)
                elif k in ("inputs", "gargs") and isinstance(v, list):
                    o[k] = [subst_ty(x) if isinstance(x, str) else x for x in v]
                elif k == "output" and isinstance(v, str):
                    o[k] = subst_ty(v)
                else:
                    walk(v)
        elif isinstance(o, list):
            for x in o:
                walk(x)
    for b in j.get("bodies", []):
        walk(b)
    for a in j.get("adts", []):
        if a["path"] in es:
            continue
        for v in a.get("variants", []):
            for f in v.get("fields", []):
                if isinstance(f.get("ty"), str):
                    f["ty"] = subst_ty(f["ty"])
                if f.get("adt") in es:
                    f["adt"] = "std::option::Option"
    return {k: (v["none"], v["some"]) for k, v in es.items()}


def flatten_group_structs(j):
    """A private struct that only groups fields of ONE other local struct (`struct Counts { linear, nonlinear, dof }` as
    the type of the single field `counts` of the statistics) is presented flattened into its owner: the owner has the
    fields `counts.linear`, …; an aggregate of the owner takes them from the grouped value, a projection `.counts.dof`
    is the field `counts.dof`. Role resolution by type and use then sees the same fields whether or not they are
    grouped. Returns {(owner path, field name): group path}."""
    canon = set(CANONICAL_PATHS)
    adts = {a["path"]: a for a in j.get("adts", [])}
    cands = {p_: a for p_, a in adts.items() if a.get("kind") == "Struct" and p_ not in canon and len(a.get("variants", [])) == 1
             and len(a["variants"][0].get("fields", [])) >= 2 and not p_.startswith(("std::", "core::"))}
    uses = {}
    for p_, a in adts.items():
        for v in a.get("variants", []):
            for f in v.get("fields", []):
                if f.get("adt") in cands and f["adt"] != p_:
                    uses.setdefault(f["adt"], []).append((p_, v["name"], f["name"], f["ty"]))
    groups = {}
    vgroups = {}     # (enum path, variant name) -> group: a tuple variant whose only field is a grouping struct is the struct-like variant
    for g, us in uses.items():
        if len(us) != 1:
            continue
        owner, _v, fname, fty = us[0]
        if fty.split("<", 1)[0] != g:
            continue      # Option<Group>, Vec<Group> … : not a plain grouping
        if adts[owner].get("kind") == "Enum":
            var = [v for v in adts[owner]["variants"] if v["name"] == _v][0]
            if len(var["fields"]) == 1 and fname == "0" and owner not in canon or (len(var["fields"]) == 1 and fname == "0"):
                vgroups[(owner, _v)] = g
            continue
        if adts[owner].get("kind") != "Struct":
            continue
        # the group type must not appear in signatures of functions outside its own impls (then it is an interface type)
        ok = True
        for b in j.get("bodies", []):
            st = (b.get("impl") or {}).get("self_adt") or ""
            if st == g:
                continue
            sig = " ".join(b.get("inputs", []) or []) + " " + (b.get("output") or "")
            if g in sig:
                ok = False
        if ok:
            groups[(owner, fname)] = g
    # interface check for variant groups as well
    for (owner, vn), g in list(vgroups.items()):
        for b in j.get("bodies", []):
            st = (b.get("impl") or {}).get("self_adt") or ""
            if st == g:
                continue
            sig = " ".join(b.get("inputs", []) or []) + " " + (b.get("output") or "")
            if g in sig:
                vgroups.pop((owner, vn), None)
                break
    if not groups and not vgroups:
        return {}
    gfields = {g: [f for f in adts[g]["variants"][0]["fields"]] for g in list(groups.values()) + list(vgroups.values())}
    for (owner, vn), g in vgroups.items():
        for v in adts[owner]["variants"]:
            if v["name"] == vn:
                v["fields"] = [dict(gf) for gf in gfields[g]]
    # owner ADT entries
    for (owner, fname), g in groups.items():
        for v in adts[owner]["variants"]:
            nf = []
            for f in v["fields"]:
                if f["name"] == fname:
                    for gf in gfields[g]:
                        x = dict(gf)
                        x["name"] = fname + "." + gf["name"]
                        nf.append(x)
                else:
                    nf.append(f)
            v["fields"] = nf

    def walk(o):
        if isinstance(o, dict):
            if o.get("k") == "agg" and o.get("agg") == "adt" and (o.get("adt"), o.get("variant")) in vgroups and o.get("fields") == ["0"]:
                g = vgroups[(o["adt"], o["variant"])]
                op = o["ops"][0]
                if op.get("k") in ("move", "copy") and "place" in op:
                    o["fields"] = [gf["name"] for gf in gfields[g]]
                    o["ops"] = [{"k": "copy", "place": {"l": op["place"]["l"], "proj": list(op["place"]["proj"]) + [{"k": "field", "name": gf["name"], "ty": gf["ty"], "owner": g}]}}
                                for gf in gfields[g]]
            if "proj" in o and "l" in o and vgroups:
                pr = o["proj"]
                out = []
                i = 0
                while i < len(pr):
                    e = pr[i]
                    if e.get("k") == "downcast" and i + 2 < len(pr) + 0 and i + 1 < len(pr) and pr[i + 1].get("k") == "field" and pr[i + 1].get("name") == "0" \
                            and (pr[i + 1].get("owner"), e.get("variant")) in vgroups:
                        g = vgroups[(pr[i + 1]["owner"], e["variant"])]
                        out.append(e)
                        if i + 2 < len(pr) and pr[i + 2].get("k") == "field" and pr[i + 2].get("owner") == g:
                            n = dict(pr[i + 2])
                            n["owner"] = pr[i + 1]["owner"]
                            out.append(n)
                            i += 3
                            continue
                        # the whole payload is read: leave the projection (the evaluator normalises `.0.name` below)
                        out.append(pr[i + 1])
                        i += 2
                        continue
                    out.append(e)
                    i += 1
                o["proj"] = out
            if o.get("k") == "agg" and o.get("agg") == "adt":
                for (owner, fname), g in groups.items():
                    if o.get("adt") == owner and fname in o.get("fields", []):
                        i = o["fields"].index(fname)
                        op = o["ops"][i]
                        if op.get("k") in ("move", "copy") and "place" in op:
                            nfs, nops = [], []
                            for gf in gfields[g]:
                                nfs.append(fname + "." + gf["name"])
                                pl = {"l": op["place"]["l"], "proj": list(op["place"]["proj"]) + [{"k": "field", "name": gf["name"], "ty": gf["ty"], "owner": g}]}
                                nops.append({"k": "copy", "place": pl})
                            o["fields"] = o["fields"][:i] + nfs + o["fields"][i + 1:]
                            o["ops"] = o["ops"][:i] + nops + o["ops"][i + 1:]
            if "proj" in o and "l" in o:
                pr = o["proj"]
                out = []
                i = 0
                while i < len(pr):
                    e = pr[i]
                    if e.get("k") == "field" and (e.get("owner"), e.get("name")) in groups and i + 1 < len(pr) and pr[i + 1].get("k") == "field" \
                            and pr[i + 1].get("owner") == groups[(e.get("owner"), e.get("name"))]:
                        n = dict(pr[i + 1])
                        n["name"] = e["name"] + "." + pr[i + 1]["name"]
                        n["owner"] = e["owner"]
                        out.append(n)
                        i += 2
                        continue
                    out.append(e)
                    i += 1
                o["proj"] = out
            for v in o.values():
                walk(v)
        elif isinstance(o, list):
            for x in o:
                walk(x)
    for b in j.get("bodies", []):
        walk(b)
    groups = dict(groups)
    for (owner, vn), g in vgroups.items():
        groups[(owner + "::" + vn, "0")] = g
    return groups


class Facts:
    def __init__(self, path_or_json):
        self.renamed = {}
        if isinstance(path_or_json, str):
            with open(path_or_json) as f:
                text = f.read()
            j = json.loads(text)
            text1 = canonicalise_containers(text, j)
            text2, ren = canonicalise_paths(text1, j)
            if ren or text1 is not text:
                j = json.loads(text2)
                self.renamed = ren
        else:
            j = path_or_json
        self.groups = flatten_group_structs(j) if j.get("crate") == "varpro" else {}
        self.group_fields = set(fn for (_o, fn) in self.groups if not fn.isdigit())
        self.option_like = present_option_like_enums(j) if j.get("crate") == "varpro" else {}
        self.newtypes = erase_newtypes(j) if j.get("crate") == "varpro" else {}
        self.j = j
        self.config = j.get("config")
        self.crate = j.get("crate")
        self.bodies = {}
        for b in j["bodies"]:
            self.bodies[b["key"]] = Body(b, self)
        self._mark_extension_methods()
        self._resolve_into_calls()
        self._rewrite_inplace_twins()
        self.adts = {a["path"]: a for a in j["adts"]}
        self.consts = {c["key"]: c for c in j["consts"]}
        self.unsafe_blocks = j["unsafe_blocks"]
        self.impls = j["impls"]

    def _mark_extension_methods(self):
        """A method of a LOCAL trait implemented for a FOREIGN type (`trait NameList { fn contains(&self, ..) }` for
        `Vec<String>`) can carry the name of a std / nalgebra method and win method resolution at an earlier auto-ref
        step — the call site does not change. Rules recognise library methods by their path; such a call must never be
        taken for the library method of the same name: its name is marked, so that it is only ever understood through
        its own body (it is a local function like any other)."""
        if self.crate != "varpro":
            return
        local_adts = set(a["path"] for a in self.j.get("adts", []))
        for b in self.bodies.values():
            for blk in b.j["blocks"]:
                t = blk["term"]
                f = t.get("fn") if t.get("k") == "call" else None
                if not f or f.get("krate") != self.crate or not f.get("trait") or f.get("ext_marked"):
                    continue
                tr = f["trait"].split("<", 1)[0]
                if tr.startswith(("std::", "core::", "alloc::", "nalgebra", "levenberg_marquardt", "rayon", "num_traits", "approx")):
                    continue
                st = (f.get("self_ty") or "").lstrip("&").replace("mut ", "").strip()
                head = st.split("<", 1)[0]
                foreign = head.startswith(("std::", "core::", "alloc::", "nalgebra", "[", "str", "usize", "f32", "f64", "bool", "(", "levenberg_marquardt"))
                if not foreign or head in local_adts:
                    continue
                f["ext_marked"] = True
                f["name"] = f["name"] + "·ext"
                f["path"] = f["path"] + "·ext"

    def _resolve_into_calls(self):
        """`x.into()` resolves to std's blanket `impl<T, U: From<T>> Into<U> for T`, whose body is `U::from(x)`: when the
        crate has exactly one `impl From<T'> for U'` with the heads of T and U, present the call as that `From::from`
        call (so that `v.into()` and `U::from(v)` are the same construct for every rule)"""
        def head(ty):
            return ty.split("<", 1)[0].lstrip("&").strip()
        froms = {}
        for k, b in self.bodies.items():
            im = b.j.get("impl", {})
            if b.kind != "Closure" and im.get("trait", "").startswith("std::convert::From") and (b.j.get("name") or k.rsplit("::", 1)[-1]) == "from" and b.j.get("inputs"):
                froms.setdefault((im.get("self_adt") or head(im.get("self_ty", "")), head(b.j["inputs"][0])), []).append(b)
        if not froms:
            return
        for b in self.bodies.values():
            for blk in b.j["blocks"]:
                t = blk["term"]
                f = t.get("fn") if t.get("k") == "call" else None
                if not f or f.get("path") != "std::convert::Into::into" or f.get("resolved_key") or len(f.get("gargs", [])) != 2:
                    continue
                T, U = f["gargs"]
                c = froms.get((head(U), head(T)), [])
                if len(c) == 1:
                    t["fn"] = {"path": "std::convert::From::from", "name": "from", "local": False, "krate": "core", "gargs": [U, T],
                               "trait": "std::convert::From", "self_ty": U, "self_adt": head(U), "resolved": c[0].key, "resolved_key": c[0].key,
                               "via_into": True}

    def _rewrite_inplace_twins(self):
        """an operator implemented through an in-place helper — `impl Mul<M> for &T { fn mul(self, mut rhs: M) -> M {
        self.scale_in_place(&mut rhs); rhs } }` — makes `t.scale_in_place(&mut x)` the in-place spelling of `x = &t * x`.
        Calls of such a helper (outside the operator itself) are presented as the operator call assigning to the lent place, so
        that the rules see one construct for both spellings. The helper's own body is still analysed where the operator is."""
        twins = {}
        for k, b in self.bodies.items():
            im = b.j.get("impl", {})
            if b.kind == "Closure" or not im.get("trait", "").startswith("std::ops::") or not k.startswith("<&") or b.arg_count != 2:
                continue
            calls = [(bi, t) for bi, t in enumerate(x["term"] for x in b.j["blocks"]) if t.get("k") == "call" and "fn" in t]
            live_calls = [(bi, t) for bi, t in calls if not b.j["blocks"][bi].get("cleanup")]
            if len(live_calls) != 1:
                continue
            bi, t = live_calls[0]
            g = t["fn"].get("resolved_key") or t["fn"].get("key")
            if g not in self.bodies or len(t["args"]) != 2 or self.bodies[g].kind == "Closure":
                continue
            # second argument: a (re)borrow `&mut _2`; the operator returns `_2`
            lent = self._lent_place(b.j, t["args"][1])
            if lent is None or lent["l"] != 2 or lent["proj"]:
                continue
            rets = [s_ for x in b.j["blocks"] if not x.get("cleanup") for s_ in x["stmts"] if s_["k"] == "assign" and s_["place"]["l"] == 0 and not s_["place"]["proj"]]
            if len(rets) != 1 or rets[0]["rv"]["k"] != "use" or rets[0]["rv"]["op"].get("k") != "move" or rets[0]["rv"]["op"]["place"] != {"l": 2, "proj": []}:
                continue
            if g in twins:
                twins[g] = None     # ambiguous
            else:
                twins[g] = (k, b, t["fn"])
        self.inplace_twins = {g: v[0] for g, v in twins.items() if v}
        for g, v in twins.items():
            if not v:
                continue
            opkey, opb, gfn = v
            im = opb.j["impl"]
            tr = im["trait"].split("<", 1)[0]
            opfn = {"path": tr + "::" + (opb.j.get("name") or "mul"), "name": opb.j.get("name") or "mul", "local": False, "krate": "core",
                    "trait": tr, "self_ty": im.get("self_ty"), "self_adt": im.get("self_adt"), "resolved": opkey, "resolved_key": opkey,
                    "gargs": [], "via_inplace_twin": g}
            for k, b in self.bodies.items():
                if k == opkey:
                    continue
                for blk in b.j["blocks"]:
                    t = blk["term"]
                    if t.get("k") != "call" or "fn" not in t or (t["fn"].get("resolved_key") or t["fn"].get("key")) != g or len(t["args"]) != 2:
                        continue
                    chain = []
                    lent = self._lent_place(b.j, t["args"][1], 0, chain)
                    if lent is None:
                        continue
                    for st_ in chain:
                        # the `&mut` temporaries only existed to lend the place to the helper
                        st_.clear()
                        st_["k"] = "nop"
                    nt = dict(t)
                    nt["fn"] = opfn
                    nt["args"] = [t["args"][0], {"k": "move", "place": lent}]
                    nt["dest"] = lent
                    nt["inplace_of"] = g
                    blk["term"] = nt
        if self.inplace_twins:
            for b in self.bodies.values():
                b.__dict__.pop("_cfg", None)

    @staticmethod
    def _lent_place(j, op, depth=0, chain=None):
        """the place behind a `&mut` temporary passed as an argument (through reborrows and moves of the temporary); the
        statements that define the temporaries are appended to `chain`"""
        if chain is None:
            chain = []
        if depth > 4 or op.get("k") not in ("move", "copy") or op["place"]["proj"]:
            return None
        tl = op["place"]["l"]
        defs = [s_ for x in j["blocks"] for s_ in x["stmts"] if s_["k"] == "assign" and s_["place"]["l"] == tl and not s_["place"]["proj"]]
        if len(defs) != 1:
            # a `&mut` parameter handed on as is: the place is its referent
            if not defs and 1 <= tl <= j.get("arg_count", 0):
                return {"l": tl, "proj": [{"k": "deref"}]}
            return None
        rv = defs[0]["rv"]
        if rv["k"] == "ref" and rv.get("mut"):
            p = rv["place"]
            chain.append(defs[0])
            if len(p["proj"]) == 1 and p["proj"][0]["k"] == "deref":
                inner = Facts._lent_place(j, {"k": "move", "place": {"l": p["l"], "proj": []}}, depth + 1, chain)
                return inner if inner is not None else p
            return p
        if rv["k"] == "use" and rv["op"].get("k") in ("move", "copy"):
            chain.append(defs[0])
            return Facts._lent_place(j, rv["op"], depth + 1, chain)
        return None

    def find(self, pred):
        return [b for b in self.bodies.values() if pred(b)]

    def by_key_suffix(self, suffix):
        return [b for k, b in self.bodies.items() if k.endswith(suffix)]

    def closures_of(self, key):
        return [b for b in self.bodies.values() if b.kind == "Closure" and b.j.get("parent") == key]

    def all_closures_under(self, key):
        return [b for b in self.bodies.values() if b.kind == "Closure" and b.j.get("root") == key]
