"""MIR-level inlining of private helpers: one merged control-flow graph per analysed method.

Many rules are statements about the paths of ONE function ("every path through set_params that
returns rewrites the cache", "Some(J) only through the Ok edge of …", "the SVD is dominated by the
finiteness test"). Extracting part of such a function into a private helper — the commonest
refactoring there is — would hide those paths behind a call. `inlined(F, body)` splices the
callee's blocks into the caller (locals renumbered, arguments assigned to the parameter locals,
every `return` replaced by `dest = _0; goto continuation`), transitively, so that dominators,
must-pass queries, guard collection and the term evaluator see the same paths before and after
such a refactoring. Cleanup blocks stay cleanup. Closures keep their own bodies; the merged body
records which callees were spliced in (`j["inlined"]`) so that closure lookup can include theirs.

What is inlined: calls that resolve to a local, non-closure, non-trait-method function of this
crate whose body is available, which is not excluded by the caller (`no_inline`, e.g. the weight
operators that rules keep symbolic) and is not an entry of a different role type; depth <= 4,
no recursion, at most 400 merged blocks."""
import copy
from mir import Body

MAX_BLOCKS = 400


def _shift(o, off, boff):
    """renumber locals (+off) and block targets (+boff) inside a copied callee fragment, in place"""
    if isinstance(o, dict):
        if "l" in o and isinstance(o["l"], int):
            o["l"] += off
        for k, v in o.items():
            if k in ("t", "otherwise") and isinstance(v, int):
                o[k] = v + boff
            elif k == "targets" and isinstance(v, list):
                o[k] = [[val, b + boff] for val, b in v]
            else:
                _shift(v, off, boff)
    elif isinstance(o, list):
        for x in o:
            _shift(x, off, boff)


def eligible(F, caller, fn, no_inline, only_private=False):
    key = fn.get("resolved_key") or fn.get("key")
    cb = F.bodies.get(key)
    if cb is None or cb.kind == "Closure" or key in no_inline or key == caller.key:
        return None
    if only_private and (cb.j.get("vis") in ("pub", "crate") or "trait" in cb.j.get("impl", {})):
        return None   # functions with a stable name are analysed on their own
    im = cb.j.get("impl", {})
    if "trait" in im:
        return None   # trait methods are API boundaries (and the Mul operators stay symbolic)
    # a public method of ANOTHER type is a boundary; private helpers, crate-private functions and methods of the
    # caller's own type are not
    cim = F.bodies.get(caller.j.get("root", caller.key), caller).j.get("impl", {})
    if cb.j.get("vis") == "pub" and im.get("self_adt") is not None and im.get("self_adt") != cim.get("self_adt"):
        return None
    return cb


def inlined(F, body, no_inline=(), max_depth=4, only_private=False):
    """merged Body for `body` (the same object if nothing was inlined)"""
    no_inline = frozenset(no_inline)
    cache = F.__dict__.setdefault("_inlined_cache", {})
    ck = (body.key, no_inline, only_private)
    if ck in cache:
        return cache[ck]
    j = body.j
    blocks = [copy.deepcopy(b) for b in j["blocks"]]
    locals_ = list(j["locals"])
    merged = []
    # work list of (block index, depth, call chain)
    work = [(i, 0, (body.key,)) for i in range(len(blocks))]
    while work:
        bi, depth, chain = work.pop()
        t = blocks[bi]["term"]
        if t["k"] != "call" or "fn" not in t or depth >= max_depth or blocks[bi].get("cleanup"):
            continue
        cb = eligible(F, body, t["fn"], no_inline, only_private)
        if cb is None or cb.key in chain or len(blocks) + len(cb.blocks) > MAX_BLOCKS:
            continue
        off, boff = len(locals_), len(blocks)
        frag = copy.deepcopy(cb.j["blocks"])
        _shift(frag, off, boff)
        locals_.extend(copy.deepcopy(cb.j["locals"]))
        span = t.get("span")
        # arguments -> parameter locals
        for p, a in enumerate(t["args"]):
            blocks[bi]["stmts"].append({"k": "assign", "place": {"l": off + 1 + p, "proj": []}, "rv": {"k": "use", "op": a}, "span": span, "inl": "arg"})
        cont = t.get("t")
        dest = t["dest"]
        blocks[bi]["term"] = {"k": "goto", "t": boff, "span": span, "inl_call": {"callee": cb.key, "fn": t["fn"]}}
        for fb in frag:
            if fb["term"]["k"] == "return":
                if cont is None:
                    fb["term"] = {"k": "unreachable"}
                else:
                    fb["stmts"].append({"k": "assign", "place": copy.deepcopy(dest), "rv": {"k": "use", "op": {"k": "move", "place": {"l": off, "proj": []}}},
                                        "span": fb["term"].get("span") or span, "inl": "ret"})
                    fb["term"] = {"k": "goto", "t": cont, "span": fb["term"].get("span") or span}
        base = len(blocks)
        blocks.extend(frag)
        merged.append(cb.key)
        for i in range(base, len(blocks)):
            work.append((i, depth + 1, chain + (cb.key,)))
    if not merged:
        cache[ck] = body
        return body
    j2 = dict(j)
    j2["blocks"] = blocks
    j2["locals"] = locals_
    j2["inlined"] = sorted(set(merged) | set(j.get("inlined", [])))
    nb = Body(j2, F)
    cache[ck] = nb
    return nb
