#!/usr/bin/env python3
"""regenerate /verif/MANIFEST.json from the property table (props.py)"""
import json, os, sys
HERE = os.path.dirname(os.path.abspath(__file__))
sys.path.insert(0, HERE)
import props

VERIF = os.path.dirname(HERE)
ALL = [json.loads(l)["id"] for l in open(os.path.join(VERIF, "properties.jsonl"))]

NA = {
    "C05": "convergence of the fit on identifiable problems quantifies over the numerical trajectory of an iterative optimizer on families of data; its structural ingredients (coefficients, residuals, Jacobian) are claimed under C01-C03 and no further necessary condition is visible in the shape of the code; a run-time experiment would be a different technique (DESIGN.md §7)",
    "C19": "statistical calibration is a statement about a distribution over noise realisations; nothing static beyond the formula clauses already claimed under C12-C14 (DESIGN.md §7)",
}

checks = []
for pid in ALL:
    spec = props.PROPS.get(pid)
    if not spec:
        continue
    checks.append({
        "property_id": pid,
        "quick_cmd": "bin/vpcheck %s --tier quick" % pid,
        "thorough_cmd": "bin/vpcheck %s --tier thorough" % pid,
        "evidence_file": "evidence/%s.json" % pid,
        "replay_cmd_template": "bin/vpcheck %s --replay {path}" % pid,
        "engine": "vpfacts+vpcheck",
        "level_claimed": {
            "category": "other",
            "text": "Static analysis of the type-checked program (MIR of both feature configurations, all paths, all generic instantiations at once): decides the structural necessary conditions of the property listed in DESIGN.md §5 — " + spec["explanation"] + " It does not decide numerical behaviour" + (("; clauses not decided: " + "; ".join(spec.get("not_decided", []))) if spec.get("not_decided") else "") + ".",
            "design_ref": "DESIGN.md §5 " + pid,
        },
        "level_note": "Trusted: rustc's MIR construction and trait resolution, the E1 driver's printing, the signature/semantics tables for external callees (nalgebra, levenberg-marquardt, rayon, distrs, std), the SeparableNonlinearModel trait contract. Rules are exact for their clause; unmodelled constructs on a checked provenance chain are reported as undetermined violations.",
        "technique": spec.get("technique", "static analysis: custom MIR dataflow / CFG dominance / term-normal-form rules over rustc_private facts"),
    })

na = []
for pid in ALL:
    if pid in props.PROPS:
        continue
    na.append({"property_id": pid, "reason": NA.get(pid, "rules for this property are not implemented in this revision of /verif (static family; see DESIGN.md §8 order)")})

m = {
    "version": 1,
    "setup_cmd": "bin/setup",
    "hooks": {
        "guard": "geo_ant_varpro_verif",
        "enable": "none needed: the checks analyse the unmodified source (cargo +nightly check with the fact-extracting rustc wrapper); the guard name is reserved and unused",
        "baseline_off_cmd": "cd /repo && cargo test --workspace --no-fail-fast --offline",
        "source_commits": [],
        "add_only": True,
    },
    "engines": [
        {"name": "vpfacts", "path": "driver/", "serves_properties": [c["property_id"] for c in checks],
         "kind_free_text": "rustc_private driver (RUSTC_WORKSPACE_WRAPPER) printing type-checked MIR/HIR facts as JSON per build configuration"},
        {"name": "vpcheck", "path": "analysis/", "serves_properties": [c["property_id"] for c in checks],
         "kind_free_text": "Python (stdlib) query layer: CFG/dominance/guard queries, use-def term reconstruction with algebraic normal forms, role resolution, rule tables"},
    ],
    "checks": checks,
    "not_applicable": na,
    "notes": "Technique family: static analysis only. Three genuine defects were found by the rules and repaired by fix: commits in /repo (see known_findings.json and DESIGN.md §6).",
}
json.dump(m, open(os.path.join(VERIF, "MANIFEST.json"), "w"), indent=1)
print("MANIFEST.json: %d checks, %d not_applicable" % (len(checks), len(na)))
