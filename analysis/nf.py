"""Algebraic normal form of matrix terms: a sum of signed non-commutative monomials over
opaque atoms (algebraic value numbering; no execution, no solver).

nf(t) -> {monomial: Fraction}, monomial = (scalars, factors) where
  scalars = sorted tuple of scalar atoms (commute), factors = tuple of (atom, transposed)"""
from fractions import Fraction
from core import ADT_WEIGHTS, ADT_DIAG

MATRIX_HEADS = ("nalgebra::Matrix",)


def add(a, b, sign=1):
    out = dict(a)
    for m, c in b.items():
        out[m] = out.get(m, 0) + sign * c
        if out[m] == 0:
            del out[m]
    return out


def norm_scalars(sc):
    """sqrt(x)·sqrt(x) -> x"""
    sc = list(sc)
    changed = True
    while changed:
        changed = False
        for i, s in enumerate(sc):
            if s[0] == "sqrt":
                for j in range(i + 1, len(sc)):
                    if sc[j] == s:
                        x = s[1]
                        del sc[j]
                        del sc[i]
                        sc.append(("atom", x))
                        changed = True
                        break
            if changed:
                break
    return tuple(sorted(sc, key=repr))


def mul(a, b):
    out = {}
    for (s1, f1), c1 in a.items():
        for (s2, f2), c2 in b.items():
            m = (norm_scalars(s1 + s2), f1 + f2)
            out[m] = out.get(m, 0) + c1 * c2
            if out[m] == 0:
                del out[m]
    return out


def transpose(a, symmetric):
    out = {}
    for (s, f), c in a.items():
        nf_ = tuple((x, (t if symmetric(x) else (not t))) for x, t in reversed(f))
        out[(s, nf_)] = out.get((s, nf_), 0) + c
    return out


class NF:
    def __init__(self, is_scalar=None, symmetric=None):
        self.is_scalar = is_scalar or (lambda t: False)
        self.symmetric = symmetric or (lambda a: a[0] == "W")

    def atom(self, t):
        return {((), ((t, False),)): Fraction(1)}

    def scalar(self, t):
        return {((t,), ()): Fraction(1)}

    def nf(self, t):
        tag = t[0]
        if tag == "phi":
            # a case distinction whose alternatives are algebraically the same expression (two multiplication orders
            # chosen by shape, a fast path and its fallback) is that expression
            alts = [self.nf(x) for x in t[1] if x[0] != "loopback"]
            if alts and len(alts) == len(t[1]) and all(a == alts[0] for a in alts[1:]):
                return alts[0]
            return self.atom(t)
        from terms import const_scalar
        c = const_scalar(t)
        if c is not None:
            return {((), ()): Fraction(c)} if c else {}
        if tag == "call":
            cid, head, args = t[1], t[2], t[3]
            if cid == "std::ops::Mul::mul" and len(args) == 2:
                if head == ADT_WEIGHTS or head == ADT_DIAG:
                    return mul(self.atom(("W", args[0])), self.nf(args[1]))
                a, b = args
                return mul(self.nf_or_scalar(a), self.nf_or_scalar(b))
            if cid == "std::ops::Div::div" and len(args) == 2 and self.is_scalar(args[1]):
                return mul(self.nf_or_scalar(args[0]), self.scalar(("inv", self.scalar_key(args[1]))))
            if cid == "std::ops::Sub::sub" and len(args) == 2:
                return add(self.nf_or_scalar(args[0]), self.nf_or_scalar(args[1]), -1)
            if cid == "std::ops::Add::add" and len(args) == 2:
                return add(self.nf_or_scalar(args[0]), self.nf_or_scalar(args[1]), 1)
            if cid == "std::ops::Neg::neg" and len(args) == 1:
                return add({}, self.nf_or_scalar(args[0]), -1)
            if cid.endswith("Matrix::transpose") and len(args) == 1:
                return transpose(self.nf(args[0]), self.symmetric)
            if cid.rsplit("::", 1)[-1] == "tr_mul" and "nalgebra" in cid and len(args) == 2:
                return mul(transpose(self.nf(args[0]), self.symmetric), self.nf(args[1]))
            if cid.endswith("reshape_generic") and len(args) == 3:
                # vec(·) is linear
                inner = self.nf(args[0])
                # … and idempotent: reshaping is a column-major re-interpretation of the same buffer, vec(reshape(X)) = vec(X)
                V = (("vec",), False)
                return {(s, f if f and f[0] == V else (V,) + f): c for (s, f), c in inner.items()}
        if self.is_scalar(t):
            return self.scalar(self.scalar_key(t))
        return self.atom(t)

    def scalar_key(self, t):
        if t[0] == "call" and t[1].endswith("::sqrt") and len(t[3]) == 1:
            return ("sqrt", t[3][0])
        return ("atom", t)

    def nf_or_scalar(self, t):
        if self.is_scalar(t):
            return self.scalar(self.scalar_key(t))
        return self.nf(t)


def show(n, short):
    parts = []
    for (s, f), c in sorted(n.items(), key=repr):
        fs = "·".join((short(a) + ("ᵀ" if tr else "")) for a, tr in f)
        ss = "·".join(short(x[1]) if x[0] == "atom" else "%s(%s)" % (x[0], short(x[1])) for x in s)
        parts.append("%+g·%s%s" % (float(c), (ss + "·") if ss else "", fs))
    return " ".join(parts)
