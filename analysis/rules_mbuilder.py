"""Model builder rules (C15): typestate transition table, sticky errors, guard tables."""
import copy
from core import *
from flow import consumers
from rules_problem import is_call, ok_of, strip_mut

VARIANTS = ("Error", "Normal", "FunctionBuilding")
ADT_FNBUILDER = "model::builder::modelfunction_builder::ModelBasisFunctionBuilder"
ADT_UNFINISHED = "model::builder::UnfinishedModel"
ADT_BUILDERR = "model::builder::error::ModelBuildError"


def entry_match(body):
    """(switch block, {variant: target}) of the first match on self"""
    for bi in body.rpo():
        t = body.blocks[bi]["term"]
        if t["k"] == "switch":
            variants, adt_, place = discr_variants(body, bi)
            if variants and adt_ == ADT_MBUILDER and place["l"] == 1:
                listed = dict((v, tg) for v, tg in t["targets"])
                return bi, {n: listed.get(v, t["otherwise"]) for v, n in variants}
            if variants and place and place["l"] == 1:
                listed = dict((v, tg) for v, tg in t["targets"])
                return bi, {n: listed.get(v, t["otherwise"]) for v, n in variants}
    return None, None


def variant_set_of(t, method_keys):
    """set of builder variants a term of builder type can have, delegate calls reported as
    ('delegate', method key, receiver term)"""
    out = set()
    dele = []
    alts = t[1] if t[0] == "phi" else (t,)
    for a in alts:
        if a[0] == "agg" and a[1] == ADT_MBUILDER:
            out.add(a[2])
        elif a[0] == "call" and a[4] is not None and len(a[3]) >= 1 and any(a[1] == strip_generics(F_path) for F_path in method_keys):
            dele.append(a)
        elif a[0] in ("unreachable",):
            continue
        else:
            out.add("?" + short(a)[:60])
    return out, dele


def builder_methods(F):
    ms = {}
    for b in inherent_methods(F, ADT_MBUILDER):
        if b.j.get("vis") == "pub" and b.j.get("inputs") and ADT_MBUILDER in b.j["inputs"][0]:
            ms[b.name] = b
    return ms


REFERENCE = {
    # method: {in-state: set of out-states}
    "invariant_function": {"Error": {"Error"}, "Normal": {"Normal"}, "FunctionBuilding": {"Normal", "Error"}},
    "independent_variable": {"Error": {"Error"}, "Normal": {"Normal"}, "FunctionBuilding": {"Normal", "Error"}},
    "function": {"Error": {"Error"}, "Normal": {"FunctionBuilding"}, "FunctionBuilding": {"FunctionBuilding", "Error"}},
    "partial_deriv": {"Error": {"Error"}, "Normal": {"Error"}, "FunctionBuilding": {"FunctionBuilding"}},
    "initial_parameters": {"Error": {"Error"}, "Normal": {"Normal", "Error"}, "FunctionBuilding": {"Normal", "Error"}},
}


def rule_typestate(F, ev_unused, R, config, rule="R-TYPESTATE"):
    ms = builder_methods(F)
    for m in list(REFERENCE) + ["build"]:
        if m not in ms:
            R.bad(rule, config, ADT_MBUILDER, "anchor-missing:" + m, "builder method `%s` not found" % m)
    opaque = [b.key for b in ms.values()]
    ev = Eval(F, opaque=opaque)
    table = {}
    delegs = {}
    extras = {}
    for name, b in ms.items():
        if name not in REFERENCE and name != "build":
            # a new state-changing method: must be reviewed
            if ADT_MBUILDER in b.j.get("output", ""):
                R.bad(rule, config, b.key, "unknown-transition", "builder method `%s` is not in the reviewed transition table" % name, b.j["span"])
            continue
        sw, arms = entry_match(b)
        if sw is None:
            R.bad(rule, config, b.key, "no-match-on-state", "method does not start by matching on the builder state (undetermined)", b.j["span"])
            continue
        for v in VARIANTS:
            if v not in arms:
                R.bad(rule, config, b.key, "arm:" + v, "no arm for state %s" % v, b.j["span"])
                continue
            pb = pruned(b, sw, arms[v])
            ev.fresh_ctx()
            val = ev.ret_val(Env(pb))
            table[(name, v)] = val
    # resolve variant sets with delegation
    meth_ids = {strip_generics(b.j["path"]): n for n, b in ms.items()}
    sets = {}

    def vs(name, v, depth=0):
        if (name, v) in sets:
            return sets[(name, v)]
        val = table.get((name, v))
        if val is None:
            return {"?"}
        out = set()
        alts = val[1] if val[0] == "phi" else (val,)
        for a in alts:
            if a[0] == "agg" and a[1] == ADT_MBUILDER:
                out.add(a[2])
            elif a[0] == "call" and a[1] in meth_ids and depth < 2:
                callee = meth_ids[a[1]]
                recv = a[3][0]
                rv = set()
                for ra in (recv[1] if recv[0] == "phi" else (recv,)):
                    if ra[0] == "agg" and ra[1] == ADT_MBUILDER:
                        rv.add(ra[2])
                    else:
                        rv.add("?")
                delegs[(name, v)] = (callee, rv, recv, a)
                for x in rv:
                    out |= vs(callee, x, depth + 1) if x in VARIANTS else {"?"}
            elif a[0] == "unreachable":
                continue
            else:
                out.add("?")
                extras[(name, v)] = a
        sets[(name, v)] = out
        return out

    for name in REFERENCE:
        if name not in ms:
            continue
        b = ms[name]
        for v in VARIANTS:
            got = vs(name, v)
            want = REFERENCE[name][v]
            ok = got == want
            R.add(rule, config, b.key, "%s:%s→%s" % (name, v, "|".join(sorted(want))), ok,
                  "" if ok else "from state %s, %s() can produce state(s) %s; the reviewed table allows %s%s" % (
                      v, name, sorted(got), sorted(want), (" (unrecognised value %s)" % short(extras[(name, v)])[:80]) if (name, v) in extras else ""), b.j["span"])
        # Error arm: payload moved unchanged
        val = table.get((name, "Error"))
        if val is not None:
            ok = val == ("agg", ADT_MBUILDER, "Error", (("0", ("payload", ("param", b.key, 1), "Error", "0")),))
            R.add(rule, config, b.key, name + ":error-payload-unchanged", ok, "" if ok else "Error state is rewritten: `%s`" % short(val)[:120], b.j["span"])
        # FunctionBuilding arm of finalising methods: delegate on From(extend_model(model, function_builder)) of *this* state
        if name != "partial_deriv":
            d = delegs.get((name, "FunctionBuilding"))
            ok = False
            msg = "the pending function is not finalised before `%s` is applied" % name
            if d:
                callee, rv, recv, callterm = d
                me = ("param", b.key, 1)
                uses_model = contains(recv, lambda x: x == ("payload", me, "FunctionBuilding", "model"))
                uses_fb = contains(recv, lambda x: x == ("payload", me, "FunctionBuilding", "function_builder"))
                ok = callee == name and rv == {"Normal", "Error"} and uses_model and uses_fb
                # same user arguments are forwarded
                fw = all(callterm[3][i] == ("param", b.key, i + 1) for i in range(1, len(callterm[3])))
                ok = ok and fw
                if not fw:
                    msg = "the delegated call does not forward the caller's arguments unchanged"
            R.add(rule, config, b.key, name + ":finalises-pending-function-then-retries", ok, "" if ok else msg, b.j["span"])
    # function(): Normal arm starts a function builder on this model
    if "function" in ms:
        b = ms["function"]
        val = table.get(("function", "Normal"))
        me = ("param", b.key, 1)
        ok = False
        if val and val[0] == "agg" and val[2] == "FunctionBuilding":
            f = dict(val[3])
            ok = f.get("model") == ("payload", me, "Normal", "0")
        R.add(rule, config, b.key, "function:keeps-the-model", ok, "" if ok else "function() does not carry the unfinished model over", b.j["span"])
    if "partial_deriv" in ms:
        b = ms["partial_deriv"]
        val = table.get(("partial_deriv", "FunctionBuilding"))
        me = ("param", b.key, 1)
        ok = False
        if val and val[0] == "agg" and val[2] == "FunctionBuilding":
            f = dict(val[3])
            ok = f.get("model") == ("payload", me, "FunctionBuilding", "model")
        R.add(rule, config, b.key, "partial_deriv:keeps-the-model", ok, "" if ok else "partial_deriv() does not carry the unfinished model over", b.j["span"])
        val = table.get(("partial_deriv", "Normal"))
        ok = val is not None and val[0] == "agg" and val[2] == "Error" and val[3][0][1][0] == "agg" and val[3][0][1][2] == "IllegalCallToPartialDeriv"
        R.add(rule, config, b.key, "partial_deriv:Normal→IllegalCall", ok, "" if ok else "a derivative given without a preceding function yields `%s`" % (short(val)[:100] if val else None), b.j["span"])
    # build()
    if "build" in ms:
        b = ms["build"]
        me = ("param", b.key, 1)
        val = table.get(("build", "Error"))
        ok = val == ("agg", "std::result::Result", "Err", (("0", ("payload", me, "Error", "0")),))
        R.add(rule, config, b.key, "build:Error→Err(payload)", ok, "" if ok else "build() on an errored builder returns `%s`" % (short(val)[:120] if val else None), b.j["span"])
        val = table.get(("build", "Normal"))
        alts = val[1] if val and val[0] == "phi" else ((val,) if val else ())
        oks = [a for a in alts if a[0] == "agg" and a[2] == "Ok"]
        ok = len(oks) == 1 and oks[0][3][0][1][0] == "agg" and oks[0][3][0][1][1] == ADT_SEPMODEL
        R.add(rule, config, b.key, "build:Normal→validated-model", ok, "" if ok else "build() on a Normal builder: `%s`" % (short(val)[:120] if val else None), b.j["span"])
        val = table.get(("build", "FunctionBuilding"))
        # must go through extend_model (finalise + validate the pending function) first: every Ok alternative's
        # function list derives from a push of the built function
        alts = val[1] if val and val[0] == "phi" else ((val,) if val else ())
        if len(alts) == 1 and alts[0][0] == "opt":
            alts = alts[0][1][1] if alts[0][1][0] == "phi" else (alts[0][1],)
        ok = val is not None and contains(val, lambda x: x[0] == "agg" and x[1] == ADT_SEPMODEL) and \
            contains(val, lambda x: x[0] == "mutated" and contains(x, lambda y: y == ("payload", me, "FunctionBuilding", "model"))) and \
            contains(val, lambda x: x == ("payload", me, "FunctionBuilding", "function_builder"))
        R.add(rule, config, b.key, "build:FunctionBuilding→finalise-then-validate", ok,
              "" if ok else "build() with a pending function does not finalise it before validating the model", b.j["span"])
    # new(): invalid names -> Error
    news = [b for b in inherent_methods(F, ADT_MBUILDER, "new")]
    for b in news:
        ev2 = Eval(F)
        v = ev2.ret_val(Env(b))
        alts = v[1] if v[0] == "phi" else (v,)
        vs_ = set(a[2] for a in alts if a[0] == "agg" and a[1] == ADT_MBUILDER)
        ok = vs_ == {"Error", "Normal"}
        R.add(rule, config, b.key, "new→Normal|Error", ok, "" if ok else "new() yields states %s" % sorted(vs_), b.j["span"])
        # Normal only if check_parameter_names returned Ok
        g = Guards(ev2, b)
        for bi, si, s in b.stmts():
            if s["k"] == "assign" and s["rv"]["k"] == "agg" and s["rv"].get("adt") == ADT_UNFINISHED:
                rels, raw = g.relations_at(bi)
                okk = False
                for term, vals, sw in raw:
                    if term[0] == "discr" and isinstance(vals, tuple):
                        variants, _, _ = discr_variants(sw.get("body", b), sw["block"])
                        names = dict(variants or [])
                        if all(names.get(x) == "Ok" for x in vals if x != "otherwise") and contains(term, lambda y: y[0] == "agg" and y[1] == ADT_BUILDERR):
                            okk = True
                R.add(rule, config, b.key, "new:Normal-needs-valid-names", okk, "" if okk else "the unfinished model is created without the parameter-name check having passed", s.get("span"))
    R.floor(rule, config, 28, "5 methods × (3 transitions + payload) + delegation + build + new")


def rule_fn_result_sticky(F, ev, R, config, rule="R-FN-RESULT-STICKY"):
    fs = struct_fields(F, ADT_FNBUILDER)
    rf = [f["name"] for f in fs if f["ty"].startswith("std::result::Result<")]
    if len(rf) != 1:
        raise AnchorMissing("function builder result role")
    rf = rf[0]
    n = 0
    for b in inherent_methods(F, ADT_FNBUILDER):
        if b.name in ("new",):
            continue
        if not (b.j.get("inputs") and ADT_FNBUILDER in b.j["inputs"][0]):
            continue
        env = Env(b)
        for bi, si, s in b.stmts():
            if s["k"] != "assign":
                continue
            p = s["place"]
            fsn = [e for e in p["proj"] if e["k"] == "field" and e.get("owner") == ADT_FNBUILDER]
            if fsn and fsn[0]["name"] == rf and len([e for e in p["proj"] if e["k"] in ("field", "downcast")]) == 1:
                n += 1
                v = ev.rvalue(env, s["rv"], (bi, si))
                ok = v[0] == "agg" and v[2] == "Err"
                R.add(rule, config, b.key, "result-write-is-Err", ok, "" if ok else "the recorded function result is overwritten with `%s`: an earlier error can be turned into Ok" % short(v)[:100], s.get("span"))
            if s["rv"]["k"] == "agg" and s["rv"].get("adt") == ADT_FNBUILDER:
                n += 1
                v = ev.rvalue(env, s["rv"], (bi, si))
                r = dict(v[3]).get(rf)
                ok = (r[0] == "agg" and r[2] == "Err") or r == ("field", ("param", b.key, 1), rf) or (strip_mut(r)[0] == ("field", ("param", b.key, 1), rf))
                R.add(rule, config, b.key, "rebuilt-with-Err-or-same", ok, "" if ok else "builder rebuilt with result `%s`" % short(r)[:100], s.get("span"))
    R.floor(rule, config, 3, "two Err writes + one rebuild in partial_deriv")


# --------------------------------------------------------------------------- #
# guard tables
# --------------------------------------------------------------------------- #
def err_sites(F, variant):
    out = []
    for b in F.bodies.values():
        for bi, si, s in b.stmts():
            if s["k"] == "assign" and s["rv"]["k"] == "agg" and s["rv"].get("adt") == ADT_BUILDERR and s["rv"].get("variant") == variant:
                if b.j.get("impl", {}).get("trait") in ("std::clone::Clone", "std::fmt::Debug", "std::fmt::Display", "std::cmp::PartialEq"):
                    continue
                out.append((b, bi, si, s))
    return out


def bool_switch_edges(g, pred, truth):
    """edges on which a boolean switch operand matching pred has value truth"""
    es = []
    for sw in g.switches:
        t = sw["term"]
        neg = False
        while t[0] == "un" and t[1] == "Not":
            t, neg = t[2], not neg
        if pred(t):
            es.append(g.bool_edges(sw, truth != neg))
    return es


def variant_switch_edges(g, body, pred, variant):
    es = []
    for sw in g.switches:
        t = sw["term"]
        if t[0] == "discr" and pred(t[1]):
            yes, no = variant_edge(body, sw["block"], variant)
            if yes:
                es.append(yes)
    return es


def rel_edges(g, want_rel_pred):
    """edges on which a comparison switch has a canonical relation satisfying pred"""
    es = []
    for sw in g.switches:
        for truth in (True, False):
            r = canon_rel(sw["term"], truth)
            if r and want_rel_pred(r):
                es.append(g.bool_edges(sw, truth))
    return es


def consumed_only_by(b, local, cid_suffix):
    cons = consumers(b, local)
    calls = [c for c in cons if c["kind"] == "call"]
    return len(cons) == 1 and len(calls) == 1 and calls[0]["cid"].endswith(cid_suffix), (calls[0] if calls else None)


def rule_build_guards(F, ev, R, config, rule="R-BUILD-GUARDS"):
    ev = Eval(F, opaque=[b.key for b in builder_methods(F).values()])

    def chk(variant, fn_pred, edges_fn, what, minimum=1):
        sites = [x for x in err_sites(F, variant) if fn_pred(x[0])]
        if len(sites) < minimum:
            R.bad(rule, config, "-", "missing:" + variant, "error `%s` (%s) is never produced where expected: the defect is not detected" % (variant, what))
        for b, bi, si, s in sites:
            g = Guards(ev, b)
            es = edges_fn(g, b)
            ok = bool(es) and g.holds_on_all_paths_to(bi, es)
            R.add(rule, config, b.key, "only-if:%s" % variant, ok, "" if ok else "Err(%s) can be produced although the specification is not defective in that way (%s)" % (variant, what), s.get("span"))

    any_fn = lambda b: True
    in_fn = lambda name: (lambda b: b.j.get("root", b.key).endswith(name))
    # check_parameter_names
    chk("EmptyParameters", in_fn("check_parameter_names"),
        lambda g, b: bool_switch_edges(g, lambda t: t[0] == "call" and t[1].endswith("::is_empty") and t[3][0] == ("param", b.key, 1), True), "name list empty")
    chk("CommaInParameterNameNotAllowed", in_fn("check_parameter_names"),
        lambda g, b: variant_switch_edges(g, b, lambda t: contains(t, lambda x: x[0] == "call" and x[1].endswith("Iterator::find")), "Some"), "a name contains a comma")
    chk("DuplicateParameterNames", in_fn("check_parameter_names"),
        lambda g, b: bool_switch_edges(g, lambda t: t[0] == "call" and t[1].endswith("Iterator::all") and contains(t, lambda x: x[0] == "call" and x[1].endswith("HashSet::insert") or x[0] == "closure"), False), "names not unique")
    # the uniqueness helper really is all(insert into a fresh set)
    for b in F.bodies.values():
        if b.key.endswith("has_only_unique_elements"):
            v = ev.ret_val(Env(b))
            ok = v[0] == "call" and v[1].endswith("Iterator::all") and v[3][1][0] == "closure"
            if ok:
                cb = F.bodies[v[3][1][1]]
                cv = ev.ret_val(Env(cb, {1: v[3][1], 2: ("sym", "x")}, 1))
                ok = cv[0] == "call" and cv[1].endswith("HashSet::insert") and cv[3][1] == ("sym", "x")
                capt = dict(v[3][1][2])
                ok = ok and any(t[0] == "call" and t[1].endswith("HashSet::new") for t in capt.values())
            R.add(rule, config, b.key, "unique⇔all(insert-into-fresh-set)", ok, "" if ok else "uniqueness test is `%s`" % short(v)[:120], b.j["span"])
    # the comma test
    for b in F.bodies.values():
        if b.key.endswith("check_parameter_names::{closure#0}"):
            v = ev.ret_val(Env(b, {2: ("sym", "p")}, 1))
            ok = v[0] == "call" and v[1].endswith("::contains") and contains(v, lambda x: x == ("sym", "p")) and contains(v, lambda x: x[0] == "const" and x[2] == 44)
            R.add(rule, config, b.key, "comma-predicate", ok, "" if ok else "comma test is `%s`" % short(v)[:120], b.j["span"])
    # check_parameter_count
    chk("IncorrectParameterCount", in_fn("check_parameter_count"),
        lambda g, b: rel_edges(g, lambda r: r[0] == "Ne" and any(x[0] == "constitem" and x[1].endswith("ARGUMENT_COUNT") for x in (r[1], r[2]))
                               and any(x[0] == "call" and x[1].endswith("::len") and x[3][0] == ("param", b.key, 1) for x in (r[1], r[2]))),
        "function parameter list length ≠ arity")
    # create_wrapped_basis_function checks names, arity and mapping before wrapping
    for b in F.bodies.values():
        if b.kind != "Closure" and b.key.endswith("create_wrapped_basis_function"):
            g = Guards(ev, b)
            oks = [bi for bi, si, s in b.stmts() if s["k"] == "assign" and s["place"]["l"] == 0 and s["rv"]["k"] == "agg" and s["rv"].get("variant") == "Ok"]
            need = {"names(model)": False, "names(function)": False, "arity": False, "mapping": False}
            for bi in oks:
                rels, raw = g.relations_at(bi)
                for term, vals, sw in raw:
                    if term[0] != "discr" or not isinstance(vals, tuple):
                        continue
                    variants, _, _ = discr_variants(sw.get("body", b), sw["block"])
                    names = dict(variants or [])
                    if not all(names.get(x) == "Continue" for x in vals if x != "otherwise"):
                        continue
                    inner = term[1][1] if term[1][0] == "cf" else term[1]
                    if contains(inner, lambda x: x[0] == "agg" and x[2] == "EmptyParameters"):
                        if contains(inner, lambda x: x == ("param", b.key, 1)) and not contains(inner, lambda x: x == ("param", b.key, 2)):
                            need["names(model)"] = True
                        if contains(inner, lambda x: x == ("param", b.key, 2)) and not contains(inner, lambda x: x == ("param", b.key, 1)):
                            need["names(function)"] = True
                    if contains(inner, lambda x: x[0] == "agg" and x[2] == "IncorrectParameterCount"):
                        need["arity"] = True
                    if contains(inner, lambda x: x[0] == "call" and x[1].endswith("Iterator::position")) or contains(inner, lambda x: x[0] == "closure" and "create_index_mapping" in x[1]):
                        need["mapping"] = True
            for k, v in need.items():
                R.add(rule, config, b.key, "wrapped-fn-needs:" + k, v, "" if v else "a function can be wrapped without the check `%s`" % k, b.j["span"])
    # create_index_mapping: FunctionParameterNotInModel via ok_or_else on position()
    for b, bi, si, s in err_sites(F, "FunctionParameterNotInModel"):
        ok = False
        if b.kind == "Closure":
            parent = F.bodies[b.j["parent"]]
            penv = Env(parent, {2: ("sym", "value")}, 1) if parent.kind == "Closure" else Env(parent)
            for pbi, t in parent.calls():
                if "fn" in t and callee_id(t["fn"]).endswith("Option::ok_or_else"):
                    recv = ev.operand(penv, t["args"][0], (pbi, None))
                    clo = ev.operand(penv, t["args"][1], (pbi, None))
                    if clo[0] == "closure" and clo[1] == b.key and recv[0] == "call" and recv[1].endswith("Iterator::position"):
                        ok = True
        R.add(rule, config, b.key, "only-if:FunctionParameterNotInModel", ok, "" if ok else "error not tied to a failed lookup of the function parameter in the model list", s.get("span"))
    # function builder partial_deriv
    fb_pd = lambda b: b.j.get("impl", {}).get("self_adt") == ADT_FNBUILDER and b.j.get("root", b.key).endswith("partial_deriv")
    chk("InvalidDerivative", fb_pd,
        lambda g, b: variant_switch_edges(g, b, lambda t: contains(t, lambda x: x[0] == "call" and x[1].endswith("Iterator::find")), "None"),
        "derivative for a name that is not a parameter of the function")
    chk("DuplicateDerivative", fb_pd,
        lambda g, b: bool_switch_edges(g, lambda t: t[0] == "is_ok" and contains(t, lambda x: x[0] == "call" and x[1].endswith("HashMap::insert")), True) +
                     bool_switch_edges(g, lambda t: t[0] == "call" and t[1].endswith("::is_some") and contains(t, lambda x: x[0] == "call" and x[1].endswith("HashMap::insert")), True),
        "second derivative for the same parameter")
    # check_completion
    chk("MissingDerivative", lambda b: b.j.get("impl", {}).get("self_adt") == ADT_FNBUILDER,
        lambda g, b: bool_switch_edges(g, lambda t: t[0] == "call" and t[1].endswith("HashMap::contains_key"), False), "a function parameter has no derivative")
    # build() of the function builder runs the completeness check before releasing the function
    for b in inherent_methods(F, ADT_FNBUILDER, "build"):
        v = ev.ret_val(Env(b))
        alts = v[1] if v[0] == "phi" else (v,)
        ok = any(a[0] == "from_residual" for a in alts) and any(a[0] == "field" or a[0] == "mutated" or a[0] == "phi" for a in alts)
        calls = [callee_id(t["fn"]) for _, t in b.calls() if "fn" in t]
        ok = ok and any("check_completion" in c or c.endswith("Try::branch") for c in calls)
        R.add(rule, config, b.key, "function-released-only-after-completeness-check", ok, "" if ok else "function builder build() = `%s`" % short(v)[:160], b.j["span"])
    # SeparableModelBuilder::initial_parameters
    chk("IncorrectParameterCount", lambda b: b.j.get("impl", {}).get("self_adt") == ADT_MBUILDER,
        lambda g, b: rel_edges(g, lambda r: r[0] == "Ne" and any(x[0] == "call" and x[1].endswith("::len") and x[3][0] == ("param", b.key, 2) for x in (r[1], r[2]))
                               and any(x[0] == "call" and x[1].endswith("::len") and contains(x, lambda y: y[0] == "field" and y[2] == "parameter_names") for x in (r[1], r[2]))),
        "initial guess length ≠ number of model parameters")
    # try_into
    ti = lambda b: b.j.get("impl", {}).get("self_adt") == ADT_UNFINISHED and b.j.get("root", b.key).endswith("try_into")
    chk("EmptyModel", ti, lambda g, b: bool_switch_edges(g, lambda t: t[0] == "call" and t[1].endswith("::is_empty") and t[3][0] == ("field", ("param", b.key, 1), "basefunctions"), True), "no basis function")
    chk("UnusedParameter", ti, lambda g, b: bool_switch_edges(g, lambda t: t[0] == "call" and t[1].endswith("Iterator::any") and contains(t, lambda x: x[0] == "field" and x[2] == "basefunctions"), False),
        "a model parameter is used by no function")
    for b in F.bodies.values():
        if ti(b) and b.kind == "Closure":
            v = ev.ret_val(Env(b, {2: ("sym", "function")}, 1))
            ok = v[0] == "call" and v[1].endswith("HashMap::contains_key") and v[3][0] == ("field", ("sym", "function"), "derivatives")
            R.add(rule, config, b.key, "used⇔some-function-has-derivative-key", ok, "" if ok else "usage test is `%s`" % short(v)[:120], b.j["span"])
    for variant, field in (("MissingX", "x_vector"), ("MissingInitialParameters", "initial_parameters")):
        sites = [x for x in err_sites(F, variant) if ti(x[0])]
        if not sites:
            R.bad(rule, config, "-", "missing:" + variant, "missing %s is not reported" % field)
        for b, bi, si, s in sites:
            okc, c = consumed_only_by(b, s["place"]["l"], "Option::ok_or")
            ok = False
            if okc:
                recv = ev.operand(Env(b), c["term"]["args"][0], (c["block"], None))
                ok = recv == ("field", ("param", b.key, 1), field)
            R.add(rule, config, b.key, "only-if:" + variant, ok, "" if ok else "%s not tied to the absence of `%s`" % (variant, field), s.get("span"))
    # Ok(SeparableModel) dominated by all four validations
    for b in F.bodies.values():
        if ti(b) and b.kind != "Closure":
            g = Guards(ev, b)
            me = ("param", b.key, 1)
            for bi, si, s in b.stmts():
                if s["k"] == "assign" and s["rv"]["k"] == "agg" and s["rv"].get("adt") == ADT_SEPMODEL:
                    e1 = bool_switch_edges(g, lambda t: t[0] == "call" and t[1].endswith("::is_empty") and t[3][0] == ("field", me, "basefunctions"), False)
                    ok1 = bool(e1) and g.holds_on_all_paths_to(bi, e1)
                    R.add(rule, config, b.key, "model-needs:function", ok1, "" if ok1 else "a model without basis functions can be built", s.get("span"))
                    # all parameters used: the loop over the names was exhausted (None edge of next) and no Err in between
                    e2 = []
                    for sw in g.switches:
                        t = sw["term"]
                        if t[0] == "discr" and t[1][0] == "opt" and contains(t[1], lambda x: x[0] == "has_next") and contains(t[1], lambda x: x[0] == "field" and x[2] == "parameter_names"):
                            yes, no = variant_edge(b, sw["block"], "None")
                            if yes:
                                e2.append(yes)
                    ok2 = bool(e2) and g.holds_on_all_paths_to(bi, e2)
                    R.add(rule, config, b.key, "model-needs:all-parameters-checked", ok2, "" if ok2 else "the model can be built before every model parameter was checked for use", s.get("span"))
                    v = ev.rvalue(Env(b), s["rv"], (bi, si))
                    f = dict(v[3])
                    okx = ok_of(f.get("x_vector")) == ("field", me, "x_vector")
                    oki = contains(f.get("current_parameters"), lambda x: x == ("payload", ("field", me, "initial_parameters"), "ok", "0"))
                    R.add(rule, config, b.key, "model-needs:x", okx, "" if okx else "x is `%s`" % short(f.get("x_vector"))[:80], s.get("span"))
                    R.add(rule, config, b.key, "model-needs:initial-parameters", oki, "" if oki else "initial parameters are `%s`" % short(f.get("current_parameters"))[:80], s.get("span"))
                    okn = f.get("parameter_names") == ("field", me, "parameter_names") and f.get("basefunctions") == ("field", me, "basefunctions")
                    R.add(rule, config, b.key, "model-keeps-names-and-functions", okn, "" if okn else "names/functions are not carried over unchanged", s.get("span"))
    # ModelBasisFunctionBuilder::new: invalid function parameter names end in Err
    for b in inherent_methods(F, ADT_FNBUILDER, "new"):
        v = ev.ret_val(Env(b))
        alts = v[1] if v[0] == "phi" else (v,)
        ok = len(alts) == 2 and all(a[0] == "agg" and a[1] == ADT_FNBUILDER for a in alts)
        R.add(rule, config, b.key, "new: invalid names ⇒ Err result", ok, "" if ok else "`%s`" % short(v)[:160], b.j["span"])
    R.floor(rule, config, 24, "error sites and success conditions of the eight validating functions")
