"""Model builder rules (C15): typestate transition table, sticky errors, guard tables."""
import copy
from core import *
from flow import consumers
from rules_problem import is_call, ok_of, strip_mut

VARIANTS = ("Error", "Normal", "FunctionBuilding")
ADT_FNBUILDER = "model::builder::modelfunction_builder::ModelBasisFunctionBuilder"
ADT_UNFINISHED = "model::builder::UnfinishedModel"
ADT_BUILDERR = "model::builder::error::ModelBuildError"


def entry_match(body):
    """(switch block, {variant: target}) of the first match on self"""
    for bi in body.rpo():
        t = body.blocks[bi]["term"]
        if t["k"] == "switch":
            variants, adt_, place = discr_variants(body, bi)
            if variants and adt_ == ADT_MBUILDER and place["l"] == 1:
                listed = dict((v, tg) for v, tg in t["targets"])
                return bi, {n: listed.get(v, t["otherwise"]) for v, n in variants}
            if variants and place and place["l"] == 1:
                listed = dict((v, tg) for v, tg in t["targets"])
                return bi, {n: listed.get(v, t["otherwise"]) for v, n in variants}
    return None, None


def variant_set_of(t, method_keys):
    """set of builder variants a term of builder type can have, delegate calls reported as
    ('delegate', method key, receiver term)"""
    out = set()
    dele = []
    alts = t[1] if t[0] == "phi" else (t,)
    for a in alts:
        if a[0] == "agg" and a[1] == ADT_MBUILDER:
            out.add(a[2])
        elif a[0] == "call" and a[4] is not None and len(a[3]) >= 1 and any(a[1] == strip_generics(F_path) for F_path in method_keys):
            dele.append(a)
        elif a[0] in ("unreachable",):
            continue
        else:
            out.add("?" + short(a)[:60])
    return out, dele


def builder_methods(F):
    ms = {}
    for b in inherent_methods(F, ADT_MBUILDER):
        if b.j.get("vis") == "pub" and b.j.get("inputs") and ADT_MBUILDER in b.j["inputs"][0]:
            ms[b.name] = b
    return ms


REFERENCE = {
    # method: {in-state: set of out-states}
    "invariant_function": {"Error": {"Error"}, "Normal": {"Normal"}, "FunctionBuilding": {"Normal", "Error"}},
    "independent_variable": {"Error": {"Error"}, "Normal": {"Normal"}, "FunctionBuilding": {"Normal", "Error"}},
    "function": {"Error": {"Error"}, "Normal": {"FunctionBuilding"}, "FunctionBuilding": {"FunctionBuilding", "Error"}},
    "partial_deriv": {"Error": {"Error"}, "Normal": {"Error"}, "FunctionBuilding": {"FunctionBuilding"}},
    "initial_parameters": {"Error": {"Error"}, "Normal": {"Normal", "Error"}, "FunctionBuilding": {"Normal", "Error"}},
}


def subst(t, old, new):
    if t == old:
        return new
    if isinstance(t, tuple):
        return tuple(subst(x, old, new) if isinstance(x, (tuple, frozenset)) else x for x in t)
    if isinstance(t, frozenset):
        return frozenset(subst(x, old, new) for x in t)
    return t


def finaliser(F):
    """the function that turns (unfinished model, pending function builder) into Result<unfinished model, error>"""
    c = [b for b in F.bodies.values() if b.kind != "Closure" and len(b.j.get("inputs", [])) == 2
         and ADT_UNFINISHED in b.j["inputs"][0] and ADT_FNBUILDER in b.j["inputs"][1]
         and b.j.get("output", "").startswith("std::result::Result<") and ADT_UNFINISHED in b.j.get("output", "")]
    if len(c) != 1:
        raise AnchorMissing("finaliser (UnfinishedModel, ModelBasisFunctionBuilder) -> Result<UnfinishedModel, _>: %d candidates" % len(c))
    return c[0]


def rule_typestate(F, ev_unused, R, config, rule="R-TYPESTATE"):
    """Transition table of the builder, decided by evaluating every public method once per state:
    `self` is replaced by a symbolic aggregate of that state, local helpers, closures and
    self-delegation are inlined, and every `match` on a value whose variant is then known is
    partially evaluated (terms.Eval.inline_env). Where the dispatch on the state sits — in the
    method, in a private helper, behind a closure — does not matter."""
    from rules_panic import nosite
    ms = builder_methods(F)
    for m in list(REFERENCE) + ["build"]:
        if m not in ms:
            R.bad(rule, config, ADT_MBUILDER, "anchor-missing:" + m, "builder method `%s` not found" % m)
    fin = finaliser(F)
    import props
    UR = unfinished_roles(F, props.make_eval(F))
    ev = Eval(F, opaque=set(props.make_eval(F).opaque) | {fin.key})
    fin_cid = strip_generics(fin.j["path"])
    vfields = {v["name"]: [f["name"] for f in v["fields"]] for v in adt(F, ADT_MBUILDER)["variants"]}
    table = {}
    for name, b in ms.items():
        if name not in REFERENCE and name != "build":
            # a new state-changing method: must be reviewed
            if ADT_MBUILDER in b.j.get("output", ""):
                R.bad(rule, config, b.key, "unknown-transition", "builder method `%s` is not in the reviewed transition table" % name, b.j["span"])
            continue
        me = ("param", b.key, 1)
        for v in VARIANTS:
            if v not in vfields:
                R.bad(rule, config, b.key, "arm:" + v, "no state %s" % v, b.j["span"])
                continue
            synth = ("agg", ADT_MBUILDER, v, tuple((f, ("payload", me, v, f)) for f in vfields[v]))
            ev.fresh_ctx()
            args = {1: synth}
            for k in range(2, b.arg_count + 1):
                args[k] = ("param", b.key, k)
            table[(name, v)] = nosite(ev.inline_ret(b, args, 0))

    def alts_of(val):
        return list(val[1]) if val is not None and val[0] == "phi" else ([val] if val is not None else [])

    def states(val):
        out = set()
        for a in alts_of(val):
            if a[0] == "agg" and a[1] == ADT_MBUILDER:
                out.add(a[2])
            elif a[0] == "unreachable":
                continue
            else:
                out.add("?")
        return out

    def pending(b):
        me = ("param", b.key, 1)
        return ("payload", me, "FunctionBuilding", UR["fb_model"]), ("payload", me, "FunctionBuilding", UR["fb_builder"])

    def finalised_forms(b, name, norm_model_term, err_wrap):
        """(ok, msg): the value for the FunctionBuilding state equals the value for the Normal state with the
        model replaced by the Ok payload of finaliser(model, function_builder), plus err_wrap(Err payload)"""
        pm, pf = pending(b)
        val = table.get((name, "FunctionBuilding"))
        X = None
        for x in walk(val) if val is not None else []:
            if x[0] == "call" and x[1] == fin_cid and len(x[3]) == 2 and x[3][0] == pm and x[3][1] == pf:
                X = x
                break
        if X is None:
            return False, "the pending function is not finalised (validated and added to the model) before `%s` is applied" % name
        okp, errp = ("payload", X, "ok", "0"), ("payload", X, "Err", "0")
        want = set(subst(a, norm_model_term, okp) for a in alts_of(table.get((name, "Normal"))))
        want.add(err_wrap(errp))
        got = set(alts_of(val))
        if got == want:
            return True, ""
        extra = [a for a in got if a not in want]
        missing = [a for a in want if a not in got]
        return False, "with a pending function, `%s` does not behave like `finalise the function, then %s`: %s" % (
            name, name, ("unexpected result `%s`" % short(extra[0])[:100]) if extra else ("missing result `%s`" % short(missing[0])[:100]))

    for name in REFERENCE:
        if name not in ms:
            continue
        b = ms[name]
        me = ("param", b.key, 1)
        for v in VARIANTS:
            got = states(table.get((name, v)))
            want = REFERENCE[name][v]
            ok = got == want
            R.add(rule, config, b.key, "%s:%s→%s" % (name, v, "|".join(sorted(want))), ok,
                  "" if ok else "from state %s, %s() can produce state(s) %s; the reviewed table allows %s" % (v, name, sorted(got), sorted(want)), b.j["span"])
        # Error state: payload moved unchanged
        val = table.get((name, "Error"))
        if val is not None:
            ok = val == ("agg", ADT_MBUILDER, "Error", (("0", ("payload", me, "Error", "0")),))
            R.add(rule, config, b.key, name + ":error-payload-unchanged", ok, "" if ok else "Error state is rewritten: `%s`" % short(val)[:120], b.j["span"])
        # FunctionBuilding state of finalising methods
        if name != "partial_deriv":
            ok, msg = finalised_forms(b, name, ("payload", me, "Normal", "0"), lambda e: ("agg", ADT_MBUILDER, "Error", (("0", e),)))
            R.add(rule, config, b.key, name + ":finalises-pending-function-then-retries", ok, msg, b.j["span"])
    # the two value setters store exactly what they are given: in the Normal state every Normal result is the same unfinished
    # model with the setter's own optional role replaced by Some(argument) — a later call overrides an earlier one, nothing
    # else changes (`get_or_insert` instead of an assignment would keep the first value)
    for name, role in (("initial_parameters", UR["u_init"]), ("independent_variable", UR["u_x"])):
        if name not in ms:
            continue
        b = ms[name]
        me = ("param", b.key, 1)
        arg = ("param", b.key, 2)
        base = ("payload", me, "Normal", "0")
        normals = [a for a in alts_of(table.get((name, "Normal"))) if a[0] == "agg" and a[1] == ADT_MBUILDER and a[2] == "Normal"]
        ok, msg = bool(normals), "no Normal result"
        for a in normals:
            fv = struct_view(F, a[3][0][1], ADT_UNFINISHED)
            if fv is None:
                ok, msg = False, "the resulting model is `%s`" % short(a[3][0][1])[:100]
                break
            for fn_, val in fv.items():
                if fn_ == role:
                    good = (val[0] == "opt" and val[1] == arg and not val[2]) or (val[0] == "agg" and val[2] == "Some" and val[3][0][1] == arg)
                    if not good:
                        ok, msg = False, "`%s` is set to `%s`, not to Some(the given value)" % (fn_, short(val)[:80])
                elif val != ("field", base, fn_):
                    ok, msg = False, "`%s` changes as well: `%s`" % (fn_, short(val)[:80])
        R.add(rule, config, b.key, name + ":stores-the-given-value", ok, "" if ok else "%s(): %s" % (name, msg), b.j["span"])
    # function(): Normal arm starts a function builder on this model
    if "function" in ms:
        b = ms["function"]
        val = table.get(("function", "Normal"))
        me = ("param", b.key, 1)
        ok = False
        if val and val[0] == "agg" and val[2] == "FunctionBuilding":
            f = dict(val[3])
            ok = f.get(UR["fb_model"]) == ("payload", me, "Normal", "0")
        R.add(rule, config, b.key, "function:keeps-the-model", ok, "" if ok else "function() does not carry the unfinished model over", b.j["span"])
    if "partial_deriv" in ms:
        b = ms["partial_deriv"]
        val = table.get(("partial_deriv", "FunctionBuilding"))
        me = ("param", b.key, 1)
        ok = False
        if val and val[0] == "agg" and val[2] == "FunctionBuilding":
            f = dict(val[3])
            ok = f.get(UR["fb_model"]) == ("payload", me, "FunctionBuilding", UR["fb_model"])
        R.add(rule, config, b.key, "partial_deriv:keeps-the-model", ok, "" if ok else "partial_deriv() does not carry the unfinished model over", b.j["span"])
        val = table.get(("partial_deriv", "Normal"))
        ok = val is not None and val[0] == "agg" and val[2] == "Error" and val[3][0][1][0] == "agg" and val[3][0][1][2] == "IllegalCallToPartialDeriv"
        R.add(rule, config, b.key, "partial_deriv:Normal→IllegalCall", ok, "" if ok else "a derivative given without a preceding function yields `%s`" % (short(val)[:100] if val else None), b.j["span"])
    # build()
    if "build" in ms:
        b = ms["build"]
        me = ("param", b.key, 1)
        val = table.get(("build", "Error"))
        ok = val == ("agg", "std::result::Result", "Err", (("0", ("payload", me, "Error", "0")),))
        R.add(rule, config, b.key, "build:Error→Err(payload)", ok, "" if ok else "build() on an errored builder returns `%s`" % (short(val)[:120] if val else None), b.j["span"])
        def ok_payloads(val):
            out = set()
            for a in alts_of(val):
                if a[0] == "agg" and a[2] == "Ok":
                    out.add(a[3][0][1])
                elif a[0] == "opt":
                    for x in alts_of(a[1]):
                        if x[0] == "opt":
                            x = x[1]
                        out.add(x)
            return out
        val = table.get(("build", "Normal"))
        oks = list(ok_payloads(val))
        ok = len(oks) == 1 and oks[0][0] == "agg" and oks[0][1] == ADT_SEPMODEL
        R.add(rule, config, b.key, "build:Normal→validated-model", ok, "" if ok else "build() on a Normal builder: `%s`" % (short(val)[:120] if val else None), b.j["span"])
        # Result values: the Ok payloads must be those of the Normal state on the finalised model (the error side
        # may be expressed with combinators, which keep presence but not the Err payload in this term language)
        pm, pf = pending(b)
        fbv = table.get(("build", "FunctionBuilding"))
        X = next((x for x in (walk(fbv) if fbv is not None else []) if x[0] == "call" and x[1] == fin_cid and len(x[3]) == 2 and x[3][0] == pm and x[3][1] == pf), None)
        ok, msg = False, "the pending function is not finalised"
        if X is not None:
            want = set(subst(p_, ("payload", me, "Normal", "0"), ("payload", X, "ok", "0")) for p_ in ok_payloads(table.get(("build", "Normal"))))
            got = ok_payloads(fbv)
            ok = bool(want) and want == got
            msg = "" if ok else "the model built with a pending function is not the validated model of `finalise, then build`: `%s`" % (short(next(iter(got - want or got or [("none",)])))[:120])
            # no success without the finaliser having succeeded
            for a in alts_of(fbv):
                if a[0] == "agg" and a[2] == "Ok" and not contains(a, lambda y: y == ("payload", X, "ok", "0")):
                    ok, msg = False, "Ok(model) that does not derive from the finalised model"
        R.add(rule, config, b.key, "build:FunctionBuilding→finalise-then-validate", ok,
              "" if ok else "build() with a pending function does not finalise it before validating the model: " + msg, b.j["span"])
    # new(): invalid names -> Error
    news = [b for b in inherent_methods(F, ADT_MBUILDER, "new")]
    for b in news:
        ev2 = Eval(F)
        v = ev2.ret_val(Env(b))
        alts = v[1] if v[0] == "phi" else (v,)
        vs_ = set(a[2] for a in alts if a[0] == "agg" and a[1] == ADT_MBUILDER)
        ok = vs_ == {"Error", "Normal"}
        R.add(rule, config, b.key, "new→Normal|Error", ok, "" if ok else "new() yields states %s" % sorted(vs_), b.j["span"])
        # Normal only if check_parameter_names returned Ok
        g = Guards(ev2, b)
        for bi, si, s in b.stmts():
            if s["k"] == "assign" and s["rv"]["k"] == "agg" and s["rv"].get("adt") == ADT_UNFINISHED:
                rels, raw = g.relations_at(bi)
                okk = False
                for term, vals, sw in raw:
                    if term[0] == "discr" and isinstance(vals, tuple):
                        variants, _, _ = discr_variants(sw.get("body", b), sw["block"])
                        names = dict(variants or [])
                        if all(names.get(x) == "Ok" for x in vals if x != "otherwise") and contains(term, lambda y: y[0] == "agg" and y[1] == ADT_BUILDERR):
                            okk = True
                R.add(rule, config, b.key, "new:Normal-needs-valid-names", okk, "" if okk else "the unfinished model is created without the parameter-name check having passed", s.get("span"))
    R.floor(rule, config, 28, "5 methods × (3 transitions + payload) + delegation + build + new")


def rule_fn_result_sticky(F, ev, R, config, rule="R-FN-RESULT-STICKY"):
    fs = struct_fields(F, ADT_FNBUILDER)
    rf = [f["name"] for f in fs if f["ty"].startswith("std::result::Result<")]
    if len(rf) != 1:
        raise AnchorMissing("function builder result role")
    rf = rf[0]
    n = 0
    for b in inherent_methods(F, ADT_FNBUILDER):
        if b.name in ("new",):
            continue
        if not (b.j.get("inputs") and ADT_FNBUILDER in b.j["inputs"][0]):
            continue
        env = Env(b)
        for bi, si, s in b.stmts():
            if s["k"] != "assign":
                continue
            p = s["place"]
            fsn = [e for e in p["proj"] if e["k"] == "field" and e.get("owner") == ADT_FNBUILDER]
            if fsn and fsn[0]["name"] == rf and len([e for e in p["proj"] if e["k"] in ("field", "downcast")]) == 1:
                n += 1
                v = ev.rvalue(env, s["rv"], (bi, si))
                ok = v[0] == "agg" and v[2] == "Err"
                R.add(rule, config, b.key, "result-write-is-Err", ok, "" if ok else "the recorded function result is overwritten with `%s`: an earlier error can be turned into Ok" % short(v)[:100], s.get("span"))
            if s["rv"]["k"] == "agg" and s["rv"].get("adt") == ADT_FNBUILDER:
                n += 1
                v = ev.rvalue(env, s["rv"], (bi, si))
                r = dict(v[3]).get(rf)
                ok = (r[0] == "agg" and r[2] == "Err") or r == ("field", ("param", b.key, 1), rf) or (strip_mut(r)[0] == ("field", ("param", b.key, 1), rf))
                R.add(rule, config, b.key, "rebuilt-with-Err-or-same", ok, "" if ok else "builder rebuilt with result `%s`" % short(r)[:100], s.get("span"))
    # a failure of the wrapper construction for a derivative must be RECORDED in the builder's result
    # (not dropped): every path from the Err edge of that call's result to the return writes Err(that error)
    try:
        from rules_model import wrapper_fn
        W = wrapper_fn(F)
    except AnchorMissing:
        W = None
    for b in inherent_methods(F, ADT_FNBUILDER):
        if W is None or not (b.j.get("inputs") and ADT_FNBUILDER in b.j["inputs"][0]):
            continue
        env = Env(b)
        ev_outer, ev = ev, Eval(F, opaque=set(ev.opaque) | {W.key})   # the wrapper constructor stays symbolic here
        for wbi, wt in b.calls():
            if not ("fn" in wt and (wt["fn"].get("resolved_key") or wt["fn"].get("key")) == W.key):
                continue
            n += 1
            wterm = ev.call_val(env, wbi)
            # blocks that record an error deriving from this call
            rec_blocks = set()
            whole_blocks = set()
            for bi, si, s in b.stmts():
                if s["k"] != "assign":
                    continue
                fsn = [e for e in s["place"]["proj"] if e["k"] == "field" and e.get("owner") == ADT_FNBUILDER and e["name"] == rf]
                if fsn and len([e for e in s["place"]["proj"] if e["k"] in ("field", "downcast")]) == 1:
                    v = ev.rvalue(env, s["rv"], (bi, si))
                    if v[0] == "agg" and v[2] == "Err" and contains(v, lambda x: x[0] == "payload" and x[1] == wterm and x[2] == "Err"):
                        rec_blocks.add(bi)
                    elif contains(v, lambda x: x == wterm):
                        whole_blocks.add(bi)
            # discriminant tests of the call's result (followed through moves and tuples)
            tracked = {(wt["dest"]["l"], ())}
            changed = True
            while changed:
                changed = False
                for bi, si, s in b.stmts():
                    if s["k"] != "assign" or s["place"]["proj"]:
                        continue
                    rv = s["rv"]
                    if rv["k"] == "use" and rv["op"]["k"] in ("copy", "move"):
                        src = (rv["op"]["place"]["l"], proj_key(rv["op"]["place"]["proj"]))
                        if src in tracked and (s["place"]["l"], ()) not in tracked:
                            tracked.add((s["place"]["l"], ()))
                            changed = True
                    if rv["k"] == "agg" and rv["agg"] == "tuple":
                        for i, o in enumerate(rv["ops"]):
                            if o["k"] in ("copy", "move") and (o["place"]["l"], proj_key(o["place"]["proj"])) in tracked:
                                k2 = (s["place"]["l"], (("field", str(i)),))
                                if k2 not in tracked:
                                    tracked.add(k2)
                                    changed = True
            err_targets = []
            for (sb, si, pk, variants) in b.discr_switches():
                if (pk[0], tuple(e for e in pk[1] if e != ("deref",))) in tracked:
                    yes, no = variant_edge(b, sb, "Err")
                    if yes:
                        err_targets.extend(yes)
            ok = False
            msg = "the error of wrapping a derivative is neither tested nor stored (undetermined)"
            # paths on which the builder ALREADY holds an error (the Err edge of a test of its own result role) need not
            # record a second one: the first error is kept
            already = set()
            me_ = ("param", b.key, 1)
            for (sb, si, pk, variants) in b.discr_switches():
                try:
                    v = ev.lookup(env, pk, (sb, si))
                except RecursionError:
                    continue
                while True:
                    if v[0] == "mutated":
                        v = v[1]
                    elif v[0] == "call" and v[1].rsplit("::", 1)[-1] in ("as_mut", "as_ref") and v[3]:
                        v = v[3][0]
                    elif v[0] == "field" and v[2] in ("0", "1", "2") and v[1][0] == "tuple":
                        v = v[1][1][int(v[2])]
                    else:
                        break
                if v == ("field", me_, rf):
                    yes, no = variant_edge(b, sb, "Err")
                    already |= set(yes or ())
            # only Err edges that can be taken at all before the error was recorded and while the builder is still Ok count:
            # drop elaboration re-tests the discriminant after the arms have run — on the path through the Ok arm such a
            # re-test is decided (jump threading), on the other paths the error is recorded or the builder had failed before
            import tab as _tab
            try:
                th_ = _tab.jump_threads(ev, env)
            except RecursionError:
                th_ = {}
            taken = set()
            _tab.reachable_threaded(b, 0, rec_blocks, th_, avoid_edges=already, edges_out=taken)
            err_targets = [(u, tg) for (u, tg) in err_targets if (u, tg) in taken]
            if not err_targets and (already or rec_blocks):
                ok = bool(rec_blocks)
                msg = "the error of wrapping a derivative is tested but never recorded"
            if err_targets:
                ok = True
                for (u, tg) in err_targets:
                    r = _tab.reachable_threaded(b, tg, rec_blocks, th_, avoid_edges=already) if tg not in rec_blocks else set()
                    if any(x in r for x in b.exits()):
                        ok = False
                        msg = ("a failed derivative (wrong arity, unknown parameter name) is dropped: a path from the Err result of the wrapper "
                               "construction reaches the return without recording that error in the builder")
            elif whole_blocks:
                ok = True
            R.add(rule, config, b.key, "wrapper-error-recorded", ok, "" if ok else msg, wt.get("span"))
        ev = ev_outer
    R.floor(rule, config, 3, "at least one Err write, the rebuild and the recorded wrapper error in partial_deriv (pinned tree: 2 + 1 + 1)")


# --------------------------------------------------------------------------- #
# guard tables (on quantified guard formulas, see logic.py)
# --------------------------------------------------------------------------- #
def unfinished_roles(F, ev):
    """fields of UnfinishedModel / SeparableModel / ModelBasisFunction / the FunctionBuilding state by TYPE and USE, so
    that renaming private fields does not matter: {"u_names","u_functions","u_x","u_init","s_names","s_functions","s_x",
    "s_params","derivs","fb_model","fb_builder"}"""
    from rules_model import sepmodel_roles
    sm = sepmodel_roles(F, ev)
    r = {"s_names": sm["names"], "s_functions": sm["functions"], "s_x": sm["x"], "s_params": sm["params"], "derivs": sm["derivs"], "fn": sm["fn"]}
    fs = struct_fields(F, ADT_UNFINISHED)
    nv = [f["name"] for f in fs if f["ty"].startswith("std::vec::Vec<std::string::String")]
    fv = [f["name"] for f in fs if f["ty"].startswith("std::vec::Vec<") and "ModelBasisFunction" in f["ty"]]
    ov = [f["name"] for f in fs if f["ty"].startswith("std::option::Option<")]
    if len(nv) != 1 or len(fv) != 1 or len(ov) != 2:
        raise AnchorMissing("UnfinishedModel roles: names=%s functions=%s optionals=%s" % (nv, fv, ov))
    r["u_names"], r["u_functions"] = nv[0], fv[0]
    # x / initial guess: which optional field flows into which role of the built SeparableModel
    for x in F.bodies.values():
        if str(x.j.get("impl", {}).get("trait", "")).startswith("std::clone") or str(x.j.get("impl", {}).get("trait", "")).startswith("std::fmt"):
            continue
        for bi, si, st in x.stmts():
            if st["k"] == "assign" and st["rv"]["k"] == "agg" and st["rv"].get("adt") == ADT_SEPMODEL:
                v = ev.rvalue(Env(x), st["rv"], (bi, si))
                f = dict(v[3])
                for role, fld in (("u_x", sm["x"]), ("u_init", sm["params"])):
                    hit = [o for o in ov if contains(f.get(fld), lambda y: y[0] == "field" and y[2] == o and y[1][0] == "param")]
                    if len(hit) == 1:
                        r[role] = hit[0]
    if "u_x" not in r or "u_init" not in r or r["u_x"] == r["u_init"]:
        raise AnchorMissing("UnfinishedModel x / initial-parameter roles not resolved: %s" % {k: r.get(k) for k in ("u_x", "u_init")})
    for v in adt(F, ADT_MBUILDER)["variants"]:
        if v["name"] == "FunctionBuilding":
            for f in v["fields"]:
                if ADT_UNFINISHED in f["ty"]:
                    r["fb_model"] = f["name"]
                elif ADT_FNBUILDER in f["ty"]:
                    r["fb_builder"] = f["name"]
    if "fb_model" not in r or "fb_builder" not in r:
        raise AnchorMissing("FunctionBuilding state fields")
    return r


def analysis_units(F, no_inline):
    """compatibility shim: no MIR-level merging for the guard tables (a helper returning Option/Result/bool would lose
    the correlation between its return paths and the caller's test at the join) — private helpers are instead
    analysed in every CALLING CONTEXT, see helper_contexts"""
    return {}, {}


def helper_contexts(F, ev):
    """{private helper key: [env]}: the environments (arguments bound to the caller's terms, parent chain up to a function
    with a stable name) in which each private helper runs, collected by effects.iteration_effects(enters=True)"""
    from effects import iteration_effects
    ctx = {}
    for b in F.bodies.values():
        if b.kind == "Closure":
            continue
        if stable_name(b) or not (local_callers(F).get(b.key, set()) - {b.key}):
            try:
                for e in iteration_effects(ev, Env(b), enters=True):
                    if e.kind == "enter" and e.env.depth > 0 and e.body.kind != "Closure" and not stable_name(F.bodies.get(e.body.key, e.body)):
                        ctx.setdefault(e.body.key, []).append(e.env)
            except RecursionError:
                pass
    return ctx


def err_sites(F, variant, units=None, helper_units=None):
    out = []
    if units is None:
        bodies = list(F.bodies.values())
    else:
        bodies = list(units.values()) + [b for b in F.bodies.values() if b.kind == "Closure"] + \
            [b for b in F.bodies.values() if b.kind != "Closure" and b.key not in units and b.key not in (helper_units or {})]
    for b in bodies:
        for bi, si, s in b.stmts():
            if s["k"] == "assign" and s["rv"]["k"] == "agg" and s["rv"].get("adt") == ADT_BUILDERR and s["rv"].get("variant") == variant:
                if b.j.get("impl", {}).get("trait") in ("std::clone::Clone", "std::fmt::Debug", "std::fmt::Display", "std::cmp::PartialEq"):
                    continue
                out.append((b, bi, si, s))
    return out


def conj_find(conds, pred, under_exists=True):
    """a conjunct (possibly under ∃ / inside ∧) satisfying pred"""
    st = list(conds)
    while st:
        f = st.pop()
        if pred(f):
            return f
        if f[0] == "and":
            st.extend(f[1])
        elif f[0] == "exists" and under_exists:
            st.append(f[2])
    return None


def atom_call(f, suffix, positive=True):
    """f is (¬)atom(call …suffix) with the given polarity -> the call term"""
    if positive and f[0] == "atom" and f[1][0] == "call" and f[1][1].endswith(suffix):
        return f[1]
    if not positive and f[0] == "not" and f[1][0] == "atom" and f[1][1][0] == "call" and f[1][1][1].endswith(suffix):
        return f[1][1]
    return None


UNITS = None   # (units, helper_units) of the rule currently running (set by rule_build_guards)


def closure_env_chain(F, ev, b):
    """[(body, env)] from the root function down to closure `b`, every closure's captures resolved
    in its creator; the iterated argument of a closure is the placeholder ('elem', ('closure-arg', key))"""
    chain = []
    x = b
    while x.kind == "Closure":
        chain.append(x)
        x = F.bodies[x.j["parent"]]
    if UNITS is not None:
        # the function that creates the closure is analysed with its private helpers merged in; a closure created in such
        # a helper is created by the (copied) statement in the merged unit
        if x.key in UNITS[0]:
            x = UNITS[0][x.key]
        elif x.key in UNITS[1]:
            x = UNITS[0][UNITS[1][x.key][0]]
    env = Env(x)
    out = [(x, env)]
    for c in reversed(chain):
        ct = closure_terms_in(ev, env).get(c.key)
        args = {2: ("elem", ("closure-arg", c.key))}
        if ct is not None:
            args[1] = ct
        env = Env(c, args, env.depth + 1)
        out.append((c, env))
    return out


def quantify_loop_conditions(L, body, env, block, conds):
    """a site inside a `for` loop (or reached only by leaving it early): the conditions that mention the loop's element
    hold for SOME element — wrap them in ∃ over the loop's domain, so that the loop form of a search and the
    `iter().find/any` form give the same formula"""
    import logic
    out = list(conds)
    for it in L.search_loops_of(body, env, block):
        dom = logic.nosite(logic.canon_domain(it))
        hit = [f for f in out if logic.mentions(f, lambda x: x in (("item", dom), ("idx", dom)))]
        if hit:
            rest = [f for f in out if f not in hit]
            out = rest + [("exists", dom, logic.f_and(hit))]
    return out


def site_conditions(F, ev, L, b, bi):
    """guard formulas at a construction site; a site inside a closure handed to
    `ok_or_else` / `unwrap_or_else` additionally has `the receiver is absent`"""
    if b.kind != "Closure":
        e0 = Env(b)
        return quantify_loop_conditions(L, b, e0, bi, L.conditions_at(b, e0, bi)), e0
    chain = closure_env_chain(F, ev, b)
    conds = []
    for (parent, penv), (child, cenv) in zip(chain, chain[1:]):
        for pbi, t in parent.calls():
            if "fn" in t and callee_id(t["fn"]).rsplit("::", 1)[-1] in ("ok_or_else", "unwrap_or_else", "or_else") and len(t["args"]) == 2:
                clo = ev.operand(penv, t["args"][1], (pbi, None))
                if clo[0] == "closure" and clo[1] == child.key:
                    recv = ev.operand(penv, t["args"][0], (pbi, None))
                    conds.append(L.of_option(recv, False))
                    conds.extend(L.conditions_at(parent, penv, pbi))
    cenv = chain[-1][1]
    conds.extend(L.conditions_at(b, cenv, bi))
    return conds, cenv


def rule_build_guards(F, ev_unused, R, config, rule="R-BUILD-GUARDS"):
    import logic
    boolfns = [k for k, b in F.bodies.items() if b.kind != "Closure" and b.j.get("output") == "bool"]
    ev = Eval(F, opaque=[b.key for b in builder_methods(F).values()] + boolfns)
    L = logic.Logic(ev)
    import props
    UR = unfinished_roles(F, props.make_eval(F))
    global UNITS
    units, helper_units = analysis_units(F, ev.opaque)
    UNITS = (units, helper_units)
    HCTX = helper_contexts(F, ev)
    CUR_ROOT = [None]

    def root_of(b):
        """the analysed function a site belongs to (for a private helper judged in a calling context: the function with a
        stable name at the top of that call chain)"""
        if CUR_ROOT[0] is not None:
            return CUR_ROOT[0]
        k = b.j.get("root", b.key) if b.kind == "Closure" else b.key
        if k in units:
            return units[k]
        if k in helper_units:
            return units[helper_units[k][0]]
        return F.bodies.get(k, b)

    def in_fn(name):
        return lambda b: b.j.get("root", b.key).endswith(name)

    # sites are found by the error variant they construct, wherever that happens (helpers may be renamed, split or inlined)
    ANY = lambda b: True

    def chk(variant, fn_pred, matcher, what, minimum=1):
        def owner(sb):
            """the function a site is attributed to when deciding WHICH table row it belongs to: for a private helper the
            function with a stable name at the top of its (first) calling context"""
            if sb.kind != "Closure" and not stable_name(sb) and HCTX.get(sb.key):
                x = HCTX[sb.key][0]
                while getattr(x, "parent", None) is not None:
                    x = x.parent
                return F.bodies.get(x.body.key, x.body)
            return sb
        sites = [x for x in err_sites(F, variant, units, helper_units) if fn_pred(owner(x[0]))]
        if len(sites) < minimum:
            R.bad(rule, config, "-", "missing:" + variant, "error `%s` (%s) is never produced where expected: the defect is not detected" % (variant, what))
        def eager(bd, env, s):
            """an error built eagerly as the argument of `recv.ok_or(E)` is returned only when recv is absent"""
            if s["place"]["proj"]:
                return []
            only_if = returned_only_if(ev, bd, env, s["place"]["l"])
            return [L.of_term(t_, tr) for t_, tr in (only_if or [])]

        def lifted(sites):
            """a private helper that only constructs the error value (`fn mismatch(a, b) -> Error { Error::X { a, b } }`)
            is not where the decision is taken: the site is its call, in every calling context"""
            out = []
            for b, bi, si, s in sites:
                ctxs = HCTX.get(b.key, []) if (b.kind != "Closure" and not stable_name(b)) else []
                if ctxs and unconditional_constructor(b, bi) and all(c.parent is not None and c.path for c in ctxs):
                    seen = set()
                    for c in ctxs:
                        pk, pblk = c.path[-1]
                        if (pk, pblk) in seen:
                            continue
                        seen.add((pk, pblk))
                        pb = F.bodies.get(pk, c.parent.body)
                        t_ = pb.blocks[pblk]["term"] if pblk < len(pb.blocks) else None
                        if t_ is None or t_["k"] != "call":
                            out.append((b, bi, si, s))
                            break
                        out.extend(lifted([(pb, pblk, None, {"place": t_["dest"], "span": t_.get("span") or s.get("span")})]))
                else:
                    out.append((b, bi, si, s))
            return out
        sites = lifted(sites)
        for b, bi, si, s in sites:
            ok = False
            ctxs = HCTX.get(b.key, []) if (b.kind != "Closure" and not stable_name(b)) else []
            own_ok = False
            if ctxs:
                # first in the helper's own terms (a validator taking the value to validate as `self`)
                conds, env = site_conditions(F, ev, L, b, bi)
                conds = conds + eager(b, env, s)
                try:
                    own_ok = bool(matcher(conds, b, env, s))
                except Exception:
                    own_ok = False
            if own_ok:
                ok = True
            elif ctxs:
                # a private helper: the site is judged in every calling context (arguments in the caller's terms, plus
                # the conditions under which each call on the chain happens); all contexts must agree
                ok = True
                conds = []
                for cenv in ctxs[:8]:
                    cs = []
                    x, blk, bd = cenv, bi, cenv.body
                    top = cenv
                    while x is not None:
                        if blk < len(bd.blocks) and blk in bd.live_blocks():
                            cs.extend(quantify_loop_conditions(L, bd, x, blk, L.conditions_at(bd, x, blk)))
                            if x is cenv:
                                cs.extend(eager(bd, x, s))
                        par = getattr(x, "parent", None)
                        if par is None or not x.path:
                            top = x
                            break
                        blk = x.path[-1][1]
                        x, bd = par, par.body
                        top = x
                    CUR_ROOT[0] = F.bodies.get(top.body.key, top.body)
                    try:
                        if not bool(matcher(cs, b, cenv, s)):
                            ok = False
                            conds = cs
                    except Exception:
                        ok = False
                        conds = cs
                    finally:
                        CUR_ROOT[0] = None
                    if ok:
                        conds = cs
            else:
                conds, env = site_conditions(F, ev, L, b, bi)
                conds = conds + eager(b, env, s)
                try:
                    ok = bool(matcher(conds, b, env, s))
                except Exception:
                    ok = False
            R.add(rule, config, b.key, "only-if:%s" % variant, ok,
                  "" if ok else "Err(%s) can be produced although the specification is not defective in that way (%s); conditions at the site: %s"
                  % (variant, what, "; ".join(logic.show_f(c)[:90] for c in conds)[:400]), s.get("span"))

    P1 = lambda b: ("param", b.key, 1)
    P2 = lambda b: ("param", b.key, 2)
    from rules_panic import nosite

    # --- check_parameter_names -------------------------------------------------------
    def names_list(x, b):
        """the checked name list: the function's list argument, or a Vec<String> field of the value being validated"""
        rb = root_of(b)
        return x == P1(b) or x == P1(rb) or (x[0] == "field" and x[1] == P1(rb) and "name" in x[2])
    chk("EmptyParameters", ANY,
        lambda c, b, e, s: conj_find(c, lambda f: (lambda t: t is not None and names_list(t[3][0], b))(atom_call(f, "::is_empty", True))),
        "name list empty")
    chk("CommaInParameterNameNotAllowed", ANY,
        lambda c, b, e, s: conj_find(c, lambda f: f[0] == "exists" and f[1] == P1(b) and logic.mentions(f[2], lambda x: x[0] == "call" and x[1].endswith("::contains"))
                                      and logic.mentions(f[2], lambda x: x[0] == "const" and x[2] == 44) and f[2][0] != "not", under_exists=False),
        "a name contains a comma")
    chk("DuplicateParameterNames", ANY,
        lambda c, b, e, s: conj_find(c, lambda f: f[0] == "exists" and f[1] == P1(b) and f[2][0] == "not" and
                                      atom_call(f[2][1], "HashSet::insert", True) is not None, under_exists=False),
        "names not unique")
    # --- check_parameter_count ---------------------------------------------------------
    def arity_ne(c, b, e, s):
        # the list whose length is compared with the arity is the FUNCTION's parameter list: the only list argument
        # of a dedicated helper, or — when the check sits in the wrapper constructor itself — its second argument
        rb = root_of(b)
        sl = [("param", rb.key, i + 1) for i, ty in enumerate(rb.j.get("inputs", [])) if ty.startswith("&[")]
        lists = sl if len(sl) == 1 else []
        try:
            from rules_model import wrapper_fn
            if wrapper_fn(F).key == rb.key:
                lists = [P2(rb)]
        except AnchorMissing:
            pass
        return conj_find(c, lambda f: f[0] == "rel" and f[1] == "Ne" and
                         any(x[0] == "constitem" and x[1].endswith("ARGUMENT_COUNT") for x in (f[2], f[3])) and
                         any(x[0] == "call" and x[1].endswith("::len") and x[3][0] in lists for x in (f[2], f[3])))
    chk("IncorrectParameterCount", lambda b: root_of(b).j.get("impl", {}).get("self_adt") != ADT_MBUILDER, arity_ne, "function parameter list length ≠ arity")
    # --- create_index_mapping ------------------------------------------------------------
    def not_in_model(c, b, e, s):
        root = root_of(b)
        full = ("param", root.key, 1)
        return conj_find(c, lambda f: f[0] == "forall" and f[1] == full and f[2][0] == "rel" and f[2][1] == "Ne" and ("item", full) in (f[2][2], f[2][3]))
    chk("FunctionParameterNotInModel", ANY, not_in_model, "a function parameter is not a model parameter")
    # --- function builder: partial_deriv ---------------------------------------------------
    fb = lambda b: b.j.get("impl", {}).get("self_adt") == ADT_FNBUILDER or (b.kind == "Closure" and ADT_FNBUILDER in b.j.get("root", ""))
    def invalid_deriv(c, b, e, s):
        # ∀ m∈model_parameters. ¬(contains(function_parameters, m) ∧ m == parameter)
        rb0 = root_of(b)
        name0 = P2(rb0)
        from rules_model import fnbuilder_list_roles
        mrole0, frole0 = fnbuilder_list_roles(F, ev)

        def ok(f):
            """∀ m∈D. (m ∉ X₁ ∨ … ∨ m ≠ name) with string (in)equality as the only test of the name, and the function's
            own parameter list among D, X₁, … (so that the formula implies: the name is not a parameter of the function)"""
            if f[0] != "forall":
                return False
            dom = f[1]
            if not (dom[0] == "field" and dom[1] == P1(rb0)):
                return False
            it = ("item", dom)
            lists = {dom[2]}
            ds = f[2][1] if f[2][0] == "or" else (f[2],)
            n_ne = 0
            for d in ds:
                if d[0] == "rel" and d[1] == "Ne" and set((d[2], d[3])) == {it, name0}:
                    n_ne += 1
                    continue
                X = None
                if d[0] == "forall" and d[2][0] == "rel" and d[2][1] == "Ne" and set((d[2][2], d[2][3])) == {("item", d[1]), it}:
                    X = d[1]
                elif d[0] == "not" and d[1][0] == "exists" and d[1][2][0] == "rel" and d[1][2][1] == "Eq" and set((d[1][2][2], d[1][2][3])) == {("item", d[1][1]), it}:
                    X = d[1][1]
                else:
                    t = atom_call(d, "::contains", False)
                    # only the standard library's element membership test: a method of the same name brought in by a local
                    # trait (which method resolution prefers at the auto-ref step) is a different function
                    std_contains = t is not None and t[1].startswith(("core::slice", "std::vec::Vec", "alloc::vec::Vec", "std::slice", "alloc::slice")) \
                        and not any(strip_generics(x.j.get("path", "")) == t[1] for x in F.bodies.values())
                    if std_contains and len(t[3]) == 2 and t[3][1] == it and "str::" not in t[1]:
                        X = t[3][0]
                if X is None or not (X[0] == "field" and X[1] == P1(rb0)):
                    return False
                lists.add(X[2])
            return n_ne >= 1 and frole0 in lists and lists <= {mrole0, frole0}
        hit = conj_find(c, ok, under_exists=False)
        if __import__("os").environ.get("VP_DBG"):
            print("DBG invalid_deriv", bool(hit), [logic.show_f(f)[:400] for f in c])
        if hit:
            return hit
        # equivalent disjunctive form (e.g. a lookup helper that first tests membership in the function's list and
        # then searches the model list):  (the name is not in the function's parameters) ∨ (the name is not in the model's)
        rb = root_of(b)
        name = P2(rb)

        def not_in(f):
            """the collection X such that f says `name ∉ X`, else None"""
            if f[0] == "forall" and f[2][0] == "rel" and f[2][1] == "Ne" and name in (f[2][2], f[2][3]) and ("item", f[1]) in (f[2][2], f[2][3]):
                return f[1]
            if f[0] == "not" and f[1][0] == "exists" and f[1][2][0] == "rel" and f[1][2][1] == "Eq" and name in (f[1][2][2], f[1][2][3]) and ("item", f[1][1]) in (f[1][2][2], f[1][2][3]):
                return f[1][1]
            t = atom_call(f, "::contains", False)
            if t is not None and len(t[3]) == 2 and t[3][1] == name:
                return t[3][0]
            return None

        def ok2(f):
            if f[0] != "or":
                return False
            xs = [not_in(d) for d in f[1]]
            if any(x is None for x in xs):
                return False
            fields = set(x[2] for x in xs if x[0] == "field" and x[1] == P1(rb))
            from rules_model import fnbuilder_list_roles
            mrole, frole = fnbuilder_list_roles(F, ev)
            return len(fields) == len(xs) and frole in fields and fields <= {mrole, frole}
        return conj_find(c, ok2, under_exists=False)
    chk("InvalidDerivative", fb, invalid_deriv,
        "derivative for a name that is not a parameter of the function")
    chk("DuplicateDerivative", fb,
        lambda c, b, e, s: conj_find(c, lambda f: f[0] == "atom" and f[1][0] == "present" and f[1][1][0] == "call" and f[1][1][1].endswith("HashMap::insert")),
        "second derivative for the same parameter")
    chk("MissingDerivative", fb,
        lambda c, b, e, s: conj_find(c, lambda f: atom_call(f, "HashMap::contains_key", False) is not None),
        "a function parameter has no derivative")
    # build() of the function builder runs the completeness check before releasing the function
    for b in inherent_methods(F, ADT_FNBUILDER, "build"):
        v = ev.ret_val(Env(b))
        alts = v[1] if v[0] == "phi" else (v,)
        ok = any(is_absent_value(a) for a in alts) and any(not is_absent_value(a) for a in alts)
        calls = [callee_id(t["fn"]) for _, t in b.calls() if "fn" in t]
        ok = ok and any("check_completion" in c or c.endswith("Try::branch") for c in calls)
        R.add(rule, config, b.key, "function-released-only-after-completeness-check", ok, "" if ok else "function builder build() = `%s`" % short(v)[:160], b.j["span"])
    # --- SeparableModelBuilder::initial_parameters ------------------------------------------
    RB = lambda b: root_of(b)

    def init_len(c, b, e, s):
        # the check may sit in the method or in a closure it hands to a helper: the guess is the ROOT function's argument
        return conj_find(c, lambda f: f[0] == "rel" and f[1] == "Ne" and
                         any(x[0] == "call" and x[1].endswith("::len") and x[3][0] == P2(RB(b)) for x in (f[2], f[3])) and
                         any(x[0] == "call" and x[1].endswith("::len") and contains(x, lambda y: y[0] == "field" and y[2] == UR["u_names"]) for x in (f[2], f[3])))
    chk("IncorrectParameterCount", lambda b: RB(b).j.get("impl", {}).get("self_adt") == ADT_MBUILDER, init_len,
        "initial guess length ≠ number of model parameters")
    # --- try_into -----------------------------------------------------------------------------
    # the model validator: the function that constructs the SeparableModel value (a TryInto impl, an inherent
    # conversion it delegates to, …) — found by what it builds, not by its name
    validators = set()
    for x in F.bodies.values():
        if str(x.j.get("impl", {}).get("trait", "")).startswith("std::clone") or str(x.j.get("impl", {}).get("trait", "")).startswith("std::fmt"):
            continue
        for _bi, _si, st in x.stmts():
            if st["k"] == "assign" and st["rv"]["k"] == "agg" and st["rv"].get("adt") == ADT_SEPMODEL:
                validators.add(x.j.get("root", x.key))
    # a private validator is attributed to the functions with stable names that call it (see `owner` in chk)
    for h in list(validators):
        for x in HCTX.get(h, []):
            while getattr(x, "parent", None) is not None:
                x = x.parent
            validators.add(x.body.key)
    ti = lambda b: root_of(b).key in validators
    FN = lambda b: ("field", P1(root_of(b)), UR["u_functions"])
    NM = lambda b: ("field", P1(root_of(b)), UR["u_names"])
    chk("EmptyModel", ti, lambda c, b, e, s: conj_find(c, lambda f: (lambda t: t is not None and t[3][0] == FN(b))(atom_call(f, "::is_empty", True))), "no basis function")

    def unused_core(f, b, positive_use):
        """∀ f∈functions. ¬contains_key(f.derivatives, idx(names))   (positive_use=False)
           ∃ f∈functions.  contains_key(f.derivatives, idx(names))   (positive_use=True)"""
        q = "exists" if positive_use else "forall"
        if f[0] != q or f[1] != FN(b):
            return False
        t = atom_call(f[2], "HashMap::contains_key", positive_use)
        return t is not None and t[3][0] == ("field", ("item", FN(b)), UR["derivs"]) and t[3][1] == ("idx", NM(b))
    chk("UnusedParameter", ti, lambda c, b, e, s: conj_find(c, lambda f: unused_core(f, b, False)), "a model parameter is used by no function")

    for variant, field in (("MissingX", UR["u_x"]), ("MissingInitialParameters", UR["u_init"])):
        sites = [x for x in err_sites(F, variant, units, helper_units) if ti(x[0])]
        if not sites:
            R.bad(rule, config, "-", "missing:" + variant, "missing %s is not reported" % field)
        for b, bi, si, s in sites:
            fld = ("field", P1(root_of(b)), field)
            okc, c = consumed_only_by(b, s["place"]["l"], "Option::ok_or")
            ok = False
            if okc:
                recv = ev.operand(Env(b), c["term"]["args"][0], (c["block"], None))
                ok = recv == fld
            if not ok:
                conds, env = site_conditions(F, ev, L, b, bi)
                ok = bool(conj_find(conds, lambda f: f[0] == "not" and f[1][0] == "atom" and f[1][1] == ("present", fld)))
            R.add(rule, config, b.key, "only-if:" + variant, ok, "" if ok else "%s not tied to the absence of `%s`" % (variant, field), s.get("span"))
    # Ok(SeparableModel) needs all validations
    for b in F.bodies.values():
        if ti(b) and b.kind != "Closure":
            me = P1(b)
            for bi, si, s in b.stmts():
                if s["k"] == "assign" and s["rv"]["k"] == "agg" and s["rv"].get("adt") == ADT_SEPMODEL:
                    conds = L.conditions_at(b, Env(b), bi)
                    ok1 = bool(conj_find(conds, lambda f: (lambda t: t is not None and t[3][0] == FN(b))(atom_call(f, "::is_empty", False))))
                    R.add(rule, config, b.key, "model-needs:function", ok1, "" if ok1 else "a model without basis functions can be built", s.get("span"))
                    ok2 = bool(conj_find(conds, lambda f: f[0] == "forall" and f[1] == NM(b) and unused_core(f[2], b, True), under_exists=False))
                    R.add(rule, config, b.key, "model-needs:all-parameters-checked", ok2,
                          "" if ok2 else "the model can be built before every model parameter was checked for use; conditions: %s" % "; ".join(logic.show_f(c)[:80] for c in conds)[:300], s.get("span"))
                    v = ev.rvalue(Env(b), s["rv"], (bi, si))
                    f = dict(v[3])
                    okx = ok_of(f.get(UR["s_x"])) == ("field", me, UR["u_x"]) or f.get(UR["s_x"]) == ("payload", ("field", me, UR["u_x"]), "ok", "0")
                    oki = contains(f.get(UR["s_params"]), lambda x: x == ("payload", ("field", me, UR["u_init"]), "ok", "0"))
                    R.add(rule, config, b.key, "model-needs:x", okx, "" if okx else "x is `%s`" % short(f.get(UR["s_x"]))[:80], s.get("span"))
                    R.add(rule, config, b.key, "model-needs:initial-parameters", oki, "" if oki else "initial parameters are `%s`" % short(f.get(UR["s_params"]))[:80], s.get("span"))
                    okn = f.get(UR["s_names"]) == ("field", me, UR["u_names"]) and f.get(UR["s_functions"]) == ("field", me, UR["u_functions"])
                    R.add(rule, config, b.key, "model-keeps-names-and-functions", okn, "" if okn else "names/functions are not carried over unchanged", s.get("span"))
    # --- create_wrapped_basis_function: Ok only after names, arity and mapping were checked ------
    from rules_model import wrapper_fn
    try:
        wkey = wrapper_fn(F).key
    except AnchorMissing:
        wkey = None
    for b in F.bodies.values():
        if b.kind != "Closure" and b.key == wkey:
            oks = [bi for bi, si, s in b.stmts() if s["k"] == "assign" and s["place"]["l"] == 0 and s["rv"]["k"] == "agg" and s["rv"].get("variant") == "Ok"]
            need = {"names(model)": False, "names(function)": False, "arity": False, "mapping": False}
            for bi in oks:
                conds = L.conditions_at(b, Env(b), bi)
                for who, P in (("names(model)", P1(b)), ("names(function)", P2(b))):
                    if conj_find(conds, lambda f: (lambda t: t is not None and t[3][0] == P)(atom_call(f, "::is_empty", False))) and \
                            conj_find(conds, lambda f: f[0] == "forall" and f[1] == P and atom_call(f[2], "HashSet::insert", True) is not None, under_exists=False):
                        need[who] = True
                if conj_find(conds, lambda f: f[0] == "rel" and f[1] == "Eq" and any(x[0] == "constitem" and x[1].endswith("ARGUMENT_COUNT") for x in (f[2], f[3]))):
                    need["arity"] = True
                # mapping: every function parameter was found in the model list
                if conj_find(conds, lambda f: f[0] == "forall" and f[1] == P2(b) and f[2][0] == "exists" and f[2][1] == P1(b), under_exists=False) or \
                        conj_find(conds, lambda f: f[0] == "atom" and f[1][0] == "present" and contains(f[1], lambda x: x[0] == "call" and x[1].endswith("Iterator::collect")) and
                                  contains(f[1], lambda x: x[0] == "closure" and F.bodies.get(x[1]) is not None and
                                           "Vec<usize>" in F.bodies.get(F.bodies[x[1]].j.get("root", ""), F.bodies[x[1]]).j.get("output", ""))):
                    need["mapping"] = True
            for k, v in need.items():
                R.add(rule, config, b.key, "wrapped-fn-needs:" + k, v, "" if v else "a function can be wrapped without the check `%s`" % k, b.j["span"])
    # ModelBasisFunctionBuilder::new: a function is stored as Ok only if the function's parameter names passed the
    # names check (early return, `?`, or a combinator chain `check(..).and_then(..)` — all give the same formula)
    ncs = [x for x in F.bodies.values() if x.kind != "Closure" and len(x.j.get("inputs", [])) == 1 and x.j["inputs"][0].startswith("&[")
           and x.j.get("output", "").replace(" ", "") == "std::result::Result<(),%s>" % ADT_BUILDERR]
    for b in inherent_methods(F, ADT_FNBUILDER, "new"):
        if len(ncs) != 1:
            R.bad(rule, config, b.key, "new: invalid names ⇒ Err result", "names check function not identified (%d candidates)" % len(ncs), b.j["span"])
            continue
        from rules_model import strip_copies, fnbuilder_list_roles
        mrole, frole = fnbuilder_list_roles(F, ev)
        evn = Eval(F, opaque=set(ev.opaque) | {ncs[0].key})
        Ln = logic.Logic(evn)
        ncid = strip_generics(ncs[0].j["path"])
        rfield = [f["name"] for f in struct_fields(F, ADT_FNBUILDER) if f["ty"].startswith("std::result::Result<")][0]
        sites = [(bi, si, st) for bi, si, st in b.stmts() if st["k"] == "assign" and st["rv"]["k"] == "agg" and st["rv"].get("adt") == ADT_FNBUILDER]
        ok = bool(sites)
        msg = "no builder value constructed"
        for bi, si, st in sites:
            v = evn.rvalue(Env(b), st["rv"], (bi, si))
            f = dict(v[3])
            r = f.get(rfield)
            if r[0] == "agg" and r[2] == "Err":
                continue
            conds = Ln.conditions_at(b, Env(b), bi)
            if r[0] != "none":
                conds = conds + [Ln.of_option(r, True)]
            lst = nosite(logic.canon_index(logic.norm_elems(strip_copies(f.get(frole)))))

            def passed(fm):
                if fm[0] == "atom" and fm[1][0] == "present":
                    t = fm[1][1]
                    return t[0] == "call" and t[1] == ncid and nosite(logic.canon_index(logic.norm_elems(strip_copies(t[3][0])))) == lst
                return False
            if not conj_find(conds, passed):
                ok = False
                msg = "a function can be stored as Ok although its parameter names did not pass the names check: `%s`" % short(r)[:120]
        R.add(rule, config, b.key, "new: invalid names ⇒ Err result", ok, "" if ok else msg, b.j["span"])
    R.floor(rule, config, 24, "error sites and success conditions of the eight validating functions")


def consumed_only_by(b, local, cid_suffix):
    cons = consumers(b, local)
    calls = [c for c in cons if c["kind"] == "call"]
    return len(cons) == 1 and len(calls) == 1 and calls[0]["cid"].endswith(cid_suffix), (calls[0] if calls else None)


def rule_name_conversion(F, ev, R, config, rule="R-NAME-CONVERSION"):
    """a caller-supplied parameter name is a `str` seen through `AsRef<str>`, in every builder method alike: wherever the model
    builder or the function builder turns a name into the stored `String`, the conversion is applied to `str` / `String`,
    never directly to the caller's own name type (whose `Display` / `Into<String>` may differ from its `AsRef<str>`: the
    model's names and the function's names would then be compared under different spellings)"""
    OKSELF = ("str", "&str", "std::string::String", "&std::string::String", "&&str")
    n = 0
    for b in sorted(F.bodies.values(), key=lambda x: x.key):
        root = F.bodies.get(b.j.get("root", b.key), b)
        im = root.j.get("impl", {})
        if im.get("self_adt") not in (ADT_MBUILDER, ADT_FNBUILDER) or im.get("trait"):
            continue
        for bi, t in b.calls():
            if "fn" not in t:
                continue
            f = t["fn"]
            nm = f["name"]
            if nm not in ("to_string", "to_owned", "into", "from", "format", "to_str"):
                continue
            dty = b.local_ty(t["dest"]["l"]) or ""
            if dty != "std::string::String":
                continue
            g = f.get("gargs") or []
            selfty = g[0] if g else ""
            if nm == "from" and len(g) > 1:
                selfty = g[1]
            n += 1
            ok = selfty in OKSELF
            # … and it is the caller's spelling that is stored: between the `AsRef<str>` view and the String no function
            # transforms the text (`trim`, `to_lowercase`, `replace`, a slice): the other builder methods compare verbatim names
            VIEWS = ("as_ref", "borrow", "deref", "as_str", "clone", "to_owned", "to_string", "into", "from", "as_mut")
            try:
                v = ev.operand(Env(b), t["args"][-1], (bi, None)) if t.get("args") else None
            except RecursionError:
                v = None
            tr = None
            for y in (walk(v) if v is not None else ()):
                if y[0] == "call" and y[1].rsplit("::", 1)[-1] not in VIEWS:
                    tr = y[1]
                    break
                if y[0] in ("bin", "un", "index", "slice"):
                    tr = y[0]
                    break
            R.add(rule, config, b.key, "name stored verbatim", tr is None,
                  "" if tr is None else "the name is transformed by `%s` before it is stored: the model's names are no longer the caller's spelling that "
                  "`function()` / `partial_deriv()` compare against" % tr, t.get("span"))
            R.add(rule, config, b.key, "name→String from str", ok,
                  "" if ok else "`%s` is applied to the caller's name type `%s` directly (not to its `AsRef<str>` view): names may be spelled differently "
                  "from the ones other builder methods see" % (f["path"], selfty[:60]), t.get("span"))
    R.floor(rule, config, 2, "name conversions in SeparableModelBuilder::new and ModelBasisFunctionBuilder::new")
