"""E5 — run the compile_fail witnesses (thorough tier only)."""
import os, re, shutil, subprocess, sys
HERE = os.path.dirname(os.path.abspath(__file__))
VERIF = os.path.dirname(HERE)
import extract

WITNESS_OF = {
    "C11": ["WParSync"],
    "C12": ["WStatsSingleRhs"],
    "C18": ["WObsShape"],
    "C07": ["WObsShape"],
    "C02": ["WStatePrivate"],
    "C10": ["WStatePrivate"],
}


def run(repo, R, prop):
    names = WITNESS_OF.get(prop)
    if not names:
        return None
    d = os.path.join(extract.CACHE, "witness")
    os.makedirs(os.path.join(d, "src"), exist_ok=True)
    shutil.copy2(os.path.join(VERIF, "witness", "src", "lib.rs"), os.path.join(d, "src", "lib.rs"))
    with open(os.path.join(d, "Cargo.toml"), "w") as f:
        f.write('[package]\nname = "vpwitness"\nversion = "0.1.0"\nedition = "2021"\n\n[workspace]\n\n[dependencies]\n'
                'varpro = { path = "%s", features = ["parallel"] }\nnalgebra = "0.33"\n' % os.path.abspath(repo))
    shutil.copy2(os.path.join(repo, "Cargo.lock"), os.path.join(d, "Cargo.lock"))
    e = extract.env_offline()
    e["CARGO_TARGET_DIR"] = os.path.join(extract.CACHE, "witness-target")
    r = subprocess.run(["cargo", "+nightly", "test", "--doc", "--offline"], cwd=d, env=e, stdout=subprocess.PIPE, stderr=subprocess.STDOUT, text=True)
    out = r.stdout
    results = {}
    for m in re.finditer(r"test src/lib.rs - (\w+) \(line (\d+)\)( - compile fail)? \.\.\. (\w+)", out):
        results.setdefault(m.group(1), []).append((int(m.group(2)), bool(m.group(3)), m.group(4)))
    if not results:
        R.bad("W-WITNESS", "-", "vpwitness", "build", "witness crate did not run: " + out[-800:])
        return out
    for n in names:
        rs = results.get(n, [])
        if not rs:
            R.bad("W-WITNESS", "-", n, "missing", "witness doc-tests not found in output")
            continue
        for line, cf, res in rs:
            R.add("W-WITNESS", "-", n, "%s@doc%d" % ("compile_fail" if cf else "twin", line), res == "ok",
                  "" if res == "ok" else ("the violating program compiles (or fails with a different error)" if cf else "the compiling twin no longer compiles: witness is vacuous"))
    return out
