"""E3 — value-flow term reconstruction over MIR (demand-driven, backward use-def).

Terms are hashable python tuples:
  ('param', fnkey, i)                 i-th argument of the analysed entry function
  ('const', ty, val) ('fnref', path) ('constparam', name) ('constitem', key)
  ('closure', key, ((capname, term),...))
  ('call', cid, self_head, (args...), site)    unmodelled / external callee
  ('agg', adt, variant, ((field, term),...))   ('tuple', (terms...))
  ('field', t, name)  ('as', t, variant)  ('payload', t, variant, field)  ('index', t, i)
  ('bin', op, a, b) ('un', op, a) ('cast', kind, a, ty) ('discr', t)
  ('phi', (alts...))   ('loopback',)   ('unreachable',)
  ('opt', payload, frozenset(conds))  ('none',)
  ('update', base, path, v)   ('mutated', base, site, path)
  ('elem', coll)  ('idx', coll)  -- element / running index of an iteration over coll
  ('unknown', reason)
References are transparent (&P evaluates to the value of P); deref is identity.
This is algebraic value numbering over the compiler's IR: no execution, no
path conditions handed to a solver."""
import re
import sys
import threading
from mir import place_str, op_str, loc_str

MAX_INLINE = 6
sys.setrecursionlimit(max(sys.getrecursionlimit(), 12000))


def run_with_big_stack(fn, *a, **kw):
    """deep backward walks over large bodies recurse deeply: run on a thread with a large stack"""
    out = {}

    def tgt():
        try:
            out["r"] = fn(*a, **kw)
        except BaseException as e:  # noqa
            out["e"] = e
    threading.stack_size(512 * 1024 * 1024)
    t = threading.Thread(target=tgt)
    t.start()
    t.join()
    if "e" in out:
        raise out["e"]
    return out.get("r")


def strip_generics(path):
    """remove `::<...>` turbofish segments and `<...>` after identifiers, keeping
    leading `<T as Trait>` qualified-self forms untouched is not needed here."""
    out = []
    depth = 0
    i = 0
    n = len(path)
    while i < n:
        c = path[i]
        if c == "<":
            depth += 1
        elif c == ">":
            depth -= 1
        elif depth == 0:
            out.append(c)
        i += 1
    s = "".join(out)
    while "::::" in s:
        s = s.replace("::::", "::")
    s = s.replace("impl ", "")
    return s.rstrip(":")


def callee_id(fn):
    """stable identity of a callee: Trait::name for trait methods, generic-free
    path otherwise."""
    if "trait" in fn:
        return strip_generics(fn["trait"]) + "::" + fn["name"]
    return strip_generics(fn["path"])


# adapters: value-identity on the mathematical value of argument 0
IDENTITY = {
    "std::clone::Clone::clone",
    "std::borrow::ToOwned::to_owned",
    "std::convert::AsRef::as_ref",
    "std::convert::AsMut::as_mut",
    "std::borrow::Borrow::borrow",
    "std::ops::Deref::deref",
    "std::ops::DerefMut::deref_mut",
    "std::option::Option::as_ref",
    "std::option::Option::as_deref",
    "std::option::Option::cloned",
    "std::option::Option::copied",
    "std::result::Result::as_ref",
    "std::boxed::Box::new",
    "nalgebra::Matrix::as_view",
    "nalgebra::Matrix::clone_owned",
    "nalgebra::Matrix::into_owned",
    "nalgebra::base::matrix_view::as_view",
    "nalgebra::base::matrix_view::as_view_mut",
    "nalgebra::Matrix::as_slice",
    "std::vec::Vec::as_slice",
    "std::iter::IntoIterator::into_iter",
    "std::convert::identity",
}
# From/Into are identities only when they resolve to core's reflexive impl
REFLEXIVE_CONV = {"std::convert::From::from", "std::convert::Into::into"}


class Ctx:
    """evaluation context: collects assumptions (presence conditions used) and
    unknowns met while evaluating one sink"""

    def __init__(self):
        self.assumed = set()
        self.unknowns = []


class Env:
    _n = 0

    def __init__(self, body, args=None, depth=0, caps=None, path=()):
        self.body = body
        self.args = args or {}
        self.depth = depth
        self.caps = caps
        self.parent = None   # the environment this one was inlined from (set by effects.iteration_effects)
        self.path = path   # call path ((caller body key, block), ...) of this inlined instance: makes call sites deterministic
        Env._n += 1
        self.id = Env._n
        self.memo = {}
        self.pred_filter = None   # optional (pred block, block) -> bool: restrict backward walks to some paths
        self.exit_filter = None   # optional block -> bool: which return blocks count


def variant_of(t, names=None):
    """the enum variant a term is KNOWN to have, or None"""
    tag = t[0]
    v = None
    if tag == "agg" and t[2] is not None:
        v = t[2]
    elif tag == "opt":
        v = "Some" if not t[2] else None
    elif tag == "none":
        v = "None"
    elif tag == "from_residual":
        if names:
            v = "None" if "None" in names else ("Err" if "Err" in names else None)
    elif tag == "cf":
        inner = variant_of(t[1], None)
        if inner in ("Ok", "Some"):
            v = "Continue"
        elif inner in ("Err", "None"):
            v = "Break"
    elif tag == "phi":
        vs = set(variant_of(a, names) for a in t[1] if a != ("unreachable",))
        if len(vs) == 1:
            v = vs.pop()
    if v is not None and names is not None and v not in names:
        return None
    return v


def strip_sites(t):
    """term with call sites removed (for comparing terms from different evaluations)"""
    if not isinstance(t, tuple):
        return t
    if t and t[0] == "call" and len(t) == 5:
        return ("call", t[1], t[2], tuple(strip_sites(x) for x in t[3]), None)
    if t and t[0] == "mutated" and len(t) >= 3:
        return ("mutated", strip_sites(t[1])) + tuple(None if i == 0 else strip_sites(x) for i, x in enumerate(t[2:]))
    return tuple(strip_sites(x) if isinstance(x, (tuple, frozenset)) else x for x in t) if not isinstance(t, frozenset) else frozenset(strip_sites(x) for x in t)


def strip_generics_path(ob):
    """callee id of a trait-method impl body, as call terms carry it (`std::ops::Mul::mul`)"""
    tr = ob.j.get("impl", {}).get("trait", "")
    tr = tr.split("<", 1)[0]
    return tr + "::" + (ob.j.get("name") or ob.key.rsplit("::", 1)[-1])


def site_path(site):
    """call path of code inlined at `site`"""
    p = site[2] if len(site) > 2 and isinstance(site[2], tuple) else ()
    return p + ((site[0], site[1]),)


def is_prefix(a, b):
    return len(a) <= len(b) and b[: len(a)] == a


def proj_key(proj):
    out = []
    for e in proj:
        k = e["k"]
        if k == "deref":
            out.append(("deref",))
        elif k == "field":
            out.append(("field", e["name"]))
        elif k == "downcast":
            out.append(("as", e["variant"]))
        elif k == "index":
            out.append(("index", e["l"]))
        elif k == "cindex":
            out.append(("cindex", e["offset"], e["from_end"]))
        else:
            out.append((k,))
    return tuple(out)


def place_key(p):
    return (p["l"], proj_key(p["proj"]))


def const_scalar(t):
    """1, 0 or −1 when the scalar term is literally that constant (`T::one()`, `T::zero()`, `-T::one()`, a numeric literal,
    `convert(1.0)`), else None"""
    if t is None:
        return None
    if t[0] == "const" and len(t) >= 3:
        try:
            v = float(t[2])
        except (TypeError, ValueError):
            return None
        return int(v) if v in (0.0, 1.0, -1.0) else None
    if t[0] == "call" and len(t) >= 4:
        nm = t[1].rsplit("::", 1)[-1]
        if nm == "one" and not t[3]:
            return 1
        if nm == "zero" and not t[3]:
            return 0
        if t[1] == "std::ops::Neg::neg" and len(t[3]) == 1:
            c = const_scalar(t[3][0])
            return None if c is None else -c
        if nm in ("convert", "from_f64", "from_subset", "from_real", "from", "into", "clone") and len(t[3]) == 1:
            return const_scalar(t[3][0])
    if t[0] == "ref" and len(t) >= 2:
        return const_scalar(t[1])
    return None


class Eval:
    def __init__(self, facts, opaque=(), max_inline=MAX_INLINE):
        self.facts = facts
        self.opaque = set(opaque)  # local callee keys that are NOT inlined
        self.max_inline = max_inline
        self.ctx = Ctx()
        self._active = set()
        self.ambient = frozenset()   # presence conditions under which the code being inlined runs
        self.site_conds = {}         # call site -> [ambient condition sets]
        self.site_terms = {}         # call site -> [call terms]
        self.kernel_obligations = {}  # site of an overwriting in-place kernel -> (name, buffer before, value written)

    # ------------------------------------------------------------------ #
    def fresh_ctx(self):
        self.ctx = Ctx()
        return self.ctx

    def unknown(self, reason):
        t = ("unknown", reason)
        self.ctx.unknowns.append(reason)
        return t

    # ------------------------------------------------------------------ #
    # projection of terms
    # ------------------------------------------------------------------ #
    def project(self, t, elems, env=None):
        for e in elems:
            t = self.project1(t, e, env)
        return t

    def project1(self, t, e, env=None):
        k = e[0]
        if k == "deref":
            return t
        tag = t[0]
        if tag == "phi":
            alts = []
            for a in t[1]:
                pa = self.project1(a, e, env)
                if pa[0] == "unreachable":
                    continue
                if pa not in alts:
                    alts.append(pa)
            if not alts:
                return ("unreachable",)
            if len(alts) == 1:
                return alts[0]
            return ("phi", tuple(alts))
        if tag == "unreachable":
            return t
        if tag == "update":
            _, base, path, v = t
            if path and path[0] == e:
                if len(path) == 1:
                    return v
                return ("update", self.project1(base, e, env), path[1:], v)
            if path and path[0][0] == e[0] == "field":
                return self.project1(base, e, env)
            return ("proj", t, e)
        if tag == "mutated":
            _, base, site, path = t
            if path and path[0][0] == "field" and e[0] == "field" and path[0] != e:
                return self.project1(base, e, env)
            return ("mutated", self.project1(base, e, env), site, path[1:] if path and path[0] == e else ())
        if k == "field":
            name = e[1]
            if tag == "call" and t[1].endswith("Matrix::shape") and name in ("0", "1") and t[3]:
                # M.shape() = (nrows, ncols)
                return ("call", "nalgebra::Matrix::" + ("nrows" if name == "0" else "ncols"), t[2], (t[3][0],), t[4])
            if tag == "bin" and t[1].endswith("WithOverflow"):
                base = t[1][: -len("WithOverflow")]
                if name == "0":
                    return ("bin", base, t[2], t[3])
                return ("overflow", base, t[2], t[3])
            if tag == "agg":
                for f, v in t[3]:
                    if f == name:
                        return v
                return self.unknown("no field %s in agg %s" % (name, t[1]))
            if tag == "tuple":
                try:
                    return t[1][int(name)]
                except Exception:
                    return self.unknown("tuple field " + name)
            if tag == "closure":
                for f, v in t[2]:
                    if f == name:
                        return v
                return self.unknown("closure capture " + name)
            if tag == "as":
                inner, variant = t[1], t[2]
                return self.payload(inner, variant, name)
            if tag == "field" and t[2] in getattr(self.facts, "group_fields", ()):
                # a field of a grouping sub-struct reached through the whole group (`self.counts` handed to a method of
                # the group): the flattened field of the owner (mir.flatten_group_structs)
                return ("field", t[1], t[2] + "." + name)
            return ("field", t, name)
        if k == "as":
            variant = e[1]
            if tag == "from_residual":
                # the early-return value of `?`: always the failure variant
                return ("unreachable",) if variant in ("Ok", "Some", "Continue") else t
            if tag == "agg":
                if t[2] == variant:
                    return t
                return ("unreachable",)
            if tag == "none":
                return ("unreachable",) if variant == "Some" else t
            if tag == "opt":
                if variant == "None":
                    return ("unreachable",) if not t[2] else t
            return ("as", t, variant)
        if k == "index":
            iv = self.lookup(env, (e[1], ()), None) if env is not None else ("unknown", "index")
            return ("index", t, iv)
        if k == "cindex":
            return ("index", t, ("const", "usize", e[1]))
        return ("proj", t, e)

    def payload(self, t, variant, field="0"):
        tag = t[0]
        if tag == "opt" and variant in ("Some", "Ok"):
            self.ctx.assumed |= set(t[2])
            return t[1]
        if tag == "agg" and t[2] == variant:
            for f, v in t[3]:
                if f == field:
                    return v
        if tag == "cf":  # ControlFlow from Try::branch(x)
            if variant == "Continue":
                return self.payload(t[1], "__ok__")
            return ("residual", t[1])
        if variant == "__ok__":
            if tag == "opt":
                self.ctx.assumed |= set(t[2])
                return t[1]
            if tag == "agg" and t[2] in ("Ok", "Some"):
                return t[3][0][1]
            if tag == "phi":
                alts = []
                for a in t[1]:
                    if a[0] == "agg" and a[2] in ("Err", "None"):
                        continue
                    if a[0] in ("none", "from_residual", "unreachable"):
                        continue
                    pa = self.payload(a, "__ok__")
                    if pa not in alts:
                        alts.append(pa)
                if len(alts) == 1:
                    return alts[0]
                if alts:
                    return ("phi", tuple(alts))
                return ("unreachable",)
            self.ctx.assumed.add(("is_ok", t))
            return ("payload", t, "ok", "0")
        if tag == "phi":
            return self.project(t, (("as", variant), ("field", field)))
        if variant in ("Some", "Ok"):
            self.ctx.assumed.add(("is_ok", t))
            return ("payload", t, "ok", "0")
        return ("payload", t, variant, field)

    # ------------------------------------------------------------------ #
    # operands / rvalues
    # ------------------------------------------------------------------ #
    def operand(self, env, o, point):
        k = o["k"]
        if k in ("copy", "move"):
            return self.lookup(env, place_key(o["place"]), point)
        if k == "const":
            if "fn" in o:
                return ("fnref", callee_id(o["fn"]), o["fn"].get("resolved_key") or o["fn"].get("key"))
            if "closure" in o:
                return ("closure", o["closure"], ())
            if "param" in o:
                return ("constparam", o["param"])
            if "val" in o:
                return ("const", o["ty"], o["val"])
            if "fval" in o:
                return ("const", o["ty"], float(o["fval"]))
            if "uneval_key" in o:
                c = self.facts.consts.get(o["uneval_key"])
                if c is not None and "val" in c and not o.get("promoted"):
                    return ("constitem", o["uneval_key"], c["val"])
                return ("constitem", o["uneval_key"], None)
            if "uneval" in o:
                return ("constitem", o["uneval"], None)
            return ("const", o["ty"], o.get("dbg"))
        return self.unknown("operand " + k)

    def rvalue(self, env, rv, point):
        k = rv["k"]
        if k == "use":
            return self.operand(env, rv["op"], point)
        if k in ("ref", "rawptr"):
            return self.lookup(env, place_key(rv["place"]), point)
        if k == "bin":
            return ("bin", rv["op"], self.operand(env, rv["a"], point), self.operand(env, rv["b"], point))
        if k == "un":
            if rv["op"] == "PtrMetadata":
                # the length of a slice reference (what `slice.len()` and slice patterns read)
                return ("call", "core::slice::len", None, (self.operand(env, rv["a"], point),), None)
            a_ = self.operand(env, rv["a"], point)
            if rv["op"] == "Not" and a_[0] == "const" and a_[1] == "bool":
                return ("const", "bool", 0 if a_[2] else 1)
            if rv["op"] == "Not" and a_[0] == "un" and a_[1] == "Not":
                return a_[2]
            return ("un", rv["op"], a_)
        if k == "cast":
            a = self.operand(env, rv["op"], point)
            kind = rv["kind"]
            if "Unsize" in kind or "PtrToPtr" in kind or "ReifyFnPointer" in kind or "ClosureFnPointer" in kind:
                return a
            return ("cast", kind, a, rv["ty"])
        if k == "discr":
            return ("discr", self.lookup(env, place_key(rv["place"]), point))
        if k == "agg":
            a = rv["agg"]
            ops = [self.operand(env, o, point) for o in rv["ops"]]
            if any(o == ("unreachable",) for o in ops):
                return ("unreachable",)  # built from a value of an infeasible branch
            if a == "tuple":
                return ("tuple", tuple(ops))
            if a == "array":
                return ("array", tuple(ops))
            if a == "adt":
                adt = strip_generics(rv["adt"])
                if adt == "std::option::Option":
                    if rv["variant"] == "Some":
                        return ("opt", ops[0], frozenset())
                    return ("none",)
                return ("agg", adt, rv["variant"], tuple(zip(rv["fields"], ops)))
            if a == "closure":
                return ("closure", rv["closure"], tuple(zip(rv.get("fields", []), ops)))
            return self.unknown("aggregate " + a)
        if k == "repeat":
            return ("repeat", self.operand(env, rv["op"], point))
        return self.unknown("rvalue " + k + " " + rv.get("dbg", ""))

    # ------------------------------------------------------------------ #
    # backward lookup of a place
    # ------------------------------------------------------------------ #
    def entry_val(self, env, local, proj):
        body = env.body
        if 1 <= local <= body.arg_count:
            if local in env.args:
                base = env.args[local]
            else:
                base = ("param", body.key, local)
            return self.project(base, proj, env)
        if local == 0:
            return self.unknown("read of uninitialised return place")
        return ("uninit", local)

    def lookup(self, env, pk, point):
        """value of place pk=(local, projkey) just before `point`=(block, stmt idx);
        point None = the unique definition of a temporary (searched globally)"""
        local, proj = pk
        body = env.body
        if point is None:
            # find the unique def of `local`
            defs = self._defs_of_local(body, local)
            if len(defs) == 1:
                b, si = defs[0]
                if si == "term":
                    return self.project(self.call_val(env, b), proj, env)
                s = body.blocks[b]["stmts"][si]
                return self.project(self.rvalue(env, s["rv"], (b, si)), proj, env)
            if not defs:
                return self.entry_val(env, local, proj)
            return self.unknown("multiple defs for index local _%d" % local)
        b, i = point
        pk = self.norm_pointer_place(body, pk)
        local, proj = pk
        # cross-place cycles (loop-carried values defined in terms of each other) are cut here
        ak = (env.id, pk, b, i)
        if ak in self._active:
            return ("loopback",)
        self._active.add(ak)
        try:
            return self._lookup_in_block(env, pk, b, i, frozenset())
        finally:
            self._active.discard(ak)

    def norm_pointer_place(self, body, pk, depth=0):
        """`(*_t)…` where the temporary `_t` is (by its single definition) a copy of another pointer `P` or a reborrow
        `&(*P).r` / `&mut (*P).r` names the same memory as `(*P)…` / `(*P).r…`: the place is rewritten onto the pointer it was
        derived from, so that a write through one alias (`j.tr_copy_from(..)` on a captured `&mut j`) is seen by a read through
        another (`j.dot(..)`)."""
        local, proj = pk
        if depth > 4 or not proj or proj[0] != ("deref",) or body.kind != "Closure":
            # only inside closures, where captured `&mut` variables are reached through copies of the capture pointer; in plain
            # functions borrows of locals and of `self` fields are tracked on the places themselves
            return pk
        cache = body.__dict__.setdefault("_ptrnorm", {})
        if local not in cache:
            cache[local] = None
            if local > body.arg_count:
                defs = self._defs_of_local(body, local)
                if len(defs) == 1 and defs[0][1] != "term":
                    bb, si = defs[0]
                    st = body.blocks[bb]["stmts"][si]
                    rv = st["rv"]
                    ty = body.local_ty(local) or ""
                    if ty.startswith("&"):
                        if rv["k"] == "use" and rv["op"].get("k") in ("copy", "move") and rv["op"]["place"]["proj"]:
                            q = place_key(rv["op"]["place"])
                            if q[1] and q[1][0] == ("deref",) and q[0] <= body.arg_count:
                                cache[local] = ("ptr", q)
                        elif rv["k"] == "ref":
                            q = place_key(rv["place"])
                            if q[1] and q[1][0] == ("deref",):
                                cache[local] = ("ref", q)
        c = cache[local]
        if c is None:
            return pk
        kind, q = c
        if kind == "ptr":
            npk = (q[0], q[1] + proj)            # (*_t).rest  =  (*Q).rest with Q the copied pointer place
        else:
            npk = (q[0], q[1] + proj[1:])        # (*&(*P).r).rest = (*P).r.rest
        return self.norm_pointer_place(body, npk, depth + 1)

    def _defs_of_local(self, body, local):
        if body._defs is None:
            d = {}
            for bi in sorted(body.live_blocks()):
                bb = body.blocks[bi]
                for si, s in enumerate(bb["stmts"]):
                    if s["k"] == "assign" and not s["place"]["proj"]:
                        d.setdefault(s["place"]["l"], []).append((bi, si))
                t = bb["term"]
                if t["k"] == "call" and not t["dest"]["proj"]:
                    d.setdefault(t["dest"]["l"], []).append((bi, "term"))
            body._defs = d
        return body._defs.get(local, [])

    def _mut_borrow_is_transparent(self, body, tmp_local, depth=0):
        """a `&mut X` temporary whose only use (possibly through a reborrow) is as the receiver
        of Iterator::next does not change the *collection identity*"""
        if depth > 3:
            return False
        # reborrow `_y = &mut (*tmp)`
        for bi, si, s in body.stmts():
            if s["k"] == "assign" and s["rv"]["k"] == "ref" and s["rv"]["mut"]:
                p = s["rv"]["place"]
                if p["l"] == tmp_local and len(p["proj"]) == 1 and p["proj"][0]["k"] == "deref" and not s["place"]["proj"]:
                    return self._mut_borrow_is_transparent(body, s["place"]["l"], depth + 1)
        for bi, t in body.calls():
            for a in t["args"]:
                if a["k"] in ("move", "copy") and a["place"]["l"] == tmp_local and not a["place"]["proj"]:
                    if "fn" in t and callee_id(t["fn"]) in (
                        "std::iter::Iterator::next",
                        "std::fmt::Formatter::debug_struct",
                    ):
                        return True
                    return False
        return False

    def _mut_borrow_consumer(self, body, tmp_local, depth=0):
        """(block, terminator, argument index) of the single call that receives the `&mut` temporary (possibly reborrowed)"""
        if depth > 3:
            return None
        hits = []
        for bi, si, s in body.stmts():
            if s["k"] == "assign" and s["rv"]["k"] == "ref" and s["rv"]["mut"]:
                p = s["rv"]["place"]
                if p["l"] == tmp_local and len(p["proj"]) == 1 and p["proj"][0]["k"] == "deref" and not s["place"]["proj"]:
                    r = self._mut_borrow_consumer(body, s["place"]["l"], depth + 1)
                    if r is None:
                        return None
                    hits.append(r)
            elif s["k"] == "assign" and s["rv"]["k"] == "use" and s["rv"]["op"]["k"] in ("move", "copy") and \
                    s["rv"]["op"]["place"]["l"] == tmp_local and not s["rv"]["op"]["place"]["proj"] and not s["place"]["proj"]:
                r = self._mut_borrow_consumer(body, s["place"]["l"], depth + 1)
                if r is None:
                    return None
                hits.append(r)
        for bi, t in body.calls():
            for ai, a in enumerate(t["args"]):
                if a["k"] in ("move", "copy") and a["place"]["l"] == tmp_local and not a["place"]["proj"]:
                    hits.append((bi, t, ai))
        return hits[0] if len(hits) == 1 else None

    def _mutator_summary(self, env, body, tmp_local, base):
        """value of a local after it was lent `&mut` to a LOCAL function that is being looked into (not opaque): what that
        function leaves in `*param` at its return (`fn scale_in_place(&self, m: &mut M)` called as `w.scale_in_place(&mut y)`).
        None when the borrower is not such a call (then the value is the opaque ("mutated", …) form)."""
        if env.depth >= self.max_inline:
            return None
        hit = self._mut_borrow_consumer(body, tmp_local)
        if hit is None:
            return None
        cbi, t, ai = hit
        if "fn" not in t:
            return None
        key = t["fn"].get("resolved_key") or t["fn"].get("key")
        cb = self.facts.bodies.get(key) if key else None
        op_assign = cb is None and t["fn"].get("path", "").startswith("std::ops::") and t["fn"]["name"] in ("add_assign", "sub_assign", "mul_assign") \
            and "nalgebra::Matrix" in (t["fn"].get("self_ty") or "")
        if cb is None and (t["fn"].get("krate") == "nalgebra" or op_assign) and getattr(self.facts, "crate", None) == "varpro":
            # in-place operations of nalgebra that overwrite their target completely (they assert equal shapes first):
            # the target's new value is the corresponding pure expression of the other arguments
            nm = t["fn"]["name"]
            ops = [self.operand(env, a, (cbi, None)) if i != ai else None for i, a in enumerate(t["args"])]

            def over(v):
                # the kernel overwrites a buffer that must ALREADY have the shape of the value (nalgebra asserts it): the pure
                # expression forgets the buffer, so the obligation `shape(buffer) = shape(value)` is kept for R-SHAPES
                self.kernel_obligations.setdefault((body.key, cbi, env.path), (nm, base, v))   # a reborrow chain asks twice: the innermost (first) answer has the buffer
                return v
            if nm == "copy_from" and ai == 0 and len(ops) == 2:
                return over(ops[1])
            if nm == "tr_copy_from" and ai == 0 and len(ops) == 2:
                return over(("call", "nalgebra::Matrix::transpose", "nalgebra::Matrix", (ops[1],), (body.key, cbi, env.path)))
            if nm == "mul_to" and ai == 2 and len(ops) == 3:
                return over(("call", "std::ops::Mul::mul", "nalgebra::Matrix", (ops[0], ops[1]), (body.key, cbi, env.path)))
            if nm == "tr_mul_to" and ai == 2 and len(ops) == 3:
                return over(("call", "nalgebra::base::ops::tr_mul", "nalgebra::Matrix", (ops[0], ops[1]), (body.key, cbi, env.path)))
            # BLAS-style updates  y ← α·op(a)·op(b) + β·y  (nalgebra::base::blas): the pure expression, with the literal
            # factors 1 / 0 / −1 folded so that `y.gemm(1, a, b, −1)` is the same term as `a * b − y`
            site = (body.key, cbi, env.path)

            def call(cid, *xs):
                return ("call", cid, "nalgebra::Matrix", tuple(xs), site)

            def lin(alpha, prod, beta):
                ca, cb_ = const_scalar(alpha), const_scalar(beta)
                if ca == 0:
                    first = None
                elif ca == 1:
                    first = prod
                elif ca == -1:
                    first = call("std::ops::Neg::neg", prod)
                else:
                    first = call("std::ops::Mul::mul", prod, alpha)
                if cb_ == 0:
                    return over(first if first is not None else call("std::ops::Mul::mul", prod, alpha))
                old = base if cb_ == 1 else (None if cb_ == -1 else call("std::ops::Mul::mul", base, beta))
                if cb_ == -1:
                    if first is None:
                        return call("std::ops::Neg::neg", base)
                    return call("std::ops::Sub::sub", first, base)
                if first is None:
                    return old
                if ca == -1:
                    return call("std::ops::Sub::sub", old, prod)
                return call("std::ops::Add::add", old, first)
            if ai == 0 and len(ops) == 5 and nm in ("gemm", "gemm_tr", "gemm_ad", "gemv", "gemv_tr", "gemv_ad"):
                a_, b_ = ops[2], ops[3]
                prod = call("std::ops::Mul::mul", a_, b_) if nm in ("gemm", "gemv") else call("nalgebra::base::ops::tr_mul", a_, b_)
                return lin(ops[1], prod, ops[4])
            if ai == 0 and len(ops) == 5 and nm in ("ger", "gerc"):
                prod = call("std::ops::Mul::mul", ops[2], call("nalgebra::Matrix::transpose", ops[3]))
                return lin(ops[1], prod, ops[4])
            if ai == 0 and len(ops) == 4 and nm == "axpy":
                return lin(ops[1], ops[2], ops[3])
            if ai == 0 and len(ops) == 2 and nm in ("add_assign", "sub_assign"):
                return call("std::ops::Add::add" if nm == "add_assign" else "std::ops::Sub::sub", base, ops[1])
            if ai == 0 and len(ops) == 1 and nm == "neg_mut":
                return call("std::ops::Neg::neg", base)
            if ai == 0 and len(ops) == 2 and nm in ("scale_mut", "mul_assign"):
                return call("std::ops::Mul::mul", base, ops[1])
            if ai == 0 and len(ops) == 1 and nm == "try_inverse_mut":
                # in-place inversion: when it reports success the matrix holds its inverse — the same value `try_inverse`
                # returns as `Some` (on failure the content is unspecified; callers branch on the returned flag)
                inv = ("call", "nalgebra::linalg::inverse::try_inverse", "nalgebra::Matrix", (base,), site)
                return ("payload", inv, "ok", "0")
            if ai == 2 and len(ops) == 3 and nm in ("add_to", "sub_to"):
                return over(call("std::ops::Add::add" if nm == "add_to" else "std::ops::Sub::sub", ops[0], ops[1]))
            return None
        if cb is None or key in self.opaque or cb.kind == "Closure" or key in self._active:
            return None
        k = ("summary", body.key, cbi, ai, env.path)
        if k in env.memo:
            return env.memo[k]
        self._active.add(key)
        try:
            args = {}
            for i, a in enumerate(t["args"]):
                args[i + 1] = base if i == ai else self.operand(env, a, (cbi, None))
            cenv = self.inline_env(cb, args, env.depth + 1, env.path + ((body.key, cbi),))
            pk = (ai + 1, proj_key([{"k": "deref"}]))
            alts = []
            for e in cenv.body.exits():
                v = self.lookup(cenv, pk, (e, None))
                for x in (v[1] if v[0] == "phi" else (v,)):
                    if x not in alts:
                        alts.append(x)
            if not alts:
                return None
            r = alts[0] if len(alts) == 1 else ("phi", tuple(alts))
        except RecursionError:
            return None
        finally:
            self._active.discard(key)
        env.memo[k] = r
        return r

    def _lookup_in_block(self, env, pk, b, i, visiting):
        body = env.body
        local, proj = pk
        stmts = body.blocks[b]["stmts"]
        if i is None or i > len(stmts):
            i = len(stmts)
        for si in range(i - 1, -1, -1):
            s = stmts[si]
            if s["k"] != "assign":
                continue
            dl, dproj = place_key(s["place"])
            if dl == local:
                if is_prefix(dproj, proj):
                    v = self.rvalue(env, s["rv"], (b, si))
                    return self.project(v, proj[len(dproj):], env)
                if is_prefix(proj, dproj):
                    base = self._lookup_in_block(env, pk, b, si, visiting)
                    v = self.rvalue(env, s["rv"], (b, si))
                    return ("update", base, dproj[len(proj):], v)
            # mutable borrow of an overlapping place
            rv = s["rv"]
            if rv["k"] in ("ref", "rawptr") and rv["mut"]:
                bl, bproj = self.norm_pointer_place(body, place_key(rv["place"]))
                if bl == local and (is_prefix(bproj, proj) or is_prefix(proj, bproj)):
                    if not self._mut_borrow_is_transparent(body, dl):
                        base = self._lookup_in_block(env, pk, b, si, visiting)
                        site = (body.key, b, si)
                        rel = bproj[len(proj):] if is_prefix(proj, bproj) else ()
                        if bproj == proj:
                            summ = self._mutator_summary(env, body, dl, base)
                            if summ is not None:
                                return summ
                        return ("mutated", base, site, rel)
        # block entry
        mk = (pk, b)
        if mk in env.memo:
            return env.memo[mk]
        if b == 0:
            v = self.entry_val(env, local, proj)
            env.memo[mk] = v
            return v
        live = body.live_blocks()
        alts = []
        pred_vals = {}
        for p in body.pred(b):
            if p not in live:
                continue
            if env.pred_filter is not None and not env.pred_filter(p, b):
                continue
            vk = (pk, p)
            if vk in visiting:
                if ("loopback",) not in alts:
                    alts.append(("loopback",))
                continue
            t = body.blocks[p]["term"]
            v = None
            if t["k"] == "call":
                dl, dproj = place_key(t["dest"])
                if dl == local and t["t"] == b:
                    if is_prefix(dproj, proj):
                        v = self.project(self.call_val(env, p), proj[len(dproj):], env)
                    elif is_prefix(proj, dproj):
                        base = self._lookup_in_block(env, pk, p, None, visiting | {vk})
                        v = ("update", base, dproj[len(proj):], self.call_val(env, p))
            if v is None:
                v = self._lookup_in_block(env, pk, p, None, visiting | {vk})
            pred_vals[p] = v
            if v[0] == "phi":
                for a in v[1]:
                    if a not in alts:
                        alts.append(a)
            elif v not in alts:
                alts.append(v)
        real = [a for a in alts if a[0] not in ("loopback",)]
        if len(real) == 2 and len(pred_vals) == 2 and env.pred_filter is None:
            folded = self._fold_enum_operator(env, b, pred_vals)
            if folded is None:
                folded = self._fold_bool_diamond(env, local, proj, b, pred_vals)
            if folded is None:
                folded = self._fold_option_diamond(env, local, proj, b, pred_vals)
            if folded is not None:
                real = [folded]
        if len(real) == 1:
            v = real[0]
        elif not real:
            v = ("loopback",)
        else:
            # drop uninit alternatives produced by drop-flag style merges
            nz = [a for a in real if a[0] != "uninit"]
            if len(nz) == 1:
                v = nz[0]
            else:
                v = ("phi", tuple(nz if nz else real))
        if not visiting:
            env.memo[mk] = v
        return v

    def _fold_bool_diamond(self, env, local, proj, b, pred_vals):
        """the value of a short-circuit `a && b` / `a || b` used as a value: a bool local assigned on the two arms of a
        test of `a` (one arm a constant) is LAnd(a, b) / LOr(a, b) instead of an unconditioned merge"""
        body = env.body
        if proj or local >= len(body.locals) or body.locals[local].get("ty") != "bool":
            return None
        dom = body.dominators().get(b)
        cands = [d for d in (dom or ()) if d != b]
        if not cands:
            return None
        s_ = max(cands, key=lambda d: len(body.dominators()[d]))
        term = body.blocks[s_]["term"]
        if term["k"] != "switch" or len(term["targets"]) != 1 or term["targets"][0][0] != 0:
            return None
        chain_v = self._fold_bool_chain(env, s_, b, pred_vals)
        if chain_v is not None:
            return chain_v
        arms = {False: term["targets"][0][1], True: term["otherwise"]}
        vals = {}
        for truth, tg in arms.items():
            cur, steps, prev = tg, 0, s_
            while cur != b and steps < 16:
                nx = body.succ(cur)
                if len(nx) != 1 or len(body.pred(cur)) != 1:
                    return None
                prev, cur = cur, nx[0]
                steps += 1
            if cur != b or prev not in pred_vals:
                return None
            vals[truth] = pred_vals[prev]
        if len(vals) != 2 or set(pred_vals) != set(p for p in pred_vals if True) or len(pred_vals) != 2:
            return None
        try:
            c = self.operand(env, term["op"], (s_, None))
        except RecursionError:
            return None
        T, Fz = ("const", "bool", 1), ("const", "bool", 0)
        vt, vf = vals[True], vals[False]
        if vt == T and vf == Fz:
            return c                       # `if c { true } else { false }`, `matches!(x, P if c)` on the arm of P
        if vt == Fz and vf == T:
            return ("un", "Not", c)
        if vf == Fz:
            return ("bin", "LAnd", c, vt)
        if vt == T:
            return ("bin", "LOr", c, vf)
        if vt == Fz:
            return ("bin", "LAnd", ("un", "Not", c), vf)
        if vf == T:
            return ("bin", "LOr", ("un", "Not", c), vt)
        return None

    def _fold_option_diamond(self, env, local, proj, b, pred_vals):
        """`if c { Some(v) } else { None }` (either way round) as a value: present exactly when the condition holds — the
        same term `c.then_some(v)` evaluates to, instead of an unconditioned merge of `None` and `Some(v)`"""
        body = env.body
        if proj or local >= len(body.locals) or not (body.locals[local].get("ty") or "").startswith("std::option::Option<"):
            return None
        dom = body.dominators().get(b)
        cands = [d for d in (dom or ()) if d != b]
        if not cands or len(pred_vals) != 2:
            return None
        s_ = max(cands, key=lambda d: len(body.dominators()[d]))
        term = body.blocks[s_]["term"]
        if term["k"] != "switch" or len(term["targets"]) != 1 or term["targets"][0][0] != 0:
            return None
        arms = {False: term["targets"][0][1], True: term["otherwise"]}
        vals = {}
        for truth, tg in arms.items():
            cur, steps, prev = tg, 0, s_
            while cur != b and steps < 16:
                nx = body.succ(cur)
                if len(nx) != 1 or len(body.pred(cur)) != 1:
                    return None
                prev, cur = cur, nx[0]
                steps += 1
            if cur != b or prev not in pred_vals:
                return None
            vals[truth] = pred_vals[prev]
        if len(vals) != 2:
            return None
        none_side = [tr for tr, v in vals.items() if v == ("none",)]
        if len(none_side) != 1:
            return None
        some = vals[not none_side[0]]
        if some[0] != "opt":
            return None
        try:
            c = self.operand(env, term["op"], (s_, None))
        except RecursionError:
            return None
        cond = c if not none_side[0] is True and none_side[0] is False else ("un", "Not", c)
        # none on the false arm -> present iff c ; none on the true arm -> present iff !c
        cond = c if none_side[0] is False else ("un", "Not", c)
        return ("opt", some[1], frozenset(some[2]) | frozenset([("pred", cond)]))

    def _fold_bool_chain(self, env, s_, b, pred_vals):
        """`a && b && c` / `a || b || c` as a value: all paths from the first test to the merge block but one deliver the
        same constant; the remaining path's tests (all taken on their true resp. false edge) and its value make the chain"""
        body = env.body
        T, Fz = ("const", "bool", 1), ("const", "bool", 0)
        paths = []

        def walk(cur, lits, depth):
            if len(paths) > 12 or depth > 12:
                return False
            t = body.blocks[cur]["term"]
            if t["k"] == "switch":
                if len(t["targets"]) != 1 or t["targets"][0][0] != 0:
                    return False
                for truth, tg in ((False, t["targets"][0][1]), (True, t["otherwise"])):
                    if tg == b:
                        paths.append((lits + [(cur, truth)], cur))
                    elif not walk(tg, lits + [(cur, truth)], depth + 1):
                        return False
                return True
            nx = body.succ(cur)
            if len(nx) != 1:
                return False
            if nx[0] == b:
                paths.append((lits, cur))
                return True
            return walk(nx[0], lits, depth + 1)
        if not walk(s_, [], 0) or len(paths) < 3:
            return None
        vals = []
        for lits, last_ in paths:
            if last_ not in pred_vals:
                return None
            vals.append(pred_vals[last_])
        for const_, op, want_truth in ((Fz, "LAnd", True), (T, "LOr", False)):
            odd = [i for i, v in enumerate(vals) if v != const_]
            if len(odd) != 1:
                continue
            lits, _ = paths[odd[0]]
            if not lits or any(tr != want_truth for _, tr in lits):
                continue
            try:
                conds = [self.operand(env, body.blocks[sb]["term"]["op"], (sb, None)) for sb, _ in lits]
            except RecursionError:
                return None
            members = conds + ([vals[odd[0]]] if vals[odd[0]] != (T if op == "LAnd" else Fz) else [])
            out = members[0]
            for m_ in members[1:]:
                out = ("bin", op, out, m_)
            return out
        return None

    def _fold_enum_operator(self, env, b, pred_vals):
        """a `match` on an enum value W written out by hand whose arms compute exactly what a local operator
        `<&Enum as Op<M>>::op(W, M)` computes for the respective variant is that operator call: the merge block `b` of a
        clean diamond (the switch on W's discriminant is b's immediate dominator, each arm reaches b in a straight line —
        no further test, so no guarded arm) whose per-arm values equal the operator's own per-variant results."""
        body = env.body
        if getattr(self, "_folding", False):
            return None
        dom = body.dominators().get(b)
        if not dom:
            return None
        cands = [d for d in dom if d != b]
        if not cands:
            return None
        s_ = max(cands, key=lambda d: len(body.dominators()[d]))
        sw = [x for x in body.discr_switches() if x[0] == s_]
        if not sw:
            return None
        _, si, spk, variants = sw[0]
        st = body.blocks[s_]["stmts"][si]
        adt = st["rv"].get("adt")
        ops = self.enum_operators(adt)
        if not ops:
            return None
        term = body.blocks[s_]["term"]
        arm_val = {}
        for val, name in variants:
            tg = dict((v, t) for v, t in term["targets"]).get(val)
            if tg is None:
                return None
            cur, steps = tg, 0
            while cur != b and steps < 24:
                nx = body.succ(cur)
                if len(nx) != 1 or (cur != tg and len(body.pred(cur)) != 1):
                    return None
                prev, cur = cur, nx[0]
                steps += 1
            if cur != b:
                return None
            last_ = tg if steps == 0 else prev
            if steps == 0 or last_ not in pred_vals:
                return None
            arm_val[name] = pred_vals[last_]
        if len(arm_val) != len(variants) or len(set(id(v) for v in arm_val.values())) < 1:
            return None
        try:
            W = self.lookup(env, spk, (s_, si))
        except RecursionError:
            return None
        self._folding = True
        try:
            for ob in ops:
                # the operand: what the operator returns for the variant on which it is the identity
                for name, M in arm_val.items():
                    ok = True
                    for vn, av in arm_val.items():
                        saved = self.assumed
                        self.assumed = dict(saved or {})
                        self.assumed[W] = vn
                        try:
                            r = self.inline_ret(ob, {1: W, 2: M}, env.depth + 1, env.path + ((body.key, s_),))
                        except RecursionError:
                            r = None
                        finally:
                            self.assumed = saved
                        opcall = strip_sites(("call", strip_generics_path(ob), ob.j.get("impl", {}).get("self_adt"), (W, M), None))
                        if r is None or (strip_sites(r) != strip_sites(av) and strip_sites(av) != opcall):
                            ok = False
                            break
                    if ok:
                        return ("call", strip_generics_path(ob), ob.j.get("impl", {}).get("self_adt"), (W, M), (body.key, s_, env.path))
        finally:
            self._folding = False
        return None

    def enum_operators(self, adt):
        """local binary operator impls `impl Op<M> for &Enum` (kept symbolic by the rules) for the enum `adt`"""
        if not adt:
            return []
        cache = self.__dict__.setdefault("_enum_ops", {})
        if adt not in cache:
            out = []
            for k, ob in self.facts.bodies.items():
                im = ob.j.get("impl", {})
                if ob.kind != "Closure" and im.get("self_adt") == adt and im.get("trait", "").startswith("std::ops::") and k.startswith("<&") \
                        and ob.arg_count == 2 and self.facts.adts.get(adt, {}).get("kind") == "Enum":
                    out.append(ob)
            cache[adt] = out
        return cache[adt]

    # ------------------------------------------------------------------ #
    # calls
    # ------------------------------------------------------------------ #
    def call_val(self, env, b):
        body = env.body
        ck = ("call", b)
        if ck in env.memo:
            return env.memo[ck]
        t = body.blocks[b]["term"]
        point = (b, None)
        args = [self.operand(env, a, point) for a in t["args"]]
        site = (body.key, b, env.path)
        if "fn" not in t:
            f = self.operand(env, t["fnop"], point)
            v = self.apply(f, args, site, env)
        else:
            v = self.call_fn(env, t["fn"], args, site, t)
        env.memo[ck] = v
        return v

    # ------------------------------------------------------------------ #
    # inlining with partial evaluation of variant tests
    # ------------------------------------------------------------------ #
    specialise_on = True
    assumed = None   # {term: variant name}: enum-typed values a rule analyses case by case

    def assuming(self, term, variant):
        """context manager: while active, every `match` on `term` (an enum-typed role such as the weights) takes only the
        arm of `variant` — in the analysed function (use `inline_env(body, {}, 0)` for its environment) and in every
        helper the value is handed to. Rules use it to decide a property once per variant instead of on a join."""
        ev = self

        class _A:
            def __enter__(self_):
                self_.saved = ev.assumed
                ev.assumed = dict(ev.assumed or {})
                ev.assumed[term] = variant
                ev.fresh_ctx()
                return ev

            def __exit__(self_, *a):
                ev.assumed = self_.saved
                ev.fresh_ctx()
                return False
        return _A()

    def inline_env(self, cb, args, depth, path=()):
        """environment for evaluating `cb` on `args`. A `match` whose scrutinee has a KNOWN variant for
        these arguments (an aggregate built by the caller, Some(..)/None, the residual of `?`) can take
        only one arm: such switches are replaced by gotos (a pruned copy of the body), so that neither
        values nor effects nor guards of the other arms are attributed to this call."""
        env = Env(cb, args, depth, path=path)
        if not self.specialise_on:
            return env
        sws = cb.discr_switches()
        if not sws and not self.assumed:
            return env
        fixed = {}
        saved = (self.site_conds, self.site_terms, self.ctx)
        for _ in range(4):
            new = {}
            live = env.body.live_blocks()
            self.site_conds, self.site_terms, self.ctx = {}, {}, Ctx()
            try:
                for (b, si, pk, variants) in sws:
                    if b in fixed or b not in live:
                        continue
                    try:
                        t = self.lookup(env, pk, (b, si))
                    except RecursionError:
                        continue
                    vn = variant_of(t, [n for _, n in variants])
                    if vn is None and self.assumed:
                        # case analysis requested by a rule: "this role has variant V" (see assuming())
                        vn = self.assumed.get(t)
                        if vn is not None and vn not in [n for _, n in variants]:
                            vn = None
                    if vn is None:
                        continue
                    val = [v for v, n in variants if n == vn]
                    if not val:
                        continue
                    term = cb.blocks[b]["term"]
                    listed = dict((v, tg) for v, tg in term["targets"])
                    new[b] = listed.get(val[0], term["otherwise"])
                if self.assumed:
                    # under a case assumption, tests that became constant (`if !true`, the result of a helper whose
                    # match was decided) are decided too
                    dsw = set(x[0] for x in sws)
                    for b in live:
                        term = cb.blocks[b]["term"]
                        if b in fixed or b in dsw or term["k"] != "switch" or term["op"]["k"] not in ("copy", "move"):
                            continue
                        try:
                            t = self.operand(env, term["op"], (b, None))
                        except RecursionError:
                            continue
                        neg = False
                        while t[0] == "un" and t[1] == "Not":
                            t, neg = t[2], not neg
                        if t[0] == "const" and t[1] == "bool" and t[2] in (0, 1):
                            val = (1 - t[2]) if neg else t[2]
                            listed = dict((v, tg) for v, tg in term["targets"])
                            new[b] = listed.get(val, term["otherwise"])
            finally:
                self.site_conds, self.site_terms, self.ctx = saved
            if not new:
                break
            fixed.update(new)
            env = Env(cb.pruned_multi(fixed), args, depth, path=path)
        if env.memo:
            # the speculative evaluation above ran with the site records switched off: values it memoised must not be reused
            # by the real evaluation (their call sites and ambient conditions would go unrecorded)
            env = Env(env.body, args, depth, path=path)
        return env

    def inline_ret(self, cb, args, depth, path=()):
        """return value of `cb` on `args` (dict local -> term); an argument that is a merge of
        alternatives with different known variants is split (one evaluation per alternative)"""
        for i, a in sorted(args.items()):
            if a[0] == "phi" and 1 < len(a[1]) <= 4 and depth < self.max_inline:
                vs = [variant_of(x, None) for x in a[1]]
                if all(v is not None for v in vs) and len(set(vs)) > 1 and cb.discr_switches():
                    alts = []
                    for x in a[1]:
                        a2 = dict(args)
                        a2[i] = x
                        r = self.inline_ret(cb, a2, depth, path)
                        for y in (r[1] if r[0] == "phi" else (r,)):
                            if y not in alts:
                                alts.append(y)
                    alts = [y for y in alts if y != ("unreachable",)] or alts
                    return alts[0] if len(alts) == 1 else ("phi", tuple(alts))
        return self.ret_val(self.inline_env(cb, args, depth, path))

    def apply(self, f, args, site, env):
        """apply a callable term to already evaluated args"""
        if f[0] == "closure":
            cb = self.facts.bodies.get(f[1])
            if cb is None or env.depth >= self.max_inline:
                return ("call", "apply", None, (f,) + tuple(args), site)
            a = {1: f}
            for i, x in enumerate(args):
                a[2 + i] = x
            return self.inline_ret(cb, a, env.depth + 1, site_path(site))
        if f[0] == "fnref" and f[2] and f[2] in self.facts.bodies and f[2] not in self.opaque:
            cb = self.facts.bodies[f[2]]
            if env.depth < self.max_inline:
                return self.inline_ret(cb, {i + 1: x for i, x in enumerate(args)}, env.depth + 1, site_path(site))
        if f[0] == "fnref" and f[1] and not (f[2] and f[2] in self.facts.bodies):
            # a path to an external function used as a callable (`.all(ComplexField::is_finite)`): the same call the
            # closure `|x| x.is_finite()` makes
            return ("call", f[1], None, tuple(args), site)
        return ("call", "apply", None, (f,) + tuple(args), site)

    presence_hook = None   # set by core: (ev, env, block) -> set of conditions holding at block

    def ret_val(self, env):
        body = env.body
        alts = []
        if env.depth > 0 and Eval.presence_hook is not None and body.j.get("output", "").startswith("std::option::Option<"):
            v = self._ret_val_with_presence(env)
            if v is not None:
                return v
        for rb in body.exits():
            if env.exit_filter is not None and not env.exit_filter(rb):
                continue
            v = self._lookup_in_block(env, (0, ()), rb, None, frozenset())
            if v[0] == "phi":
                for a in v[1]:
                    if a not in alts:
                        alts.append(a)
            elif v not in alts:
                alts.append(v)
        alts = [a for a in alts if a != ("unreachable",)] or alts
        if not alts:
            return ("unreachable",)
        if len(alts) == 1:
            return alts[0]
        return ("phi", tuple(alts))

    def _ret_val_with_presence(self, env):
        """return value of an inlined Option-returning callee, each Some(..) alternative carrying
        the conditions that dominate its construction site (if-form presence conditions)"""
        body = env.body
        sites = []
        for bi in sorted(body.live_blocks()):
            bb = body.blocks[bi]
            for si, s in enumerate(bb["stmts"]):
                if s["k"] == "assign" and s["place"]["l"] == 0:
                    if s["place"]["proj"]:
                        return None
                    sites.append((bi, si, None))
            t = bb["term"]
            if t["k"] == "call" and t["dest"]["l"] == 0:
                if t["dest"]["proj"]:
                    return None
                sites.append((bi, None, t))
        alts = []
        for bi, si, t in sites:
            v = self.call_val(env, bi) if t is not None else self.rvalue(env, body.blocks[bi]["stmts"][si]["rv"], (bi, si))
            vs = v[1] if v[0] == "phi" else (v,)
            for a in vs:
                if a[0] == "call" and len(a) == 5:
                    # an Option-valued call returned as is (`xs.iter().position(p)` in tail position): present iff that
                    # call's result is — and only on the paths that reach this return
                    a = ("opt", ("payload", a, "ok", "0"), frozenset([("is_ok", a)]))
                if a[0] == "opt":
                    try:
                        extra = set(Eval.presence_hook(self, env, bi))
                    except RecursionError:
                        extra = set()
                    # a Some(..) produced inside a search loop: present iff SOME element satisfies the conditions
                    for h, blk in body.natural_loops().items():
                        for lb in sorted(blk):
                            tt = body.blocks[lb]["term"]
                            if tt["k"] == "call" and "fn" in tt and callee_id(tt["fn"]) == "std::iter::Iterator::next":
                                # the site lies in the loop, or leaves it from the loop body (early return):
                                # it is only reachable through the `Some` edge of this next()
                                inside = bi in blk
                                if not inside:
                                    for b2 in sorted(blk):
                                        t2 = body.blocks[b2]["term"]
                                        if t2["k"] == "switch":
                                            for st in reversed(body.blocks[b2]["stmts"]):
                                                if st["k"] == "assign" and st["rv"]["k"] == "discr" and st["rv"]["place"]["l"] == tt["dest"]["l"]:
                                                    some = [v for v, n in st["rv"]["variants"] if n == "Some"]
                                                    listed = dict((v, tg) for v, tg in t2["targets"])
                                                    if some:
                                                        tg = listed.get(some[0], t2["otherwise"])
                                                        if body.edge_dominates((b2, tg), bi):
                                                            inside = True
                                                    break
                                if inside:
                                    extra.add(("bound", self.operand(env, tt["args"][0], (lb, None))))
                    a = ("opt", a[1], frozenset(a[2]) | frozenset(extra))
                if a != ("unreachable",) and a not in alts:
                    alts.append(a)
        if not alts:
            return ("unreachable",)
        if len(alts) == 1:
            return alts[0]
        return ("phi", tuple(alts))

    def call_fn(self, env, fn, args, site, t=None):
        cid = callee_id(fn)
        head = fn.get("self_adt")
        # ---- identity adapters ----
        if cid in IDENTITY and args:
            return args[0]
        if cid in REFLEXIVE_CONV and args:
            res = fn.get("resolved", "")
            if "for T>::from" in res or "for T>::into" in res:
                if "resolved_key" not in fn:
                    if "From<T> for T" in res:
                        return args[0]
            if "resolved_key" not in fn and res.startswith("std::convert::<impl") and "for T" in res:
                # `impl<T> From<T> for T` / `impl<T,U: From<T>> Into<U> for T`
                if "From<T> for T" in res:
                    return args[0]
        # ---- slice -> fixed-size array reference: the same elements, present iff the length is N ----
        if cid in ("std::convert::TryInto::try_into", "std::convert::TryFrom::try_from") and args and len(fn.get("gargs", [])) == 2:
            src, dst = fn["gargs"] if cid.endswith("try_into") else (fn["gargs"][1], fn["gargs"][0])
            m = re.match(r"^&(?:mut )?\[.*; (\d+)\]$", dst)
            if m and re.match(r"^&(?:mut )?\[[^;]*\]$", src):
                ln = ("call", "core::slice::len", None, (args[0],), None)
                return ("opt", args[0], frozenset([("pred", ("bin", "Eq", ln, ("const", "usize", int(m.group(1)))))]))
        # ---- slice / Vec `get(i)`: the element, present exactly when i < len ----
        if cid.rsplit("::", 1)[-1] == "get" and ("slice" in cid or cid.startswith("std::vec::Vec")) and len(args) == 2 and "HashMap" not in cid:
            ln = ("call", "core::slice::len", None, (args[0],), None)
            return ("opt", ("call", cid, head, tuple(args), site), frozenset([("pred", ("bin", "Lt", args[1], ln))]))
        # ---- bool::then_some / bool::then: a value that is present exactly when the condition holds ----
        if cid in ("core::bool::then_some", "std::bool::then_some", "bool::then_some") or (cid.endswith("bool::then_some") and len(args) == 2):
            if args[0] == ("const", "bool", 1):
                return ("opt", args[1], frozenset())
            if args[0] == ("const", "bool", 0):
                return ("none",)
            return ("opt", args[1], frozenset([("pred", args[0])]))
        if cid.endswith("bool::then") and len(args) == 2 and args[1][0] in ("closure", "fnref"):
            conds = frozenset() if args[0] == ("const", "bool", 1) else frozenset([("pred", args[0])])
            if args[0] == ("const", "bool", 0):
                return ("none",)
            return ("opt", self.apply_under(conds, args[1], [], site, env), conds)
        # ---- Option / Result algebra ----
        v = self.option_algebra(cid, args, site, env)
        if v is not None:
            return v
        # ---- closures called through Fn traits ----
        if cid in ("std::ops::FnOnce::call_once", "std::ops::FnMut::call_mut", "std::ops::Fn::call"):
            f = args[0]
            if f[0] in ("closure", "fnref") and len(args) == 2 and args[1][0] == "tuple":
                return self.apply(f, list(args[1][1]), site, env)
            return ("call", cid, head, tuple(args), site)
        # ---- the ? operator ----
        if cid == "std::ops::Try::branch":
            return ("cf", args[0])
        if cid == "std::ops::FromResidual::from_residual":
            # `Err(e)?` with the same error type on both sides returns Err(e) unchanged (From<T> for T is the identity)
            ga = fn.get("gargs", [])
            a0 = args[0]
            if len(ga) == 2 and a0[0] == "residual" and a0[1][0] == "agg" and a0[1][2] == "Err" and a0[1][3]:
                def err_ty(x):
                    x = x.strip()
                    if not x.startswith("std::result::Result<") or not x.endswith(">"):
                        return None
                    depth, cur, parts = 0, "", []
                    for ch in x[len("std::result::Result<"):-1]:
                        if ch == "<":
                            depth += 1
                        elif ch == ">":
                            depth -= 1
                        if ch == "," and depth == 0:
                            parts.append(cur.strip())
                            cur = ""
                        else:
                            cur += ch
                    parts.append(cur.strip())
                    return parts[1] if len(parts) == 2 else None
                e1, e2 = err_ty(ga[0]), err_ty(ga[1])
                if e1 is not None and e1 == e2:
                    return ("agg", "std::result::Result", "Err", (("0", a0[1][3][0][1]),))
            return ("from_residual", args[0])
        # ---- local callees are inlined ----
        key = fn.get("resolved_key") or fn.get("key")
        if key and key in self.facts.bodies and key not in self.opaque and env.depth < self.max_inline:
            cb = self.facts.bodies[key]
            return self.inline_ret(cb, {i + 1: x for i, x in enumerate(args)}, env.depth + 1, site_path(site))
        # ---- iteration ----
        if cid == "std::iter::Iterator::next":
            # the element carries the identity of the loop it is drawn in (the `next` call site): two nested loops over
            # equal iterator terms stay distinct; effects.base_iter / norm_elems drop the marker again
            return ("opt", ("elem", ("drv", args[0], ("next",) + tuple(site))), frozenset([("has_next", args[0])]))
        ct = ("call", cid, head, tuple(args), site)
        self.site_conds.setdefault(site[:2], []).append(self.ambient)
        self.site_terms.setdefault(site[:2], []).append(ct)
        return ct

    def apply_under(self, conds, f, args, site, env):
        saved = self.ambient
        self.ambient = saved | frozenset(conds)
        try:
            return self.apply(f, args, site, env)
        finally:
            self.ambient = saved

    def as_opt(self, t):
        """view a term of Option/Result type as ('opt', payload, conds) if possible"""
        if t[0] == "opt":
            return t
        if t[0] == "none":
            return None
        if t[0] == "agg" and t[2] in ("Ok", "Some") and t[3]:
            return ("opt", t[3][0][1], frozenset())
        if t[0] == "phi":
            # e.g. the value of an inlined helper that returns Some(x) on one path and None on others
            pls, conds, ok = [], set(), True
            for a in t[1]:
                if a[0] in ("none", "unreachable", "from_residual") or (a[0] == "agg" and a[2] in ("Err", "None")):
                    continue
                if a[0] == "opt":
                    if a[1] not in pls:
                        pls.append(a[1])
                    conds |= set(a[2])
                elif a[0] == "agg" and a[2] in ("Ok", "Some") and a[3]:
                    if a[3][0][1] not in pls:
                        pls.append(a[3][0][1])
                else:
                    ok = False
            if ok and pls:
                p = pls[0] if len(pls) == 1 else ("phi", tuple(pls))
                return ("opt", p, frozenset(conds) | frozenset([("is_ok", t)]))
        return ("opt", ("payload", t, "ok", "0"), frozenset([("is_ok", t)]))

    def option_algebra(self, cid, args, site, env):
        if not (cid.startswith("std::option::Option::") or cid.startswith("std::result::Result::")):
            return None
        m = cid.rsplit("::", 1)[1]
        a0 = args[0] if args else None
        if m in ("ok",):
            if a0[0] == "agg" and a0[2] == "Ok":
                return ("opt", a0[3][0][1], frozenset())
            if a0[0] == "phi":
                # a locally inlined Result-returning function: keep Ok alternatives
                oks = [a for a in a0[1] if not (a[0] == "agg" and a[2] == "Err") and a[0] != "from_residual"]
                cond = frozenset([("is_ok", a0)])
                pls = []
                for a in oks:
                    if a[0] == "agg" and a[2] == "Ok":
                        pls.append(a[3][0][1])
                    else:
                        pls.append(("payload", a, "ok", "0"))
                if len(pls) == 1:
                    return ("opt", pls[0], cond)
                if pls:
                    return ("opt", ("phi", tuple(pls)), cond)
            return ("opt", ("payload", a0, "ok", "0"), frozenset([("is_ok", a0)]))
        if m in ("map", "and_then", "map_err", "filter", "zip", "ok_or", "ok_or_else", "or_else", "unwrap_or_else"):
            if a0[0] == "none":
                if m in ("map", "and_then", "filter", "zip"):
                    return ("none",)
            if a0[0] == "agg" and a0[2] == "Err" and cid.startswith("std::result::Result::"):
                # a value KNOWN to be Err: success combinators pass it through unchanged
                if m in ("map", "and_then"):
                    return a0
                if m == "map_err" and len(args) > 1:
                    return ("agg", a0[1], "Err", (("0", self.apply(args[1], [a0[3][0][1]], site, env)),))
            if a0[0] == "agg" and a0[2] == "Ok" and m == "map_err":
                return a0
            o = self.as_opt(a0) if a0[0] != "none" else None
            if o is None:
                return None
            _, p, c = o
            if m == "map":
                r = self.apply_under(c, args[1], [p], site, env)
                return ("opt", r, c)
            if m == "and_then":
                r = self.apply_under(c, args[1], [p], site, env)
                if r[0] == "opt":
                    return ("opt", r[1], c | r[2])
                if r[0] == "none":
                    return ("none",)
                ro = self.as_opt(r)
                return ("opt", ro[1], c | ro[2])
            if m == "filter":
                r = self.apply(args[1], [p], site, env)
                return ("opt", p, c | frozenset([("pred", r)]))
            if m == "zip":
                b = args[1]
                if b[0] == "none":
                    return ("none",)
                ob = self.as_opt(b)
                return ("opt", ("tuple", (p, ob[1])), c | ob[2])
            if m in ("ok_or", "ok_or_else", "map_err", "or_else"):
                # Option<T> -> Result<T,E> (or error mapping): presence unchanged
                return ("opt", p, c)
            if m == "unwrap_or_else":
                return ("call", cid, None, (a0, args[1]), site)
        if m == "unzip" and a0 is not None:
            # Option<(A, B)> -> (Option<A>, Option<B>): both present exactly when the pair is
            if a0[0] == "none":
                return ("tuple", (("none",), ("none",)))
            o = self.as_opt(a0)
            if o is not None:
                pl = o[1]
                if pl[0] == "tuple" and len(pl[1]) == 2:
                    x_, y_ = pl[1]
                else:
                    x_, y_ = ("field", pl, "0"), ("field", pl, "1")
                return ("tuple", (("opt", x_, o[2]), ("opt", y_, o[2])))
        if m in ("map_or", "map_or_else", "unwrap_or", "unwrap_or_default") and a0 is not None:
            # the set of possible results: the mapped payload (when present) and the default (when absent)
            if m == "unwrap_or_default":
                dflt = None
            elif m == "map_or_else":
                dflt = self.apply(args[1], [], site, env) if len(args) > 1 else None
            else:
                dflt = args[1] if len(args) > 1 else None
            fn_ = args[2] if m in ("map_or", "map_or_else") and len(args) > 2 else None
            if m in ("map_or", "map_or_else") and fn_ is None:
                return None
            if a0[0] == "none":
                return dflt
            o = self.as_opt(a0)
            if o is not None:
                _, p, c = o
                val = self.apply_under(c, fn_, [p], site, env) if fn_ is not None else p
                known_some = (a0[0] == "agg" and a0[2] in ("Ok", "Some")) or (a0[0] == "opt" and not a0[2])
                if known_some:
                    return val
                if dflt is not None:
                    return ("phi", (val, dflt)) if val != dflt else val
        if m in ("is_err", "is_none"):
            return ("un", "Not", ("is_ok", a0))
        if m in ("is_ok", "is_some"):
            return ("is_ok", a0)
        return None


# ----------------------------------------------------------------------- #
# pretty printing / traversal
# ----------------------------------------------------------------------- #
def short(t, depth=0):
    if not isinstance(t, tuple) or not t:
        return repr(t)
    if depth > 12:
        return "…"
    tag = t[0]
    d = depth + 1
    if tag == "param":
        return "arg%d" % t[2]
    if tag == "const":
        return str(t[2])
    if tag == "field":
        return "%s.%s" % (short(t[1], d), t[2])
    if tag == "call":
        nm = t[1].rsplit("::", 2)
        nm = "::".join(nm[-2:])
        return "%s(%s)" % (nm, ", ".join(short(a, d) for a in t[3]))
    if tag == "agg":
        return "%s::%s{%s}" % (t[1].rsplit("::", 1)[-1], t[2], ", ".join("%s: %s" % (f, short(v, d)) for f, v in t[3]))
    if tag == "tuple":
        return "(%s)" % ", ".join(short(a, d) for a in t[1])
    if tag == "phi":
        return "φ[%s]" % " | ".join(short(a, d) for a in t[1])
    if tag == "opt":
        return "Some(%s)%s" % (short(t[1], d), ("/{%s}" % ", ".join(sorted(short(c, d) for c in t[2]))) if t[2] else "")
    if tag == "closure":
        return "closure<%s>" % t[1].rsplit("::", 1)[-1]
    if tag == "payload":
        return "%s!%s" % (short(t[1], d), t[2])
    if tag == "bin":
        return "%s(%s, %s)" % (t[1], short(t[2], d), short(t[3], d))
    if tag == "un":
        return "%s(%s)" % (t[1], short(t[2], d))
    if tag == "mutated":
        return "mut@%s[%s]" % (t[2][1], short(t[1], d))
    if tag == "update":
        return "%s{%s := %s}" % (short(t[1], d), ".".join(str(p[-1]) for p in t[2]), short(t[3], d))
    if tag in ("is_ok", "pred", "has_next", "elem", "idx", "discr", "cf", "residual", "from_residual"):
        return "%s(%s)" % (tag, short(t[1], d))
    if tag == "as":
        return "(%s as %s)" % (short(t[1], d), t[2])
    if tag == "cast":
        return "cast(%s)" % short(t[2], d)
    if tag == "fnref":
        return "fn:" + t[1]
    if tag == "constitem":
        return "const:%s" % t[1].rsplit("::", 1)[-1]
    if tag == "index":
        return "%s[%s]" % (short(t[1], d), short(t[2], d))
    return "%s%s" % (tag, "(" + ", ".join(short(a, d) if isinstance(a, tuple) else str(a) for a in t[1:]) + ")" if len(t) > 1 else "")


def walk(t):
    """pre-order traversal of all sub-terms"""
    st = [t]
    while st:
        x = st.pop()
        if isinstance(x, (tuple, frozenset)):
            if isinstance(x, tuple) and x and isinstance(x[0], str):
                yield x
            for y in x:
                if isinstance(y, (tuple, frozenset)):
                    st.append(y)


def contains(t, pred):
    return any(pred(x) for x in walk(t))


def unknowns_in(t):
    return [x for x in walk(t) if x[0] in ("unknown", "uninit", "loopback")]
