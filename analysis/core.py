"""Rule framework: reports, instance keys, floors, role resolution, guard queries."""
import json
import os
from mir import Facts, Body, place_str, op_str, loc_str, callee_name
from terms import Eval, Env, callee_id, strip_generics, short, walk, contains, place_key, proj_key

TRAIT_MODEL = "model::SeparableNonlinearModel"
TRAIT_LSP = "levenberg_marquardt::LeastSquaresProblem"
ADT_PROBLEM = "solvers::levmar::LevMarProblem"
ADT_PBUILDER = "solvers::levmar::builder::LevMarProblemBuilder"
ADT_SOLVER = "solvers::levmar::LevMarSolver"
ADT_FITRESULT = "solvers::levmar::FitResult"
ADT_STATS = "statistics::FitStatistics"
ADT_SEPMODEL = "model::SeparableModel"
ADT_MBUILDER = "model::builder::SeparableModelBuilder"
ADT_WEIGHTS = "util::weights::Weights"
ADT_DIAG = "util::DiagMatrix"


class Report:
    """collects rule instances for one property run"""

    def __init__(self, prop):
        self.prop = prop
        self.instances = []  # dicts
        self.floors = {}  # (rule, config) -> (min, what)
        self.notes = []

    def add(self, rule, config, fn, inst, ok, msg="", loc=None, detail=None):
        key = "%s:%s:%s:%s" % (rule, config, fn, inst)
        self.instances.append(
            {"key": key, "rule": rule, "config": config, "fn": fn, "inst": inst, "ok": bool(ok), "msg": msg,
             "loc": loc_of(loc), "detail": detail}
        )
        return ok

    def ok(self, rule, config, fn, inst, msg="", loc=None, detail=None):
        return self.add(rule, config, fn, inst, True, msg, loc, detail)

    def bad(self, rule, config, fn, inst, msg, loc=None, detail=None):
        return self.add(rule, config, fn, inst, False, msg, loc, detail)

    def floor(self, rule, config, minimum, what=""):
        self.floors[(rule, config)] = (minimum, what)

    def count(self, rule, config):
        return sum(1 for i in self.instances if i["rule"] == rule and i["config"] == config)

    def finish_floors(self):
        for (rule, config), (minimum, what) in sorted(self.floors.items()):
            n = self.count(rule, config)
            if n < minimum:
                self.bad(rule, config, "-", "floor",
                         "matched %d instance(s), fewer than the %d confirmed by hand (%s): anchor missing or rule vacuous" % (n, minimum, what))

    def violations(self):
        return [i for i in self.instances if not i["ok"]]


def loc_of(span):
    if span is None:
        return None
    if isinstance(span, str):
        return span
    return "%s:%d" % (span["file"], span["line"])


# --------------------------------------------------------------------------- #
# role resolution (fields by type / use, never by name)
# --------------------------------------------------------------------------- #
class AnchorMissing(Exception):
    pass


def adt(F, path):
    a = F.adts.get(path)
    if a is None:
        raise AnchorMissing("type %s not found" % path)
    return a


def struct_fields(F, path):
    a = adt(F, path)
    return a["variants"][0]["fields"]


def problem_roles(F):
    """{role: field name} for LevMarProblem, resolved by field type"""
    fs = struct_fields(F, ADT_PROBLEM)
    roles = {}

    def one(role, pred):
        m = [f for f in fs if pred(f)]
        if len(m) != 1:
            raise AnchorMissing("role %s of LevMarProblem resolves to %d fields" % (role, len(m)))
        roles[role] = m[0]["name"]

    one("cache", lambda f: f["ty"].startswith("std::option::Option<"))
    one("weights", lambda f: f.get("adt") == ADT_WEIGHTS)
    one("model", lambda f: f["ty"] == "Model")
    one("data", lambda f: f.get("adt") == "nalgebra::Matrix")
    one("eps", lambda f: "RealField" in f["ty"] and f.get("adt") is None)
    if len(fs) != 5:
        roles["_extra"] = [f["name"] for f in fs if f["name"] not in roles.values()]
    return roles


def cache_adt_path(F):
    fs = struct_fields(F, ADT_PROBLEM)
    c = [f for f in fs if f["ty"].startswith("std::option::Option<")]
    if len(c) != 1:
        raise AnchorMissing("cache role")
    inner = c[0]["ty"][len("std::option::Option<"):]
    path = inner.split("<", 1)[0]
    if path not in F.adts:
        raise AnchorMissing("cache payload type %s is not a local struct" % path)
    return path


def cache_roles(F):
    """svd role by type; the two DMatrix fields are told apart by use (see rules)"""
    path = cache_adt_path(F)
    fs = struct_fields(F, path)
    svd = [f["name"] for f in fs if f.get("adt") == "nalgebra::SVD"]
    mats = [f["name"] for f in fs if f.get("adt") == "nalgebra::Matrix"]
    if len(svd) != 1 or len(mats) < 2:
        # (further matrix fields may be kept alongside — which two are the coefficients and the residuals is decided by
        # use: resolve_cache_roles_by_use)
        raise AnchorMissing("cache struct shape: svd=%s matrices=%s" % (svd, mats))
    return {"path": path, "svd": svd[0], "mats": mats, "all": [f["name"] for f in fs]}


def default_opaque(F):
    """callees that rules keep symbolic: the two weight-multiplication operators"""
    return frozenset(k for k in F.bodies if " as std::ops::Mul<" in k)


def merged(F, b):
    """the body with its private helpers spliced in (inline.py): one control-flow graph per analysed method"""
    import inline
    return inline.inlined(F, b, no_inline=default_opaque(F))


def lsp_impls(F, merge=True):
    """{flavour self_ty: {method: Body}} for every impl of LeastSquaresProblem on LevMarProblem; the bodies are
    the merged views (private helpers inlined) unless merge=False"""
    out = {}
    for b in F.bodies.values():
        im = b.j.get("impl")
        if im and im.get("trait") == TRAIT_LSP and im.get("self_adt") == ADT_PROBLEM:
            out.setdefault(im["self_ty"], {})[b.name] = merged(F, b) if merge else b
    return out


def flavour_of(self_ty):
    last = self_ty.rstrip(">").rsplit(",", 1)[-1].strip()
    if last in ("PARALLEL_YES", "true"):
        return "par"
    if last in ("PARALLEL_NO", "false"):
        return "seq"
    return last


def inherent_methods(F, adt_path, name=None):
    out = []
    for b in F.bodies.values():
        im = b.j.get("impl")
        if im and im.get("self_adt") == adt_path and "trait" not in im:
            if name is None or b.name == name:
                out.append(b)
    return out


def trait_impl_methods(F, trait, self_adt=None, name=None):
    out = []
    for b in F.bodies.values():
        im = b.j.get("impl")
        if im and im.get("trait") == trait:
            if self_adt is not None and im.get("self_adt") != self_adt:
                continue
            if name is None or b.name == name:
                out.append(b)
    return out


def body_and_closures(F, b):
    out = [b] + F.all_closures_under(b.key)
    for k in b.j.get("inlined", []):
        out.extend(F.all_closures_under(k))
    return out


def is_model_call(t, name=None):
    if t["k"] != "call" or "fn" not in t:
        return False
    f = t["fn"]
    if f.get("trait") != TRAIT_MODEL:
        return False
    return name is None or f["name"] == name


def call_is(t, cid_suffix):
    if t["k"] != "call" or "fn" not in t:
        return False
    return callee_id(t["fn"]).endswith(cid_suffix)


# --------------------------------------------------------------------------- #
# guard queries
# --------------------------------------------------------------------------- #
NEG = {"Eq": "Ne", "Ne": "Eq", "Lt": "Ge", "Ge": "Lt", "Le": "Gt", "Gt": "Le"}
FLIP = {"Eq": "Eq", "Ne": "Ne", "Lt": "Gt", "Gt": "Lt", "Le": "Ge", "Ge": "Le"}


def canon_rel(term, truth=True):
    """canonical (rel, a, b) for a boolean term holding with `truth`, rel in
    Eq/Ne/Lt/Le; None if the term is not a comparison"""
    while term[0] == "un" and term[1] == "Not":
        term = term[2]
        truth = not truth
    if term[0] == "bin" and term[1] in NEG:
        rel, a, b = term[1], term[2], term[3]
    elif term[0] == "call" and term[1].endswith("::contains") and ("ops::Range" in term[1] or "RangeBounds" in term[1]) and len(term[3]) == 2 and \
            term[3][0][0] == "agg" and term[3][0][1].endswith("ops::Range") and dict(term[3][0][3]).get("start") == ("const", "usize", 0):
        # `(0..n).contains(&i)` on unsigned indices is `i < n`
        rel, a, b = "Lt", term[3][1], dict(term[3][0][3]).get("end")
    elif term[0] == "call" and term[1].startswith("std::cmp::Partial") and len(term[3]) == 2:
        m = term[1].rsplit("::", 1)[1]
        rel = {"eq": "Eq", "ne": "Ne", "lt": "Lt", "le": "Le", "gt": "Gt", "ge": "Ge"}.get(m)
        if rel is None:
            return None
        a, b = term[3]
    else:
        return None
    if not truth:
        rel = NEG[rel]
    if rel in ("Gt", "Ge"):
        rel, a, b = FLIP[rel], b, a
    if rel in ("Eq", "Ne") and repr(a) > repr(b):
        a, b = b, a
    return (rel, a, b)


def expand_bool(term, truth):
    """[(atom, truth)] implied by `term == truth`: conjunctions that hold and disjunctions that fail split into their
    members, negations flip"""
    if term[0] == "un" and term[1] == "Not":
        return expand_bool(term[2], not truth)
    if term[0] == "bin" and ((term[1] == "LAnd" and truth) or (term[1] == "LOr" and not truth)):
        return expand_bool(term[2], truth) + expand_bool(term[3], truth)
    return [(term, truth)]


class Guards:
    """switch blocks of a body with their condition terms"""

    def __init__(self, ev, body, env=None):
        self.ev = ev
        self.body = body
        self.env = env or Env(body)
        self.switches = []
        live = body.live_blocks()
        for bi in sorted(live):
            t = body.blocks[bi]["term"]
            if t["k"] == "switch":
                term = ev.operand(self.env, t["op"], (bi, None))
                self.switches.append({"block": bi, "term": term, "targets": t["targets"], "otherwise": t["otherwise"],
                                      "span": t.get("span"), "body": body})
            elif t["k"] == "assert":
                pass

    def bool_edges(self, sw, truth):
        """edges (from, to) taken when the switch operand (a bool) has value `truth`"""
        b = sw["block"]
        zero = [t for v, t in sw["targets"] if v == 0]
        if truth:
            tg = [t for v, t in sw["targets"] if v != 0]
            if not tg:
                tg = [sw["otherwise"]]
            return [(b, t) for t in tg]
        return [(b, t) for t in zero] if zero else []

    def variant_edges(self, sw, variant_value_pred):
        """edges of a discriminant switch whose value satisfies pred; `otherwise` is
        included if some unlisted variant satisfies it (caller passes all_values)"""
        b = sw["block"]
        return [(b, t) for v, t in sw["targets"] if variant_value_pred(v)]

    def find(self, pred):
        return [s for s in self.switches if pred(s["term"])]

    def holds_on_all_paths_to(self, block, edge_sets):
        """True if `block` is unreachable once the union of edges is removed,
        i.e. every path to block takes one of them"""
        edges = set()
        for es in edge_sets:
            edges |= set(es)
        r = self.body.reachable(0, avoid_edges=edges)
        return block not in r

    def dominating_conditions(self, block):
        """[(switch, value-set or 'otherwise')] for switches that dominate `block` through
        exactly one of their outgoing edges"""
        out = []
        body = self.body
        for sw in self.switches:
            s = sw["block"]
            if s == block or not body.dominates(s, block):
                continue
            reach = []
            succs = []
            for v, t in sw["targets"]:
                succs.append((v, t))
            succs.append(("otherwise", sw["otherwise"]))
            for v, t in succs:
                r = body.reachable(t, avoid=[s]) if t != s else set()
                if block in r or t == block:
                    reach.append((v, t))
            tgts = set(t for _, t in reach)
            if len(tgts) == 1:
                out.append((sw, [v for v, _ in reach]))
        return out

    def _call_behind(self, local, depth=0):
        """the call terminator (block, t) whose result flows into `local` through
        Try::branch / moves / as_ref-like adapters, if it is a call of a local function"""
        body = self.body
        if depth > 6:
            return None
        for bi in sorted(body.live_blocks()):
            bb = body.blocks[bi]
            t = bb["term"]
            if t["k"] == "call" and t["dest"]["l"] == local and not t["dest"]["proj"] and "fn" in t:
                fn = t["fn"]
                key = fn.get("resolved_key") or fn.get("key")
                if key and key in self.ev.facts.bodies and key not in self.ev.opaque:
                    return (bi, t, key)
                cid = callee_id(fn)
                if cid in ("std::ops::Try::branch",) or cid.rsplit("::", 1)[-1] in ("as_ref", "map_err", "ok", "ok_or", "ok_or_else"):
                    a = t["args"][0]
                    if a["k"] in ("copy", "move"):
                        return self._call_behind(a["place"]["l"], depth + 1)
                return None
            for s in bb["stmts"]:
                if s["k"] == "assign" and s["place"]["l"] == local and not s["place"]["proj"]:
                    rv = s["rv"]
                    if rv["k"] == "use" and rv["op"]["k"] in ("copy", "move") and not rv["op"]["place"]["proj"]:
                        return self._call_behind(rv["op"]["place"]["l"], depth + 1)
                    if rv["k"] == "ref" and not rv["place"]["proj"]:
                        return self._call_behind(rv["place"]["l"], depth + 1)
                    return None
        return None

    def callee_success_conditions(self, sw, vals, depth=0):
        """conditions (rels, raw) that the success of a local callee implies: the switch `sw`
        tests the Ok/Some/Continue-ness of a local call's result and is passed on a success edge"""
        if depth > 3:
            return [], []
        body = self.body
        variants, adt_, place = discr_variants(body, sw["block"])
        if not variants or place is None or place["proj"]:
            return [], []
        names = dict(variants)
        if not vals or not all(names.get(v) in ("Ok", "Some", "Continue") for v in vals if v != "otherwise"):
            return [], []
        if "otherwise" in vals and any(n not in ("Ok", "Some", "Continue") for v, n in variants if v not in [x for x in vals if x != "otherwise"] and v not in dict(body.blocks[sw["block"]]["term"]["targets"])):
            return [], []
        hit = self._call_behind(place["l"])
        if not hit:
            return [], []
        cbi, ct, key = hit
        cb = self.ev.facts.bodies[key]
        args = [self.ev.operand(self.env, a, (cbi, None)) for a in ct["args"]]
        cenv = self.ev.inline_env(cb, {i + 1: x for i, x in enumerate(args)}, self.env.depth + 1, self.env.path + ((body.key, cbi),))
        cb = cenv.body
        cg = Guards(self.ev, cb, cenv)
        sites = [bi for bi, si, s in cb.stmts() if s["k"] == "assign" and s["place"]["l"] == 0 and not s["place"]["proj"]
                 and s["rv"]["k"] == "agg" and s["rv"].get("variant") in ("Ok", "Some")]
        if not sites:
            # the callee may hand on the result of a private helper of its own (`fn fit(..) { … result.into_result() }`):
            # look at it with its private helpers spliced in; the helper's return slot flows into the callee's
            try:
                mb = merged(self.ev.facts, self.ev.facts.bodies[key])
            except Exception:
                mb = None
            if mb is not None and mb is not self.ev.facts.bodies[key]:
                menv = Env(mb, {i + 1: x for i, x in enumerate(args)}, self.env.depth + 1, path=self.env.path + ((body.key, cbi),))
                slots = {0}
                changed = True
                while changed:
                    changed = False
                    for bi, si, s in mb.stmts():
                        if s["k"] == "assign" and s.get("inl") == "ret" and not s["place"]["proj"] and s["place"]["l"] in slots and s["rv"]["k"] == "use" \
                                and s["rv"]["op"]["k"] in ("move", "copy") and not s["rv"]["op"]["place"]["proj"] and s["rv"]["op"]["place"]["l"] not in slots:
                            slots.add(s["rv"]["op"]["place"]["l"])
                            changed = True
                msites = [bi for bi, si, s in mb.stmts() if s["k"] == "assign" and s["place"]["l"] in slots and not s["place"]["proj"]
                          and s["rv"]["k"] == "agg" and s["rv"].get("variant") in ("Ok", "Some")]
                if msites:
                    cb, cenv, sites = mb, menv, msites
                    cg = Guards(self.ev, cb, cenv)
        extra = {}
        if not sites:
            # the callee hands on a value whose presence is a condition (`…; cond.then_some(()).ok_or(E)` as its last
            # expression): every exit that can return a success counts, with the presence conditions of what it returns
            from terms import variant_of
            defs = []      # where the return value is defined: calls / assignments writing the whole return place
            for xb in sorted(cb.live_blocks()):
                t_ = cb.blocks[xb]["term"]
                if t_["k"] == "call" and t_["dest"]["l"] == 0 and not t_["dest"]["proj"] and t_.get("t") is not None:
                    defs.append((xb, "call"))
                for si_, s_ in enumerate(cb.blocks[xb]["stmts"]):
                    if s_["k"] == "assign" and s_["place"]["l"] == 0 and not s_["place"]["proj"]:
                        defs.append((xb, si_))
            for xb, how in defs:
                try:
                    v = self.ev.call_val(cenv, xb) if how == "call" else self.ev.rvalue(cenv, cb.blocks[xb]["stmts"][how]["rv"], (xb, how))
                except RecursionError:
                    return [], []
                alts = v[1] if v[0] == "phi" else (v,)
                alts = [a for a in alts if not (a[0] in ("none", "from_residual") or variant_of(a) in ("Err", "None"))]
                if not alts:
                    continue
                sites.append(xb)
                pcs = None
                for a in alts:
                    ps = set((c[1], True) for c in a[2] if c[0] == "pred") if a[0] == "opt" and len(a) >= 3 else set()
                    pcs = ps if pcs is None else (pcs & ps)
                extra[xb] = pcs or set()
        if not sites:
            return [], []
        rel_sets, raw_sets = [], []
        for sb in sites:
            r, w = cg.relations_at(sb, depth + 1)
            w = list(w)
            r = list(r)
            for c_, tr_ in extra.get(sb, ()):
                for c2, t2 in expand_bool(c_, tr_):
                    w.append((c2, t2, None))
                    rr = canon_rel(c2, t2)
                    if rr:
                        r.append(rr)
            for fa in foralls_at(cg, sb):
                w.append((fa, "forall", None))
            rel_sets.append(set(r))
            raw_sets.append(w)
        rels = list(set.intersection(*rel_sets)) if rel_sets else []
        raw = raw_sets[0] if len(raw_sets) == 1 else [x for x in raw_sets[0] if all(any(x[0] == y[0] and x[1] == y[1] for y in rs) for rs in raw_sets[1:])]
        return rels, raw

    def post_conditions(self, call_block, depth=0):
        """(rels, raw) that hold whenever the local call in `call_block` RETURNS: the conditions common to all
        normal exits of the callee, with the call's arguments substituted (a checking helper that panics or loops
        unless its arguments agree: `expect_len(n, xs.len())`)"""
        memo = self.__dict__.setdefault("_post", {})
        if call_block in memo:
            return memo[call_block]
        memo[call_block] = ([], [])
        body = self.body
        t = body.blocks[call_block]["term"]
        if t["k"] != "call" or "fn" not in t or depth > 2:
            return memo[call_block]
        key = t["fn"].get("resolved_key") or t["fn"].get("key")
        cb = self.ev.facts.bodies.get(key)
        if cb is None or key in self.ev.opaque:
            return memo[call_block]
        # only worth it for callees that can fail to return (a panic / abort edge): otherwise nothing is learnt
        if not any(bb["term"]["k"] == "call" and bb["term"].get("t") is None for bb in cb.blocks) and \
                not any(bb["term"]["k"] == "assert" for bb in cb.blocks):
            return memo[call_block]
        try:
            args = [self.ev.operand(self.env, a, (call_block, None)) for a in t["args"]]
            cenv = self.ev.inline_env(cb, {i + 1: x for i, x in enumerate(args)}, self.env.depth + 1, self.env.path + ((body.key, call_block),))
            cg = Guards(self.ev, cenv.body, cenv)
            exits = cenv.body.exits()
            if not exits:
                return memo[call_block]
            rel_sets, raw_sets = [], []
            for xb in exits:
                r, w = cg.relations_at(xb, depth + 1)
                rel_sets.append(set(r))
                raw_sets.append([x for x in w if isinstance(x[1], bool)])
            rels = list(set.intersection(*rel_sets))
            raw = [x for x in raw_sets[0] if all(any(x[0] == y[0] and x[1] == y[1] for y in rs) for rs in raw_sets[1:])]
            memo[call_block] = (rels, raw)
        except RecursionError:
            pass
        return memo[call_block]

    def relations_at(self, block, depth=0):
        """canonical relations that hold on every path to `block` (from dominating
        bool switches, and — interprocedurally — from the success of local callees whose
        result is tested on a dominating edge, and from local callees that only return when a
        condition on their arguments holds) plus raw (term, truth) pairs"""
        rels = []
        raw = []
        if depth <= 2:
            body = self.body
            for cbk in sorted(body.live_blocks()):
                if cbk == block or not body.dominates(cbk, block):
                    continue
                t = body.blocks[cbk]["term"]
                if t["k"] == "call" and "fn" in t and (t["fn"].get("resolved_key") or t["fn"].get("key")) in self.ev.facts.bodies:
                    r2, w2 = self.post_conditions(cbk, depth)
                    rels.extend(r2)
                    raw.extend(w2)
        for sw, vals in self.dominating_conditions(block):
            t = sw["term"]
            if t[0] == "discr":
                raw.append((t, tuple(vals), sw))
                r2, w2 = self.callee_success_conditions(sw, vals, depth)
                rels.extend(r2)
                raw.extend(w2)
                for c, truth in self.presence_conditions(sw, vals):
                    for c2, t2 in expand_bool(c, truth):
                        raw.append((c2, t2, sw))
                        r = canon_rel(c2, t2)
                        if r:
                            rels.append(r)
                continue
            if vals == [0]:
                truth = False
            elif vals == ["otherwise"] and [v for v, _ in sw["targets"]] == [0]:
                truth = True
            elif 0 not in vals and len(sw["targets"]) == 1 and sw["targets"][0][0] == 0:
                truth = True
            else:
                raw.append((t, tuple(vals), sw))
                continue
            raw.append((t, truth, sw))
            r = canon_rel(t, truth)
            if r:
                rels.append(r)
            for c2, t2 in expand_bool(t, truth):
                if (c2, t2) != (t, truth):
                    raw.append((c2, t2, sw))
                    r = canon_rel(c2, t2)
                    if r:
                        rels.append(r)
        return rels, raw

    def presence_conditions(self, sw, vals):
        """[(condition, truth)] implied by the edge of a test of an Option/Result whose presence is a condition —
        `cond.then_some(v)`, `cond.then(|| v)`, also behind `ok_or(..)` / `?`: on the Some/Ok/Continue edge the condition
        holds, on the None/Err/Break edge (a single condition) it does not"""
        t = sw["term"]
        x = t[1] if t[0] == "discr" else None
        while x is not None and x[0] in ("cf",):
            x = x[1]
        if x is not None:
            x = conditional_opt(x)
        if x is None or x[0] != "opt" or len(x) < 3 or not x[2]:
            return []
        preds = [c[1] for c in x[2] if c[0] == "pred"]
        only_preds = len(preds) == len(x[2])
        if not preds:
            return []
        variants, adt_, place = discr_variants(self.body, sw["block"])
        if not variants:
            return []
        names = dict(variants)
        listed = set(v for v, _ in self.body.blocks[sw["block"]]["term"]["targets"])
        got = set()
        for v in vals:
            if v == "otherwise":
                got |= set(n for vv, n in variants if vv not in listed)
            else:
                got.add(names.get(v))
        if got and got <= {"Ok", "Some", "Continue"}:
            return [(c, True) for c in preds]
        if got and got <= {"Err", "None", "Break"} and len(preds) == 1 and only_preds:
            return [(preds[0], False)]
        return []


def foralls_at(g, block):
    """loop summaries: [('forall', iterator term, condition term, truth)] — `block` is only reachable
    after a for-loop ran to exhaustion, and inside that loop the other outcome of the condition
    leaves towards code from which `block` cannot be reached"""
    body, ev, env = g.body, g.ev, g.env
    out = []
    for h, blk in body.natural_loops().items():
        for lb in sorted(blk):
            t = body.blocks[lb]["term"]
            if not (t["k"] == "call" and "fn" in t and callee_id(t["fn"]) == "std::iter::Iterator::next"):
                continue
            sw = None
            for b2 in sorted(blk):
                t2 = body.blocks[b2]["term"]
                if t2["k"] == "switch":
                    variants, _, place = discr_variants(body, b2)
                    if variants and place["l"] == t["dest"]["l"] and not place["proj"]:
                        sw = b2
            if sw is None:
                continue
            yes, no = variant_edge(body, sw, "None")
            if not yes or any(tg in blk for _, tg in yes):
                continue
            if not all(body.edge_dominates(e, block) or e[1] == block for e in yes[:1]):
                continue
            it = ev.operand(env, t["args"][0], (lb, None))
            def aborting_edges(es):
                for _, tg in es:
                    if tg in blk:
                        r = body.reachable(tg, avoid=[h])
                        if h in body.succ(tg) or any(h in body.succ(x) for x in r if x in blk) or block in r:
                            return False
                    elif block in body.reachable(tg) or tg == block:
                        return False
                return True

            for s in g.switches:
                if s["block"] not in blk or s["block"] == sw:
                    continue
                if s["term"][0] == "discr":
                    # `match opt { Some(..) => .., None => return .. }` inside the loop
                    yes_s, _ = variant_edge(body, s["block"], "Some")
                    yes_o, _ = variant_edge(body, s["block"], "Ok")
                    no_n, _ = variant_edge(body, s["block"], "None")
                    no_e, _ = variant_edge(body, s["block"], "Err")
                    pres, absn = (yes_s or yes_o), (no_n or no_e)
                    inner = s["term"][1]
                    if absn and aborting_edges(absn):
                        out.append(("forall", it, ("is_ok", inner), True))
                    elif pres and aborting_edges(pres):
                        out.append(("forall", it, ("is_ok", inner), False))
                    continue
                for truth in (True, False):
                    es = g.bool_edges(s, truth)
                    if not es:
                        continue
                    aborting = True
                    for _, tg in es:
                        if tg in blk:
                            r = body.reachable(tg, avoid=[h])
                            if h in body.succ(tg) or any(h in body.succ(x) for x in r if x in blk) or block in r:
                                aborting = False
                        elif block in body.reachable(tg) or tg == block:
                            aborting = False
                    if aborting:
                        out.append(("forall", it, s["term"], not truth))
    return out


def presence_conditions(ev, env, block):
    """conditions that hold whenever `block` of env.body executes (bool guards, loop summaries)"""
    g = Guards(ev, env.body, env)
    rels, raw = g.relations_at(block)
    out = set()
    for term, truth, sw in raw:
        if isinstance(truth, bool):
            out.add(("pred", term if truth else ("un", "Not", term)))
        elif truth == "forall":
            out.add(term)
        elif term[0] == "discr" and isinstance(truth, tuple) and truth:
            # the success edge of a test of an Option/Result (`?`, `let Some(x) = … else`, `if let Ok(..)`): present
            variants, _, _ = discr_variants(sw.get("body", env.body), sw["block"]) if sw is not None else (None, None, None)
            names = dict(variants or [])
            if all(names.get(v) in ("Some", "Ok", "Continue") for v in truth if v != "otherwise") and "otherwise" not in truth:
                inner = term[1]
                while inner[0] == "cf":
                    inner = inner[1]
                if inner[0] not in ("opt", "none", "agg") or (inner[0] == "opt" and inner[2]):
                    if inner[0] == "opt":
                        for c in inner[2]:
                            out.add(c)
                    else:
                        out.add(("is_ok", inner))
    for f in foralls_at(g, block):
        out.add(f)
    return out


Eval.presence_hook = staticmethod(presence_conditions)


def discr_variants(body, sw_block):
    """[(value, name)] table for a switch whose operand is a discriminant read in the same block"""
    for s in reversed(body.blocks[sw_block]["stmts"]):
        if s["k"] == "assign" and s["rv"]["k"] == "discr":
            return s["rv"]["variants"], s["rv"]["adt"], s["rv"]["place"]
    return None, None, None


def variant_edge(body, sw_block, variant):
    """(edges taken when the matched enum has `variant`, edges taken otherwise)"""
    variants, adt_, place = discr_variants(body, sw_block)
    t = body.blocks[sw_block]["term"]
    if variants is None or t["k"] != "switch":
        return None, None
    val = [v for v, n in variants if n == variant]
    if not val:
        return None, None
    val = val[0]
    listed = {v: tg for v, tg in t["targets"]}
    yes, no = [], []
    for v, n in variants:
        tg = listed.get(v, t["otherwise"])
        (yes if v == val else no).append((sw_block, tg))
    return yes, no


# --------------------------------------------------------------------------- #
def find_assignments(body, pred_place=None):
    for bi, si, s in body.stmts():
        if s["k"] == "assign" and (pred_place is None or pred_place(s["place"])):
            yield bi, si, s


def field_path_of(place):
    """names of field projections (ignoring deref/downcast)"""
    return [e["name"] for e in place["proj"] if e["k"] == "field"]


def root_is_self(body, place):
    return place["l"] == 1


def writes_to_field(body, owner_adt, field):
    """assign statements whose place projects `field` of owner_adt (any base)"""
    out = []
    for bi, si, s in body.stmts():
        if s["k"] != "assign":
            continue
        for e in s["place"]["proj"]:
            if e["k"] == "field" and e.get("owner") == owner_adt and e["name"] == field:
                out.append((bi, si, s))
                break
    return out


def is_cleanup_region(body, block, after_stmt=None):
    """True if nothing reachable from `block` (from the statement after `after_stmt` on, if given: the test may share
    its block with the last real statement of the function) has an effect other than drops, drop-flag /
    discriminant temporaries and the unit return value: a test there cannot influence state"""
    again = after_stmt is not None and block in set(x for t_ in body.succ(block) for x in body.reachable(t_))
    for b in body.reachable(block):
        bb = body.blocks[b]
        for si_, s in enumerate(bb["stmts"]):
            if b == block and after_stmt is not None and not again and si_ <= after_stmt:
                continue
            if s["k"] != "assign":
                return False
            d = s["place"]
            if d["proj"]:
                return False
            ty = body.local_ty(d["l"])
            if ty in ("bool", "isize", "usize", "u8", "i8", "u32", "i32", "u64", "i64") and s["rv"]["k"] in ("use", "discr"):
                if s["rv"]["k"] == "use" and s["rv"]["op"]["k"] != "const":
                    return False
                continue
            if ty == "()" and s["rv"]["k"] == "use" and s["rv"]["op"]["k"] == "const":
                continue
            return False
        if bb["term"]["k"] not in ("goto", "switch", "drop", "return", "unreachable"):
            return False
    return True


def effect_calls(ev, env, depth=0, max_depth=4):
    """all external call sites executed (flow-insensitively) by env.body including inlined
    local callees: yields (cid, head, [arg terms], terminator, body, block)"""
    body = env.body
    for bi, t in body.calls():
        if "fn" not in t:
            continue
        fn = t["fn"]
        key = fn.get("resolved_key") or fn.get("key")
        args = [ev.operand(env, a, (bi, None)) for a in t["args"]]
        if key and key in ev.facts.bodies and key not in ev.opaque and depth < max_depth:
            cb = ev.facts.bodies[key]
            sub = ev.inline_env(cb, {i + 1: x for i, x in enumerate(args)}, depth + 1, env.path + ((body.key, bi),))
            for r in effect_calls(ev, sub, depth + 1, max_depth):
                yield r
        else:
            yield (callee_id(fn), fn.get("self_adt"), args, t, body, bi)


def closure_terms_in(ev, env):
    """closure aggregates built in env.body: {closure key: term}"""
    out = {}
    for bi, si, s in env.body.stmts():
        if s["k"] == "assign" and s["rv"]["k"] == "agg" and s["rv"]["agg"] == "closure":
            out[s["rv"]["closure"]] = ev.rvalue(env, s["rv"], (bi, si))
    return out


def final_deref_values(ev, env):
    """for bodies that write through pointer arguments (`*out = v`): {pointer term: final
    value of the pointee at the normal exit}"""
    body = env.body
    ptrs = set()
    for bi, si, s in body.stmts():
        if s["k"] == "assign" and s["place"]["proj"] and s["place"]["proj"][0]["k"] == "deref" and len(s["place"]["proj"]) == 1:
            ptrs.add(s["place"]["l"])
    for bi, t in body.calls():
        d = t["dest"]
        if d["proj"] and d["proj"][0]["k"] == "deref" and len(d["proj"]) == 1:
            ptrs.add(d["l"])
    out = {}
    exits = body.exits()
    for k in sorted(ptrs):
        base = ev.lookup(env, (k, ()), (exits[0], None)) if exits else None
        while base is not None and base[0] == "update" and base[2] and base[2][0] == ("deref",):
            base = base[1]  # the pointer itself, not what was stored through it
        vals = []
        for e in exits:
            v = ev._lookup_in_block(env, (k, (("deref",),)), e, None, frozenset())
            if v not in vals:
                vals.append(v)
        out[base] = vals[0] if len(vals) == 1 else ("phi", tuple(vals))
    return out


def feasible_variants(body, test_block):
    """variants the matched place can still have at `test_block`, given earlier tests of the
    same place that dominate it (drop elaboration re-tests discriminants on arms where the
    variant is already known); None = unconstrained"""
    variants, adt_, place = discr_variants(body, test_block)
    if not variants:
        return None
    pk = place_key(place)
    allowed = None
    for sb in sorted(body.live_blocks()):
        if sb == test_block or not body.dominates(sb, test_block):
            continue
        t = body.blocks[sb]["term"]
        if t["k"] != "switch":
            continue
        v2, a2, p2 = discr_variants(body, sb)
        if not v2 or place_key(p2) != pk:
            continue
        # the local must not be redefined between: temporaries holding call results are assigned once
        listed = dict((v, tg) for v, tg in t["targets"])
        ok_vals = set()
        for v, n in v2:
            tg = listed.get(v, t["otherwise"])
            r = body.reachable(tg, avoid=[sb])
            if test_block in r or tg == test_block:
                ok_vals.add(n)
        allowed = ok_vals if allowed is None else (allowed & ok_vals)
    return allowed


def pruned(body, block, keep_target):
    """copy of a body in which the switch of `block` is replaced by a goto to one target
    (path restriction without path enumeration)"""
    j = dict(body.j)
    blocks = list(j["blocks"])
    bb = dict(blocks[block])
    bb["term"] = {"k": "goto", "t": keep_target}
    blocks[block] = bb
    j["blocks"] = blocks
    return Body(j, body.facts)


def is_absent_value(a):
    """a term that denotes an absent / failed value"""
    if a[0] in ("none", "from_residual", "unreachable"):
        return True
    if a[0] == "agg" and a[2] in ("Err", "None"):
        return True
    if a[0] == "phi":
        return all(is_absent_value(x) for x in a[1])
    return False


def inlined_envs(ev, root_env, max_depth=4):
    """[(body, env)] for a root body and every local callee it (transitively) calls, each with
    the call-site arguments substituted (closures created in them are not included)"""
    out = [(root_env.body, root_env)]
    seen = set()

    def rec(env, depth):
        if depth >= max_depth:
            return
        body = env.body
        for bi, t in body.calls():
            if "fn" not in t:
                continue
            key = t["fn"].get("resolved_key") or t["fn"].get("key")
            if key and key in ev.facts.bodies and key not in ev.opaque and (key, body.key, bi) not in seen:
                seen.add((key, body.key, bi))
                args = [ev.operand(env, a, (bi, None)) for a in t["args"]]
                cenv = ev.inline_env(ev.facts.bodies[key], {i + 1: x for i, x in enumerate(args)}, env.depth + 1, env.path + ((body.key, bi),))
                if cenv.parent is None:
                    cenv.parent = env
                out.append((cenv.body, cenv))
                rec(cenv, depth + 1)
    rec(root_env, 0)
    return out


def returned_only_if(ev, body, env, local):
    """an error value built eagerly as the argument of `recv.ok_or(E)` (the only consumer of `local`) is handed on only
    when `recv` is absent: [(condition, truth)] that then hold — for `cond.then_some(v).ok_or(E)` / `cond.then(..)`
    [(cond, False)] — or None when the value is not consumed that way"""
    from flow import consumers
    cons = consumers(body, local)
    if len(cons) == 1 and cons[0]["kind"] == "call" and "fn" in cons[0]["term"]:
        # … or as an argument of a local helper that hands it on as `Err(e)` only on some of its paths
        # (`fn ensure(cond: bool, e: E) -> Result<(), E> { if cond { Ok(()) } else { Err(e) } }`): the conditions of those paths,
        # in the caller's terms
        t = cons[0]["term"]
        key = t["fn"].get("resolved_key") or t["fn"].get("key")
        cb = ev.facts.bodies.get(key)
        if cb is not None and cb.kind != "Closure" and key not in ev.opaque:
            try:
                args = {i + 1: ev.operand(env, a, (cons[0]["block"], None)) for i, a in enumerate(t["args"])}
                mine = [i + 1 for i, a in enumerate(t["args"]) if a["k"] in ("move", "copy") and a["place"]["l"] == local and not a["place"]["proj"]]
                cenv = ev.inline_env(cb, args, env.depth + 1, env.path + ((body.key, cons[0]["block"]),))
                cbody = cenv.body
                sites = []
                uses = 0
                alias = set(mine)
                for _round in range(3):   # `_t = move e; Err(move _t)`
                    for bi, si, st in cbody.stmts():
                        if st["k"] == "assign" and st["rv"]["k"] == "use" and not st["place"]["proj"] and isinstance(st["rv"].get("op"), dict) and \
                                st["rv"]["op"].get("k") in ("move", "copy") and st["rv"]["op"]["place"]["l"] in alias and not st["rv"]["op"]["place"]["proj"]:
                            alias.add(st["place"]["l"])
                for bi, si, st in cbody.stmts():
                    rv = st["rv"] if st["k"] == "assign" else None
                    if rv is None or (rv["k"] == "use" and st["place"]["l"] in alias):
                        continue
                    ops = [o for o in (rv.get("ops") or []) if isinstance(o, dict)] + [rv[k] for k in ("op", "a", "b") if isinstance(rv.get(k), dict)]
                    hit = [o for o in ops if o.get("k") in ("move", "copy") and o["place"]["l"] in alias]
                    if not hit:
                        continue
                    uses += 1
                    if rv["k"] == "agg" and rv.get("variant") == "Err" and st["place"]["l"] == 0 and not st["place"]["proj"]:
                        sites.append(bi)
                live_ = cbody.live_blocks()
                if len(mine) == 1 and (uses == 0 or all(x not in live_ for x in sites)) and cb.j.get("output", "").startswith("std::result::Result") and \
                        any(st["k"] == "assign" and st["rv"]["k"] == "agg" and st["rv"].get("variant") == "Err" for _b, _s, st in cb.stmts()):
                    # for these arguments the helper cannot take the path that hands the error on (its condition is known
                    # here, e.g. the size test of unit weights): the error value is built but never returned
                    return [(("const", "bool", 0), True)]
                if len(mine) == 1 and uses == 1 and len(sites) == 1:
                    g = Guards(ev, cbody, cenv)
                    rels, raw = g.relations_at(sites[0])
                    out = []
                    for term, truth, sw in raw:
                        if not isinstance(truth, bool):
                            continue
                        if term[0] == "phi":
                            # a join of per-variant values: alternatives that are the constant ¬truth cannot be the one taken
                            rest = [a_ for a_ in term[1] if a_ != ("const", "bool", 0 if truth else 1)]
                            if len(rest) == 1:
                                term = rest[0]
                        out.append((term, truth))
                    if out:
                        return out
            except (RecursionError, KeyError, IndexError):
                pass
    if len(cons) != 1 or cons[0]["kind"] != "call" or cons[0]["cid"].rsplit("::", 1)[-1] != "ok_or":
        return None
    t = cons[0]["term"]
    if len(t["args"]) != 2:
        return None
    recv = conditional_opt(ev.operand(env, t["args"][0], (cons[0]["block"], None)))
    if recv[0] == "opt" and len(recv) >= 3 and not recv[2]:
        # the receiver is known to be present here (e.g. the condition folded to `true` for this enum variant):
        # the error value is built but can never be handed on
        return [(("const", "bool", 0), True)]
    if recv[0] == "opt" and len(recv) >= 3 and len(recv[2]) == 1:
        c = next(iter(recv[2]))
        if c[0] == "pred":
            return [(c[1], False)]
    return None


def conditional_opt(t):
    """`φ[none | opt(v, conds)]` with non-empty conds says no more than `opt(v, conds)`: a value that is present
    under its conditions and absent otherwise"""
    if t[0] == "phi":
        alts = [a for a in t[1] if a != ("none",)]
        if len(alts) == 1 and len(alts) < len(t[1]) and alts[0][0] == "opt" and len(alts[0]) >= 3 and alts[0][2]:
            return alts[0]
    return t


def never_holds(conds):
    """[(term, truth)] contains a condition that cannot hold (`false == true`): the site is dead in this context"""
    return any((t_ == ("const", "bool", 0) and tr is True) or (t_ == ("const", "bool", 1) and tr is False) for t_, tr in conds)


def unconditional_constructor(body, block):
    """the block lies on every path through the body (a private helper that only builds a value: `fn mismatch(a, b) -> Error`)"""
    return all(body.must_pass(0, [x], {block}) for x in body.exits()) if body.exits() else False


# --------------------------------------------------------------------------- #
# local call graph: who calls a private helper
# --------------------------------------------------------------------------- #
def local_callers(F):
    """{callee key: set of caller ROOT keys} over resolved local calls and function references"""
    cs = getattr(F, "_local_callers", None)
    if cs is None:
        cs = {}
        for b in F.bodies.values():
            for bi, t in b.calls():
                if "fn" in t:
                    k = t["fn"].get("resolved_key") or t["fn"].get("key")
                    if k in F.bodies:
                        cs.setdefault(k, set()).add(b.j.get("root", b.key))
            for bi, si, st in b.stmts():
                if st["k"] == "assign":
                    rv = st["rv"]
                    ops = [rv[k] for k in ("op", "a", "b") if isinstance(rv.get(k), dict)] + list(rv.get("ops", []) or [])
                    for o in ops:
                        if o.get("k") == "const" and "fn" in o:
                            k = o["fn"].get("resolved_key") or o["fn"].get("key")
                            if k in F.bodies:
                                cs.setdefault(k, set()).add(b.j.get("root", b.key))
        F._local_callers = cs
    return cs


def stable_name(b):
    return b.j.get("vis") in ("pub", "crate") or "trait" in b.j.get("impl", {})


def stable_ancestors(F, k, cone_keys):
    """functions with a stable (non-private) name from which the private function k is reached on the cone"""
    out, seen, work = set(), set(), [F.bodies[k].j.get("root", k)]
    first = work[0]
    while work:
        x = work.pop()
        if x in seen or x not in F.bodies:
            continue
        seen.add(x)
        if x != first and stable_name(F.bodies[x]):
            out.add(x)
            continue
        callers = set(c for c in local_callers(F).get(x, ()) if c in cone_keys and c != x)
        if not callers and x != first:
            out.add(x)
        work.extend(callers)
    return out




# --------------------------------------------------------------------------- #
# calling contexts of private helpers (context-sensitive analysis without merging control-flow graphs)
# --------------------------------------------------------------------------- #
def helper_contexts(F, ev):
    """{private helper key: [env]}: the environments (arguments bound to the caller's terms, `.parent` chain up to a
    function with a stable name) in which each private helper runs, collected by effects.iteration_effects(enters=True)
    from every function that has a stable name or no caller"""
    cache = F.__dict__.setdefault("_helper_ctx", {})
    ck = frozenset(ev.opaque)
    if ck in cache:
        return cache[ck]
    from effects import iteration_effects
    ctx = {}
    for b in F.bodies.values():
        if b.kind == "Closure":
            continue
        if stable_name(b) or not (local_callers(F).get(b.key, set()) - {b.key}):
            try:
                for e in iteration_effects(ev, Env(b), enters=True):
                    if e.kind == "enter" and e.env.depth > 0 and e.body.kind != "Closure" and not stable_name(F.bodies.get(e.body.key, e.body)):
                        ctx.setdefault(e.body.key, []).append(e.env)
            except RecursionError:
                pass
    cache[ck] = ctx
    return ctx


def context_levels(env, block):
    """[(body, env, block)] from the given site up the inlining chain: the site itself, then the call site in each caller"""
    out = []
    x, blk = env, block
    while x is not None:
        out.append((x.body, x, blk))
        par = getattr(x, "parent", None)
        if par is None or not x.path:
            break
        blk = x.path[-1][1]
        x = par
    return out


def context_root(F, env):
    x = env
    while getattr(x, "parent", None) is not None:
        x = x.parent
    return F.bodies.get(x.body.key, x.body)


def context_relations(ev, env, block):
    """canonical relations that hold at `block` of this inlined instance: its own dominating guards plus those that
    dominate every call on the chain that leads to it"""
    rels, raw = [], []
    for bd, x, blk in context_levels(env, block):
        if blk >= len(bd.blocks) or blk not in bd.live_blocks():
            continue
        try:
            r, w = Guards(ev, bd, x).relations_at(blk)
        except RecursionError:
            continue
        rels.extend(r)
        raw.extend(w)
    return rels, raw


def struct_view(F, t, adt_path):
    """a value of struct type as {field: term}, whether it was built by a struct literal (`Self { a, ..self }`) or by
    assigning fields of an existing value (`self.a = x; self`): ('agg', …) or a chain of ('update', base, (field,), v)"""
    if t[0] == "agg" and t[1] == adt_path:
        return dict(t[3])
    ups = {}
    x = t
    while x[0] in ("update", "mutated"):
        if x[0] == "mutated":
            return None
        _, base, path, v = x
        if len(path) != 1 or path[0][0] != "field":
            return None
        ups.setdefault(path[0][1], v)
        x = base
    if not ups:
        return None
    try:
        names = [f["name"] for f in struct_fields(F, adt_path)]
    except AnchorMissing:
        return None
    if x[0] == "agg" and x[1] == adt_path:
        basef = dict(x[3])
    else:
        basef = {n: ("field", x, n) for n in names}
    out = dict(basef)
    out.update(ups)
    return out


SVD_DIRECT = ("svd", "svd_unordered", "new", "new_unordered")
SVD_TRY = ("try_svd", "try_svd_unordered", "try_new", "try_new_unordered")


def svd_ctor_term(t):
    """(decomposed matrix, compute_u, compute_v) when `t` is the value of one of nalgebra's SVD entry points
    (`m.svd(u,v)`, `SVD::new(m,u,v)`, the unordered ones, or the unwrapped/`?`-ed result of a `try_` one), else None"""
    if not isinstance(t, tuple) or not t:
        return None
    tried = False
    if t[0] == "payload" and len(t) > 2 and t[2] == "ok":
        t, tried = t[1], True
    if t[0] != "call" or len(t[3]) < 3:
        return None
    last = t[1].rsplit("::", 1)[-1]
    if last in ("new", "new_unordered", "try_new", "try_new_unordered") and "SVD" not in t[1] and "svd" not in t[1]:
        return None
    if (last in SVD_DIRECT and not tried) or (last in SVD_TRY and tried):
        return t[3][0], t[3][1], t[3][2]
    return None


def svd_tuning(t):
    """(eps, max_niter) terms of a `try_` SVD entry point, None for the ones that use the library's tolerance"""
    if isinstance(t, tuple) and t and t[0] == "payload":
        t = t[1]
    if isinstance(t, tuple) and t and t[0] == "call" and t[1].rsplit("::", 1)[-1] in SVD_TRY and len(t[3]) >= 5:
        return t[3][-2], t[3][-1]
    return None


def input_dependent(t):
    """does the term mention a parameter, a field, an element or an unknown (anything but a constant expression)"""
    if isinstance(t, (frozenset, list)):
        return any(input_dependent(x) for x in t)
    if not isinstance(t, tuple):
        return False
    if t and t[0] in ("param", "field", "unknown", "elem", "phi", "mutated", "iv"):
        return True
    return any(input_dependent(x) for x in t)
