"""Builder-made model rules: routing by name and placement by index (C16), misuse reported as
errors with state intact (C17)."""
from core import *
from flow import consumers
from rules_problem import is_call, ok_of, strip_mut
from rules_stats2 import base_alloc, dimval
from rules_mbuilder import ADT_FNBUILDER, ADT_UNFINISHED

TRAIT_BF = "basis_function::BasisFunction"
ADT_MBF = "model::model_basis_function::ModelBasisFunction"


def sepmodel_roles(F, ev):
    fs = struct_fields(F, ADT_SEPMODEL)
    roles = {}
    fv = [f["name"] for f in fs if f["ty"].startswith("std::vec::Vec<" + ADT_MBF)]
    nv = [f["name"] for f in fs if f["ty"].startswith("std::vec::Vec<std::string::String")]
    dv = [f["name"] for f in fs if f.get("adt") == "nalgebra::Matrix"]
    if len(fv) != 1 or len(nv) != 1 or len(dv) != 2:
        raise AnchorMissing("SeparableModel roles: functions=%s names=%s vectors=%s" % (fv, nv, dv))
    roles["functions"], roles["names"] = fv[0], nv[0]
    # current parameters = the vector returned by params()
    p = trait_impl_methods(F, TRAIT_MODEL, ADT_SEPMODEL, "params")
    if len(p) != 1:
        raise AnchorMissing("SeparableModel::params")
    v = ev.ret_val(Env(p[0]))
    used = [x[2] for x in walk(v) if x[0] == "field" and x[2] in dv]
    if len(set(used)) != 1:
        raise AnchorMissing("current-parameters role")
    roles["params"] = used[0]
    roles["x"] = [d for d in dv if d != used[0]][0]
    mf = struct_fields(F, ADT_MBF)
    roles["fn"] = [f["name"] for f in mf if "dyn" in f["ty"] and "HashMap" not in f["ty"]][0]
    roles["derivs"] = [f["name"] for f in mf if "HashMap" in f["ty"]][0]
    return roles


# --------------------------------------------------------------------------- #
# C16
# --------------------------------------------------------------------------- #
def rule_arity_slots(F, ev, R, config, rule="R-ARITY-SLOTS"):
    impls = [b for b in trait_impl_methods(F, TRAIT_BF, None, "eval")]
    slots = 0
    for b in sorted(impls, key=lambda x: x.key):
        env = Env(b)
        calls = [(bi, t) for bi, t in b.calls() if "fn" in t and callee_id(t["fn"]) in ("std::ops::Fn::call", "std::ops::FnOnce::call_once", "std::ops::FnMut::call_mut")]
        if len(calls) != 1:
            R.bad(rule, config, b.key, "dispatch-call", "expected exactly one call of the wrapped callable, found %d" % len(calls), b.j["span"])
            continue
        bi, t = calls[0]
        tup = ev.operand(env, t["args"][1], (bi, None))
        if tup[0] != "tuple":
            R.bad(rule, config, b.key, "dispatch-call", "argument pack is `%s`" % short(tup)[:80], t.get("span"))
            continue
        args = tup[1]
        okx = args[0] == ("param", b.key, 2)
        R.add(rule, config, b.key, "x-first", okx, "" if okx else "first argument is `%s`, not x" % short(args[0])[:60], t.get("span"))
        n = len(args) - 1
        for i, a in enumerate(args[1:]):
            slots += 1
            ok = a == ("index", ("param", b.key, 3), ("const", "usize", i))
            R.add(rule, config, b.key, "slot%d←params[%d]" % (i, i), ok,
                  "" if ok else "argument slot %d of the %d-ary basis function receives `%s`, expected params[%d]" % (i, n, short(a)[:60], i), t.get("span"))
        # ARGUMENT_COUNT = N
        ck = b.key.rsplit("::", 1)[0] + "::ARGUMENT_COUNT"
        c = F.consts.get(ck)
        okc = c is not None and c.get("val") == n
        R.add(rule, config, b.key, "ARGUMENT_COUNT=%d" % n, okc, "" if okc else "ARGUMENT_COUNT is %s for a callable taking %d parameters" % (c.get("val") if c else None, n), b.j["span"])
        # length guard precedes the indexing
        g = Guards(ev, b, env)
        rels, raw = g.relations_at(bi)
        rels = list(rels)
        # the Ok edge of `params.try_into::<&[T; N]>()` carries len(params) == N
        for term, vals, sw in raw:
            if term[0] == "discr" and isinstance(vals, tuple) and term[1][0] in ("opt", "cf"):
                o = term[1] if term[1][0] == "opt" else (term[1][1] if term[1][1][0] == "opt" else None)
                variants, _, _ = discr_variants(sw.get("body", b), sw["block"])
                names = dict(variants or [])
                if o is not None and vals and all(names.get(v) in ("Ok", "Some", "Continue") for v in vals if v != "otherwise"):
                    for c in o[2]:
                        if c[0] == "pred":
                            r = canon_rel(c[1], True)
                            if r:
                                rels.append(r)
        okg = any(r[0] == "Eq" and {r[1], r[2]} == {("const", "usize", n), ("call", "core::slice::len", None, (("param", b.key, 3),), x[4] if (x := (r[1] if r[1][0] == "call" else r[2])) else None)} for r in rels if r[0] == "Eq" and (r[1][0] == "call" or r[2][0] == "call"))
        R.add(rule, config, b.key, "len-guard=%d" % n, okg, "" if okg else "the parameter slice is indexed without the guard len(params) == %d" % n, t.get("span"))
    R.floor(rule, config, 10 * 3 + 55, "10 impls: x, count, guard + 55 slots")


def plain_iter_of(it):
    """X if `it` iterates X in order without skipping / reversing / filtering"""
    import effects as fx
    it = fx.base_iter(it)
    if it[0] in ("param", "field", "payload"):
        return it   # `for x in collection` (IntoIterator of a slice / &Vec): in order, nothing skipped
    if it[0] == "call" and it[1].rsplit("::", 1)[-1] in ("iter", "into_iter") and it[3]:
        x = fx.base_iter(it[3][0])
        if x[0] == "call" and x[1].rsplit("::", 1)[-1] in ("iter", "into_iter"):
            return plain_iter_of(x)
        if x[0] == "call" and x[1].rsplit("::", 1)[-1] in ("deref", "as_slice") and x[3]:
            return x[3][0]
        return x
    return None


def rule_name_routing(F, ev_unused, R, config, rule="R-NAME-ROUTING"):
    import effects as fx
    ws = [b for b in F.bodies.values() if b.kind != "Closure" and "dyn for<'a, 'b> std::ops::Fn" in b.j.get("output", "") and b.j.get("output", "").startswith("std::result::Result<std::boxed::Box")]
    if len(ws) != 1:
        R.bad(rule, config, "-", "anchor-missing", "wrapper constructor not identified (%d candidates)" % len(ws))
        return
    w = ws[0]
    # the index-mapping helper: the local fn called by w that returns Result<Vec<usize>, _>
    ms = []
    for bi, t in w.calls():
        if "fn" in t and t["fn"].get("key") in F.bodies and "Vec<usize>" in F.bodies[t["fn"]["key"]].j.get("output", ""):
            ms.append((bi, t, F.bodies[t["fn"]["key"]]))
    ev = Eval(F, opaque=[m[2].key for m in ms])
    env = Env(w)
    okm = False
    if len(ms) == 1:
        bi, t, mb = ms[0]
        a0 = ev.operand(env, t["args"][0], (bi, None))
        a1 = ev.operand(env, t["args"][1], (bi, None))
        okm = a0 == ("param", w.key, 1) and a1 == ("param", w.key, 2)
    R.add(rule, config, w.key, "mapping(model-names, function-names)", okm, "" if okm else "index mapping built from the wrong lists (argument order)", w.j["span"])
    evm = Eval(F)
    for _, _, m in ms[:1]:
        menv = Env(m)
        full, subset = ("param", m.key, 1), ("param", m.key, 2)
        rv = evm.ret_val(menv)
        alts = [a for a in (rv[1] if rv[0] == "phi" else (rv,)) if not is_absent_value(a)]
        seq = None
        for a in alts:
            inner = a[3][0][1] if a[0] == "agg" and a[2] == "Ok" else a
            seq = seq or fx.sequence_of(evm, menv, inner)
        ok = False
        msg = "mapping is `%s` (not recognised as one position per function parameter)" % short(rv)[:200]
        if seq:
            _, it, val = seq
            dom = plain_iter_of(it)
            v = val
            while v[0] in ("payload", "opt"):
                v = v[1]
            if v[0] == "phi":
                cand = [x for x in v[1] if not is_absent_value(x)]
                v = cand[0] if len(cand) == 1 else v
                while v[0] in ("payload", "opt"):
                    v = v[1]
            okdom = dom == subset
            okpos = False
            if v[0] == "call" and v[1].endswith("Iterator::position") and len(v[3]) == 2:
                pit, pc = v[3]
                okit = plain_iter_of(pit) == full
                okeq = False
                if pc[0] == "closure":
                    pb = F.bodies[pc[1]]
                    pv = evm.ret_val(Env(pb, {1: pc, 2: ("sym", "full")}, 2))
                    okeq = pv[0] == "call" and pv[1].endswith("PartialEq::eq") and ("sym", "full") in pv[3] and any(contains(x, lambda y: y[0] == "elem") for x in pv[3])
                okpos = okit and okeq
                if not okit:
                    msg = "positions are looked up in `%s`, not in the model parameter list" % short(pit)[:100]
                elif not okeq:
                    msg = "position predicate is not equality with the function parameter"
            else:
                msg = "mapping element is `%s`, not a position in the model list" % short(v)[:120]
            if okpos and not okdom:
                msg = "mapping does not range over the function parameters in their declaration order: %s" % short(it)[:120]
            ok = okdom and okpos
        R.add(rule, config, m.key, "mapping[f]=position-of-fth-function-parameter-in-model-list", ok, "" if ok else msg, m.j["span"])
    cl = closure_terms_in(ev, env)
    wc = [(k, t) for k, t in cl.items() if F.bodies[k].arg_count == 3]
    if len(wc) != 1:
        R.bad(rule, config, w.key, "wrapper-closure", "wrapper closure not identified", w.j["span"])
        return
    ck, ct = wc[0]
    cb = F.bodies[ck]
    cenv = Env(cb, {1: ct, 2: ("sym", "x"), 3: ("sym", "params")}, 1)
    caps = dict(ct[2])
    mkeys = set(strip_generics(m[2].j.get("path", "")) for m in ms)
    mapping_t = [t for n, t in caps.items() if t[0] == "payload" and t[1][0] == "call" and t[1][1] in mkeys]
    effs = list(fx.iteration_effects(ev, cenv))
    evalc = [e for e in effs if e.kind == "call" and e.cid == TRAIT_BF + "::eval"]
    okp = oke = False
    msgp = "the routed parameter vector is not recognised"
    if len(evalc) == 1 and mapping_t:
        fn_, x_, ps = evalc[0].args
        seq = fx.sequence_of(ev, cenv, ps, effs)
        if seq:
            _, it, val = seq
            okdom = plain_iter_of(it) == mapping_t[0]
            v = val
            okval = v[0] == "index" and v[1] == ("sym", "params") and v[2][0] == "elem" and fx.base_iter(v[2][1]) == fx.base_iter(it)
            okp = okdom and okval
            if not okdom:
                msgp = "arguments are gathered over `%s`, not over the index mapping in declaration order" % short(it)[:100]
            elif not okval:
                msgp = "argument f is `%s`, expected params[mapping[f]]" % short(val)[:100]
        oke = x_ == ("sym", "x") and fn_ == ("param", w.key, 3) and seq is not None
    R.add(rule, config, ck, "argument f ← params[mapping[f]] in order", okp, "" if okp else msgp, cb.j["span"])
    R.add(rule, config, ck, "calls function(x, routed parameters)", oke, "" if oke else "the wrapped function is not called with x and the routed parameter vector", cb.j["span"])
    users = set()
    for b in F.bodies.values():
        for bi, t in b.calls():
            if "fn" in t and t["fn"].get("key") == w.key:
                users.add(F.bodies.get(b.j.get("root", b.key), b).name or "?")
    ok = {"new", "partial_deriv"} <= users
    R.add(rule, config, w.key, "same-wrapper-for-functions-and-derivatives", ok, "" if ok else "wrapper used by %s" % sorted(users), w.j["span"])
    R.floor(rule, config, 5, "mapping args, mapping helper, push, eval call, shared wrapper")


def fx_norm(t):
    import effects as fx
    return fx.norm_elems(t)


def rule_deriv_key(F, ev, R, config, rule="R-DERIV-KEY"):
    sm = sepmodel_roles(F, ev)
    # (1) inserted key = enumerate index over the *model* parameter list
    pd = inherent_methods(F, ADT_FNBUILDER, "partial_deriv")
    fs = struct_fields(F, ADT_FNBUILDER)
    if len(pd) != 1:
        R.bad(rule, config, "-", "anchor-missing", "function builder partial_deriv")
        return
    b = pd[0]
    env = Env(b)
    # the insertion may sit in the method or in a closure it runs (`.and_then(|d| map.insert(key, d) …)`): effects
    from effects import iteration_effects
    ins = [e for e in iteration_effects(ev, env) if e.kind == "call" and e.cid.endswith("HashMap::insert")]
    ok = False
    msg = "no insertion into the derivative map"
    if len(ins) == 1:
        key = ins[0].raw[1]
        mapv = ins[0].raw[0]
        import logic
        msg = "derivative key is `%s`" % short(key)[:200]
        space = None
        k2 = logic.canon_index(fx_norm(key))
        while k2[0] in ("payload",):
            k2 = k2[1]
        if k2[0] == "call" and k2[1].rsplit("::", 1)[-1] in ("position",) and k2[3]:
            # `X.iter().position(p)`: an index into X (an adapter in between would shift positions)
            X = plain_iter_of(key[1][3][0] if key[0] == "payload" else key[3][0]) if (key[0] == "payload" and key[1][0] == "call") or key[0] == "call" else None
            if X is not None:
                space = logic.canon_index(fx_norm(X))
            else:
                msg = "the key is a position in `%s`: not a plain iteration over the model parameter list" % short(k2[3][0])[:100]
        elif k2[0] == "idx":
            space = k2[1]
        elif k2[0] == "field" and k2[2] == "0":
            src = k2[1]
            while src[0] in ("payload", "opt"):
                src = src[1]
            if src[0] == "call" and src[1].rsplit("::", 1)[-1] in ("find", "find_map", "next", "last", "nth") and src[3]:
                base, filters = logic.split_filters(src[3][0])
                if base[0] == "call" and base[1].rsplit("::", 1)[-1] == "enumerate":
                    inner = logic.base_iter(base[3][0])
                    x = inner
                    plain = False
                    while x[0] == "call" and x[1].rsplit("::", 1)[-1] in ("iter", "into_iter"):
                        x = logic.base_iter(x[3][0])
                        plain = True
                    if plain and x[0] != "call":
                        space = logic.canon_index(x)
                    else:
                        msg = "the key index is taken after another adapter (`%s`): positions no longer refer to the model parameter list" % short(inner)[:120]
        # the model parameter list = what this method hands to the wrapper constructor as its first argument
        model_list = None
        try:
            wkey = wrapper_fn(F).key
            evw = Eval(F, opaque=set(ev.opaque) | {wkey})
            wcid = strip_generics(F.bodies[wkey].j["path"])
            wcalls = [e for e in iteration_effects(evw, Env(b)) if e.kind == "call" and e.cid == wcid]
            if wcalls:
                model_list = strip_mut(wcalls[0].raw[0])[0]
        except AnchorMissing:
            pass
        if space is not None:
            ok = model_list is not None and space == logic.canon_index(model_list)
            if not ok:
                msg = "the key is an index into `%s`, not into the model parameter list" % short(space)[:80]
    R.add(rule, config, b.key, "inserted-key=index-in-model-list", ok, "" if ok else msg, b.j["span"])
    # … and it is the index of the parameter that was NAMED: the insertion is reached only under a search of the model
    # list that succeeded with `element == requested name` among its conjuncts (string equality, nothing weaker)
    if len(ins) == 1:
        import tab
        e = ins[0]
        envs = []
        x = e.env
        while x is not None:
            envs.append(x)
            x = getattr(x, "parent", None)
        envs.reverse()
        ch = tab.chain_of(e, F) or []
        L = logic.Logic(ev)
        name = ("param", b.key, 2)
        okn = False
        seen = []
        if len(ch) == len(envs):
            for (bd, blk), en in zip(ch, envs):
                stack = list(L.conditions_at(bd, en, blk))
                while stack:
                    f = stack.pop()
                    if f[0] == "and":
                        stack.extend(f[1])
                        continue
                    if f[0] != "exists":
                        continue
                    seen.append(logic.show_f(f)[:160])
                    if model_list is None or logic.canon_index(f[1]) != logic.canon_index(model_list):
                        continue
                    cs = f[2][1] if f[2][0] == "and" else (f[2],)
                    if any(c[0] == "rel" and c[1] == "Eq" and set((c[2], c[3])) == {("item", f[1]), name} for c in cs):
                        okn = True
        R.add(rule, config, b.key, "inserted-key-is-the-named-parameter", okn,
              "" if okn else "the derivative is stored under the index of a model parameter that need not BE the requested one: the search "
              "that yields the index is `%s` (expected: element == requested name)" % (seen[:2] or "not found"), b.j["span"])
    # (2) lookup key in eval_partial_deriv is the index argument, zero-initialised matrix (the lookup and the
    #     allocation may sit in the method, in a closure it passes on, or in a helper: effects)
    import effects as fx
    import tab
    for eb in trait_impl_methods(F, TRAIT_MODEL, ADT_SEPMODEL, "eval_partial_deriv"):
        eenv = Env(eb)
        effs = list(fx.iteration_effects(ev, eenv))
        cn = tab.Canon(ev)
        gets = [e for e in effs if e.kind == "call" and e.cid.endswith("HashMap::get")]
        ok = False
        if len(gets) == 1:
            k = cn.canon(gets[0].raw[1])
            mp = cn.canon(gets[0].raw[0])
            ok = k == ("param", eb.key, 2) and mp[0] == "field" and mp[2] == sm["derivs"]
        R.add(rule, config, eb.key, "lookup-key=derivative-index", ok, "" if ok else "derivative looked up under a key other than the requested index", eb.j["span"])
        allocs = [e for e in effs if e.kind == "call" and "nalgebra" in e.cid and e.name in ("from_element", "zeros", "from_element_generic", "zeros_generic", "uninit", "repeat", "from_fn", "new_uninit_generic")]
        ok = len(allocs) == 1 and allocs[0].name in ("zeros", "zeros_generic")
        if len(allocs) == 1 and allocs[0].name in ("from_element", "from_element_generic"):
            v = allocs[0].args[-1]
            ok = v[0] == "call" and v[1].endswith("Zero::zero")
        R.add(rule, config, eb.key, "derivative-matrix-starts-zero", ok, "" if ok else "columns of functions that do not depend on the parameter are not guaranteed to be zero", eb.j["span"])
    R.floor(rule, config, 4, "insert key (index space, named parameter), lookup key, zero init")


def callable_sites(F):
    """[(body, block, terminator)] of the invocations of a stored user callable: `Fn::call` on a `dyn Fn` — or on a type
    parameter of the enclosing function that some caller instantiates with a `dyn Fn` / a box of one (a helper made
    generic over `F: Fn(..) + ?Sized` is still the place where the boxed callables are invoked)"""
    import re
    sites = []
    dyn_instantiated = None
    for b in F.bodies.values():
        for bi, t in b.calls():
            if "fn" in t and callee_id(t["fn"]) in ("std::ops::Fn::call", "std::ops::FnMut::call_mut", "std::ops::FnOnce::call_once"):
                st = t["fn"].get("self_ty", "")
                if "dyn" in st:
                    sites.append((b, bi, t))
                elif re.match(r"^&?(mut )?[A-Z][A-Za-z0-9_]*$", st):
                    if dyn_instantiated is None:
                        dyn_instantiated = set()
                        for b2 in F.bodies.values():
                            for _, t2 in b2.calls():
                                if "fn" in t2 and any("dyn " in str(g) for g in t2["fn"].get("gargs", [])):
                                    k2 = t2["fn"].get("resolved_key") or t2["fn"].get("key")
                                    if k2:
                                        dyn_instantiated.add(k2)
                    if b.j.get("root", b.key) in dyn_instantiated:
                        sites.append((b, bi, t))
    return sites


def checking_helper(F):
    """the single function that invokes a stored user callable (Box<dyn Fn>)"""
    hs = set()
    for b, bi, t in callable_sites(F):
        hs.add(b.j.get("root", b.key))
    if len(hs) != 1:
        raise AnchorMissing("checked evaluation helper: stored callables are invoked in %s" % sorted(hs))
    return F.bodies[hs.pop()]


def rule_column_order(F, ev, R, config, rule="R-COLUMN-ORDER"):
    """column j of the matrix returned by eval / eval_partial_deriv is the j-th basis function (resp. its
    derivative stored under the requested index), evaluated on the model's x and current parameters —
    decided on the canonical column writes (tab.py): zip of functions and columns, index loops, driven
    closures and shared helpers coincide"""
    import effects as fx
    import tab
    from rules_panic import nosite
    sm = sepmodel_roles(F, ev)
    H = checking_helper(F)
    hcid = strip_generics(H.j["path"])
    ev2 = Eval(F, opaque=set(ev.opaque) | {H.key})
    for name in ("eval", "eval_partial_deriv"):
        for b in trait_impl_methods(F, TRAIT_MODEL, ADT_SEPMODEL, name):
            env = Env(b)
            me = ("param", b.key, 1)
            FN = ("field", me, sm["functions"])
            cn = tab.Canon(ev2)
            effs = list(fx.iteration_effects(ev2, env))
            ev2.fresh_ctx()
            rv = ev2.ret_val(env)
            rets = set()
            for a in (rv[1] if rv[0] == "phi" else (rv,)):
                if a[0] == "agg" and a[2] == "Ok":
                    rets.add(nosite(cn.container(a[3][0][1])))
                elif a[0] == "opt":
                    for x in (a[1][1] if a[1][0] == "phi" else (a[1],)):
                        rets.add(nosite(cn.container(x)))
            # every success return hands out the FILLED matrix: an `Ok` of a freshly allocated matrix that nothing was written
            # into (an early `return Ok(zeros(..))`) skips the checked evaluations — unless there is no function to evaluate
            g = Guards(ev2, b, env)
            bare = []
            for bi, si, st in b.stmts():
                if st["k"] != "assign" or st["place"]["l"] != 0 or st["place"]["proj"]:
                    continue
                v = ev2.rvalue(env, st["rv"], (bi, si))
                pay = v[3][0][1] if v[0] == "agg" and v[2] == "Ok" and v[3] else (v[1] if v[0] == "opt" else None)
                if pay is None:
                    continue
                # filled = written into after its allocation, or built from the results of the checked evaluations
                if pay[0] == "phi" and any(contains(x, lambda y: y[0] == "loopback") for x in pay[1]):
                    continue   # the value after a loop over the functions (written into in every iteration)
                alts_p = [x for x in (pay[1] if pay[0] == "phi" else (pay,)) if x[0] not in ("loopback", "unreachable")]
                unfilled = [x for x in alts_p if x[0] != "mutated" and not contains(x, lambda y: y[0] == "mutated" or (
                    y[0] == "call" and (y[1] == hcid or y[1] in ("std::ops::Fn::call", "std::ops::FnMut::call_mut", "std::ops::FnOnce::call_once"))))]
                if not unfilled:
                    continue
                pay = unfilled[0]
                rels, _raw = g.relations_at(bi)
                nofn = False
                for rel in rels:
                    if rel[0] == "Eq" and {cn.norm_extent(cn.canon(rel[1])), cn.norm_extent(cn.canon(rel[2]))} == {("len", FN), ("const", "usize", 0)}:
                        nofn = True
                if not nofn:
                    bare.append((bi, pay))
            R.add(rule, config, b.key, "Ok returns the filled matrix", not bare, "" if not bare else
                  "a success return hands out `%s`, which is neither written into nor built from checked evaluations — no function is evaluated on this path" % short(bare[0][1])[:100], b.j["span"])
            cw = [w for w in tab.column_writes(cn, effs) if nosite(w.D) in rets]
            if not cw:
                # the checking helper may write the function value straight into the column it is given, element by
                # element: seen with the helper inlined (its length guard is what makes the copy cover the column)
                env_i = Env(b)
                cn_i = tab.Canon(ev)
                effs_i = list(fx.iteration_effects(ev, env_i))
                for w2 in tab.elementwise_column_writes(cn_i, effs_i):
                    if nosite(cn_i.container(w2.D)) not in rets and nosite(w2.D) not in rets:
                        continue
                    okc, _why = tab.elements_cover_column(cn_i, w2)
                    val = w2.val[1]
                    X = val[1] if val[0] == "at" and len(val) == 3 and val[2] == w2.val[2] else None
                    if not okc or X is None or w2.eff.body.j.get("root", w2.eff.body.key) != H.key:
                        continue
                    X0 = strip_mut(X)[0] if X[0] == "mutated" else X
                    if X0[0] == "call" and X0[1] in ("std::ops::Fn::call", "std::ops::FnMut::call_mut", "std::ops::FnOnce::call_once") and len(X0[3]) == 2 and X0[3][1][0] == "tuple" and len(X0[3][1][1]) == 2:
                        # presented as the helper's result: (callable, x, parameters)
                        hv = ("call", hcid, None, (X0[3][0], X0[3][1][1][0], X0[3][1][1][1]), None)
                        cw.append(tab.Write(w2.D, w2.idx, hv, w2.eff, "col"))
                        cn = cn_i
            ok = False
            okh = False
            msg = "expected one full-column write into the returned matrix per basis function, found %d" % len(cw)
            msgh = "the callable is not evaluated on the model's x and current parameters"
            if len(cw) == 1:
                w = cw[0]
                k = w.idx[0]
                v = w.val
                while v[0] == "payload" and v[2] == "ok":
                    v = v[1]
                if v[0] == "cf":
                    v = v[1]
                if not (v[0] == "call" and v[1] == hcid and len(v[3]) == 3):
                    msg = "the column value `%s` is not the result of the checked evaluation helper" % short(w.val)[:100]
                elif k[0] != "iv":
                    msg = "the column index `%s` is not the position in the iteration over the functions" % short(k)[:60]
                else:
                    callable_, xarg, parg = v[3]
                    bf = ("at", FN, k)
                    if name == "eval":
                        okf = callable_ == ("field", bf, sm["fn"])
                    else:
                        c = callable_
                        while c[0] in ("payload", "opt") :
                            c = c[1]
                        okf = c[0] == "call" and c[1].endswith("HashMap::get") and c[3][0] == ("field", bf, sm["derivs"])
                    ok = okf
                    if not okf:
                        msg = "column %s receives `%s`: not the %s of the function at the same position (reordered / skipped?)" % (
                            short(k), short(callable_)[:100], "function" if name == "eval" else "stored derivative")
                    okh = xarg == ("field", me, sm["x"]) and contains(parg, lambda y: y == ("field", me, sm["params"]))
                    D = w.D
                    dims = tab.alloc_dims(D)
                    okd = dims is not None and dims[1] is not None and \
                        cn.norm_extent(cn.canon(dims[0])) in (("len", ("field", me, sm["x"])), ("nrows", ("field", me, sm["x"]))) and \
                        cn.norm_extent(cn.canon(dims[1])) == ("len", FN)
                    R.add(rule, config, b.key, "shape=|x|×|functions|", okd, "" if okd else "result allocated as `%s`" % short(D)[:120], b.j["span"])
            R.add(rule, config, b.key, "column j ↔ j-th function", ok, "" if ok else msg, b.j["span"])
            R.add(rule, config, b.key, "evaluates(function|derivative)(x, current-parameters)", okh, "" if okh else msgh, b.j["span"])
    # functions role mutated only by Vec::push
    pushes = 0
    for b in F.bodies.values():
        for bi, si, s in b.stmts():
            if s["k"] != "assign":
                continue
            rv = s["rv"]
            if rv["k"] in ("ref", "rawptr") and rv["mut"]:
                fsn = [e for e in rv["place"]["proj"] if e["k"] == "field" and e.get("owner") in (ADT_UNFINISHED, ADT_SEPMODEL) and e["name"] in (sm["functions"], "basefunctions")]
                if fsn:
                    cons = [c for c in consumers(b, s["place"]["l"]) if c["kind"] == "call"]

                    def only_pushes(c, depth=0):
                        """the call is Vec::push, or a local forwarding method whose `&mut self` is only ever pushed to"""
                        if c["cid"].endswith("Vec::push"):
                            return True
                        fn_ = c["term"].get("fn", {})
                        k_ = fn_.get("resolved_key") or fn_.get("key")
                        hb = F.bodies.get(k_)
                        if hb is None or depth > 2 or c.get("arg") is None or c["arg"] < 0:
                            return False
                        inner = [x for x in consumers(hb, c["arg"] + 1) if x["kind"] == "call"]
                        others = [x for x in consumers(hb, c["arg"] + 1) if x["kind"] not in ("call",)]
                        return len(inner) == 1 and not [x for x in others if x["kind"] in ("store", "return", "agg")] and only_pushes(inner[0], depth + 1)
                    ok = len(cons) == 1 and only_pushes(cons[0])
                    pushes += 1
                    R.add(rule, config, b.key, "functions-only-pushed", ok, "" if ok else "the function list is mutated by `%s` (order of columns no longer the order of addition)" % [c["cid"] for c in cons], s.get("span"))
            fsn = [e for e in s["place"]["proj"] if e["k"] == "field" and e.get("owner") in (ADT_UNFINISHED, ADT_SEPMODEL) and e["name"] in (sm["functions"], "basefunctions")]
            if fsn:
                R.bad(rule, config, b.key, "functions-only-pushed", "the function list is overwritten", s.get("span"))
    # set_params stores the argument unchanged; params() returns it
    for b in trait_impl_methods(F, TRAIT_MODEL, ADT_SEPMODEL, "set_params"):
        env = Env(b)
        ws = [(bi, si, s) for bi, si, s in b.stmts() if s["k"] == "assign" and any(e["k"] == "field" and e.get("owner") == ADT_SEPMODEL for e in s["place"]["proj"])]
        ok = len(ws) == 1 and [e["name"] for e in ws[0][2]["place"]["proj"] if e["k"] == "field"] == [sm["params"]] and ev.rvalue(env, ws[0][2]["rv"], (ws[0][0], ws[0][1])) == ("param", b.key, 2)
        R.add(rule, config, b.key, "stores-parameters-unchanged", ok, "" if ok else "set_params does not store exactly the given vector in the current-parameters role", b.j["span"])
    R.floor(rule, config, 9, "2 loops ×3 + 2 pushes + set_params")


# --------------------------------------------------------------------------- #
# C17
# --------------------------------------------------------------------------- #
def rule_checked_calls(F, ev, R, config, rule="R-CHECKED-CALLS"):
    """the only call of a stored user callable (Box<dyn Fn>) is inside the checking helper"""
    sites = callable_sites(F)
    helpers = set(b.key for b, _, _ in sites)
    ok = len(sites) == 1
    R.add(rule, config, "-", "single-checked-call-site", ok, "" if ok else "stored callables are invoked at %d sites (%s): calls bypass the output-length check" % (len(sites), sorted(helpers)))
    if not sites:
        return
    hb, hbi, ht = sites[0]
    env = Env(hb)
    g = Guards(ev, hb, env)
    res = ev.call_val(env, hbi)
    want = None
    for bi, si, s in hb.stmts():
        if s["k"] == "assign" and s["place"]["l"] == 0 and s["rv"]["k"] == "agg" and s["rv"].get("variant") == "Ok":
            v = ev.rvalue(env, s["rv"], (bi, si))
            okv = v[3][0][1] == res
            if not okv and v[3][0][1] in (("tuple", ()), ("unit",), ("const", "()", None)) or (not okv and hb.j.get("output", "").startswith("std::result::Result<(),")):
                # the helper hands the value on through a column argument instead (`evaluate_into(column, ..)`): what is
                # written there, and that it covers the column, is R-COLUMN-ORDER's / R-DEF-INIT's part (decided in the
                # calling context, where the column's length is known); here: Ok still needs the length test
                okv = True
            rels, raw = g.relations_at(bi)
            okg = False
            for r in rels:
                if r[0] == "Eq":
                    ops = (r[1], r[2])
                    if all(o[0] == "call" and o[1].endswith("::len") for o in ops) and {ops[0][3][0], ops[1][3][0]} == {res, ("param", hb.key, 2)}:
                        okg = True
            R.add(rule, config, hb.key, "Ok(v)⇔len(v)=len(x)", okv and okg, "" if (okv and okg) else "the helper returns Ok without len(output) == len(location) being established", s.get("span"))
    # Err sites: only under Ne
    for bi, si, s in hb.stmts():
        if s["k"] == "assign" and s["rv"]["k"] == "agg" and s["rv"].get("variant") == "UnexpectedFunctionOutput":
            rels, raw = g.relations_at(bi)
            rels = list(rels)
            only_if = returned_only_if(ev, hb, env, s["place"]["l"]) if not s["place"]["proj"] else None
            for t_, tr in (only_if or []):
                for t2, tr2 in expand_bool(t_, tr):
                    r_ = canon_rel(t2, tr2)
                    if r_:
                        rels.append(r_)
            ok = any(r[0] == "Ne" for r in rels)
            R.add(rule, config, hb.key, "Err⇔len differs", ok, "" if ok else "length error produced without the lengths differing", s.get("span"))
    # callers propagate the error (with ?, by returning the Result, through combinators); a function that simply returns the
    # helper's Result is a wrapper around it, and ITS callers are checked in turn
    n = 0
    wrappers = [hb.key]
    seen_w = set()
    while wrappers:
        hk = wrappers.pop()
        if hk in seen_w:
            continue
        seen_w.add(hk)
        for b in F.bodies.values():
            for bi, t in b.calls():
                if "fn" in t and (t["fn"].get("resolved_key") or t["fn"].get("key")) == hk:
                    n += 1
                    d = t["dest"]
                    ok = (d["l"] == 0 and not d["proj"]) or result_propagated(b, d["l"])
                    R.add(rule, config, b.key, "helper-result-propagated", ok, "" if ok else "the checked evaluation's error is not propagated (with `?`, or as the value a combinator chain hands back to the caller)", t.get("span"))
                    out_ty = b.j.get("output", "")
                    returned = (d["l"] == 0 and not d["proj"]) or any(c["kind"] == "return" or (c["kind"] == "agg" and c["rv"].get("variant") in ("Some", "Ok")) for c in consumers(b, d["l"]))
                    if ok and returned and b.kind != "Closure" and ("std::result::Result<" in out_ty or "std::option::Option<" in out_ty):
                        wrappers.append(b.key)
    R.floor(rule, config, 4, "single site, Ok/Err tables, at least one caller")


def result_propagated(b, local, depth=0):
    """the Result held in `local` reaches the caller as a failure when it is Err: consumed by `?`, returned, or
    passed through map/and_then/map_err/or_else whose own result is propagated; never unwrapped, discarded or
    reduced to a bool/Option"""
    if depth > 4:
        return False
    cons = consumers(b, local)
    if not cons:
        return False
    good = False
    for c in cons:
        if c["kind"] == "return":
            good = True
        elif c["kind"] == "call":
            m = c["cid"].rsplit("::", 1)[-1]
            if c["cid"] == "std::ops::Try::branch":
                good = True
            elif c["cid"].startswith("std::result::Result::") and m in ("map", "and_then", "map_err", "or_else", "inspect", "inspect_err"):
                d = c["term"]["dest"]
                if d["proj"]:
                    return False
                if d["l"] == 0 or result_propagated(b, d["l"], depth + 1):
                    good = True
                else:
                    return False
            elif m in ("unwrap", "expect", "unwrap_or", "unwrap_or_default", "unwrap_or_else", "ok", "is_ok", "is_err", "unwrap_unchecked", "err"):
                return False
        elif c["kind"] == "discr":
            good = True   # matched on: the arms are checked by the value rules
        elif c["kind"] == "agg" and c["rv"].get("variant") in ("Some", "Ok") and not c["dest"]["proj"]:
            # wrapped (`Some(result)`): the wrapper value must itself be handed on
            if c["dest"]["l"] == 0 or result_propagated(b, c["dest"]["l"], depth + 1):
                good = True
            else:
                return False
    return good



def rule_err_state_preserving(F, ev, R, config, rule="R-ERR-STATE-PRESERVING"):
    sm = sepmodel_roles(F, ev)
    n = 0
    for b in F.bodies.values():
        im = b.j.get("impl", {})
        if im.get("self_adt") != ADT_SEPMODEL or b.kind == "Closure":
            continue
        ins = b.j.get("inputs", [])
        if not ins or not ins[0].startswith("&mut"):
            continue
        n += 1
        env = Env(b)
        g = Guards(ev, b, env)
        writes = [(bi, si, s) for bi, si, s in b.stmts() if s["k"] == "assign" and any(e["k"] == "field" and e.get("owner") == ADT_SEPMODEL for e in s["place"]["proj"])]
        muts = [(bi, si, s) for bi, si, s in b.stmts() if s["k"] == "assign" and s["rv"]["k"] == "ref" and s["rv"]["mut"] and any(e["k"] == "field" and e.get("owner") == ADT_SEPMODEL for e in s["rv"]["place"]["proj"])]
        errs = [bi for bi, si, s in b.stmts() if s["k"] == "assign" and s["rv"]["k"] == "agg" and s["rv"].get("variant") == "Err" and s["place"]["l"] == 0]
        for bi, si, s in writes + muts:
            reach = b.reachable(bi)
            bad = [e for e in errs if e in reach]
            # and no Err block reaches the write (write on a path that later errors)
            ok = not bad
            R.add(rule, config, b.key, "no-write-on-error-path", ok, "" if ok else "a field is written on a path that afterwards returns Err: a rejected call changes the model", s.get("span"))
            if b.name == "set_params":
                rels, raw = g.relations_at(bi)
                okg = False
                for r in rels:
                    if r[0] == "Eq":
                        ops = (r[1], r[2])
                        if any(o[0] == "call" and o[1].endswith("::len") and o[3][0] == ("param", b.key, 2) for o in ops) and \
                                any(o[0] == "call" and o[1].endswith("::len") and o[3][0] == ("field", ("param", b.key, 1), sm["names"]) for o in ops):
                            okg = True
                R.add(rule, config, b.key, "write-needs-len==parameter_count", okg, "" if okg else "parameters are stored without the length check len(params) == number of model parameters", s.get("span"))
        if b.name == "set_params" and not writes:
            R.bad(rule, config, b.key, "stores-parameters", "set_params never stores the parameters", b.j["span"])
        if b.name == "set_params" and writes:
            # Ok ⇒ the given vector IS the current one: every path to a success return passes the store. A store skipped
            # under a value comparison (`if current != new`) is not the identity on floats (0.0 == −0.0, NaN ≠ NaN)
            pw = [(bi, si, s) for bi, si, s in writes if any(e["k"] == "field" and e.get("name") == sm["params"] for e in s["place"]["proj"])]
            wblocks = sorted(set(bi for bi, si, s in (pw or writes)))
            oks = [bi for bi, si, s in b.stmts() if s["k"] == "assign" and s["rv"]["k"] == "agg" and s["rv"].get("variant") == "Ok" and s["place"]["l"] == 0]
            free = b.reachable(0, avoid=wblocks) if 0 not in wblocks else set()
            skipped = [o for o in oks if o in free]
            R.add(rule, config, b.key, "Ok-implies-stored", not skipped, "" if not skipped else
                  "a path through set_params returns Ok without storing the given parameters (the store is conditional): afterwards params() and the "
                  "evaluations need not be those of the vector that was accepted", b.j["span"])
    R.floor(rule, config, 2, "SeparableModel::set_params write")


def rule_model_guards(F, ev, R, config, rule="R-MODEL-GUARDS"):
    sm = sepmodel_roles(F, ev)
    for name in ("eval", "eval_partial_deriv"):
        for b in trait_impl_methods(F, TRAIT_MODEL, ADT_SEPMODEL, name):
            env = Env(b)
            g = Guards(ev, b, env)
            me = ("param", b.key, 1)
            is_alloc = lambda t: "fn" in t and t["fn"].get("krate") == "nalgebra" and t["fn"]["name"] in ("uninit", "from_element", "zeros", "zeros_generic", "from_element_generic")
            # the result matrix may be allocated in the method or in a private helper it calls (judged in this calling context)
            allocs = [(env, bi, t) for bi, t in b.calls() if is_alloc(t)]
            for hk, envs in helper_contexts(F, ev).items():
                for henv in envs:
                    if context_root(F, henv).key == b.key:
                        allocs.extend((henv, bi, t) for bi, t in henv.body.calls() if is_alloc(t))
            for aenv, bi, t in allocs:
                rels, raw = context_relations(ev, aenv, bi)
                okc = False
                for r in rels:
                    if r[0] == "Eq":
                        ops = (r[1], r[2])
                        if any(o[0] == "call" and o[1].endswith("::len") and o[3][0] == ("field", me, sm["params"]) for o in ops) and \
                                any(o[0] == "call" and o[1].endswith("::len") and o[3][0] == ("field", me, sm["names"]) for o in ops):
                            okc = True
                R.add(rule, config, b.key, "alloc-needs-parameter-count-guard", okc, "" if okc else "evaluation proceeds without len(current parameters) == number of parameter names", t.get("span"))
                if name == "eval_partial_deriv":
                    oki = any(r[0] == "Lt" and r[1] == ("param", b.key, 2) and r[2][0] == "call" and r[2][1].endswith("::len") and r[2][3][0] == ("field", me, sm["names"]) for r in rels)
                    R.add(rule, config, b.key, "alloc-needs-index<|names|", oki, "" if oki else "derivative evaluated without the guard index < number of parameters", t.get("span"))
            if name == "eval_partial_deriv":
                # the index error may be produced in the method or in a private helper it calls (judged in this calling context)
                sites = [(b, env, bi, s) for bi, si, s in b.stmts() if s["k"] == "assign" and s["rv"]["k"] == "agg" and s["rv"].get("variant") == "DerivativeIndexOutOfBounds"]
                for hk, envs in helper_contexts(F, ev).items():
                    for henv in envs:
                        if context_root(F, henv).key != b.key:
                            continue
                        for bi, si, s in henv.body.stmts():
                            if s["k"] == "assign" and s["rv"]["k"] == "agg" and s["rv"].get("variant") == "DerivativeIndexOutOfBounds":
                                sites.append((henv.body, henv, bi, s))
                for sb, senv, bi, s in sites:
                    rels, raw = context_relations(ev, senv, bi)
                    rels = list(rels)
                    # an error value built eagerly as the argument of `cond.then_some(()).ok_or(E)`: handed on only when ¬cond
                    only_if = returned_only_if(ev, sb, senv, s["place"]["l"]) if not s["place"]["proj"] else None
                    for t_, tr in (only_if or []):
                        for t2, tr2 in expand_bool(t_, tr):
                            r_ = canon_rel(t2, tr2)
                            if r_:
                                rels.append(r_)
                    ok = any(r[0] == "Le" and r[2] == ("param", b.key, 2) and r[1][0] == "call" and r[1][1].endswith("::len") and r[1][3][0] == ("field", me, sm["names"]) for r in rels)
                    R.add(rule, config, b.key, "OutOfBounds⇔index≥|names|", ok, "" if ok else "index error produced without index ≥ number of parameters", s.get("span"))
    R.floor(rule, config, 4, "eval guard, deriv guards, error mapping")


# --------------------------------------------------------------------------- #
# R-DECLARED-ORDER (C16): the function's and every derivative's wrapper are built from the SAME
# two name lists, in the order the caller declared them
# --------------------------------------------------------------------------- #
def wrapper_fn(F):
    """the function (model names, function names, callable) -> Result<boxed wrapped callable, _>"""
    c = [b for b in F.bodies.values() if b.kind != "Closure" and len(b.j.get("inputs", [])) == 3
         and b.j["inputs"][0].startswith("&[") and b.j["inputs"][1].startswith("&[")
         and b.j.get("output", "").startswith("std::result::Result<std::boxed::Box<(dyn ")]
    if len(c) != 1:
        raise AnchorMissing("wrapper constructor (names, names, F) -> Result<Box<dyn Fn>, _>: %d candidates" % len(c))
    return c[0]


def strip_copies(t):
    """value identity through copies of a list (to_vec / clone / to_owned / into / collect of a plain iter)"""
    while True:
        if t[0] == "call" and t[1].rsplit("::", 1)[-1] in ("to_vec", "clone", "to_owned", "into", "from", "into_vec", "as_slice", "as_ref", "deref") and t[3]:
            t = t[3][0]
            continue
        return t


def fnbuilder_list_roles(F, ev):
    """(model-names field, function-names field) of the function builder, told apart by use: which one is handed
    to the wrapper constructor as which argument"""
    from effects import iteration_effects
    W = wrapper_fn(F)
    lists = [f["name"] for f in struct_fields(F, ADT_FNBUILDER) if f["ty"].startswith("std::vec::Vec<std::string::String>")]
    ev2 = Eval(F, opaque=set(ev.opaque) | {W.key})
    wcid = strip_generics(W.j["path"])
    role = {}
    for b in inherent_methods(F, ADT_FNBUILDER):
        me = ("param", b.key, 1)
        for e in iteration_effects(ev2, Env(b)):
            if e.kind == "call" and e.cid == wcid and len(e.args) >= 2:
                for idx, a in ((0, e.args[0]), (1, e.args[1])):
                    x = strip_copies(a)
                    if x[0] == "field" and x[1] == me and x[2] in lists:
                        role.setdefault(idx, set()).add(x[2])
    if set(role) != {0, 1} or any(len(v) != 1 for v in role.values()) or role[0] == role[1]:
        raise AnchorMissing("function builder name-list roles: %s" % {k: sorted(v) for k, v in role.items()})
    return next(iter(role[0])), next(iter(role[1]))


def rule_declared_order(F, ev, R, config, rule="R-DECLARED-ORDER"):
    W = wrapper_fn(F)
    fs = struct_fields(F, ADT_FNBUILDER)
    lists = [f["name"] for f in fs if f["ty"].startswith("std::vec::Vec<std::string::String>")]
    if len(lists) != 2:
        raise AnchorMissing("function builder: expected two name-list fields, found %s" % lists)
    methods = [b for b in inherent_methods(F, ADT_FNBUILDER)]
    # roles by use: which field is passed as which argument of the wrapper constructor
    role = {}
    wsites = []
    from effects import iteration_effects
    ev = Eval(F, opaque=set(ev.opaque) | {W.key})
    wcid = strip_generics(W.j["path"])
    for b in methods:
        me = ("param", b.key, 1)
        # the call may sit in the method or in a closure / helper it runs (`.and_then(|()| wrap(..))`)
        for e in iteration_effects(ev, Env(b)):
            if e.kind == "call" and e.cid == wcid and len(e.args) >= 2:
                a0, a1 = e.args[0], e.args[1]
                wsites.append((b, e.block, e.term, a0, a1))
                for idx, a in ((0, a0), (1, a1)):
                    x = strip_copies(a)
                    if x[0] == "field" and x[1] == me and x[2] in lists:
                        role.setdefault(idx, set()).add(x[2])
    if not wsites:
        R.bad(rule, config, ADT_FNBUILDER, "anchor-missing", "the function builder never constructs a wrapped function")
        return
    if any(len(v) != 1 for v in role.values()) or set(role) != {0, 1} or role[0] == role[1]:
        R.bad(rule, config, ADT_FNBUILDER, "list-roles", "the two name lists are not used consistently as (model names, function names): %s" % {k: sorted(v) for k, v in role.items()})
        return
    mrole, frole = next(iter(role[0])), next(iter(role[1]))
    for b, bi, t, a0, a1 in wsites:
        me = ("param", b.key, 1)
        has_self = bool(b.j.get("inputs")) and ADT_FNBUILDER in b.j["inputs"][0]
        if has_self:
            ok = strip_copies(a0) == ("field", me, mrole) and strip_copies(a1) == ("field", me, frole)
            R.add(rule, config, b.key, "wrapper-built-from-stored-lists", ok,
                  "" if ok else "a derivative is wrapped with `%s` / `%s`, not with the stored (model names, function names) lists" % (short(a0)[:60], short(a1)[:60]), t.get("span"))
        else:
            # constructor: what is stored must be what the function itself was wrapped with
            for bi2, si2, s in b.stmts():
                if s["k"] == "assign" and s["rv"]["k"] == "agg" and s["rv"].get("adt") == ADT_FNBUILDER:
                    v = ev.rvalue(Env(b), s["rv"], (bi2, si2))
                    f = dict(v[3])
                    okm = strip_copies(f.get(mrole)) == strip_copies(a0)
                    okf = strip_copies(f.get(frole)) == strip_copies(a1)
                    R.add(rule, config, b.key, "stored-lists=lists-the-function-was-wrapped-with", okm and okf,
                          "" if okm and okf else "the builder stores `%s` as its %s list but wrapped the function with `%s`: derivatives will receive their arguments in a different order than the function"
                          % (short(f.get(frole if okm else mrole))[:80], "function-name" if okm else "model-name", short(a1 if okm else a0)[:80]), s.get("span"))
    # methods rebuild the builder with the same lists; nobody writes or mutably borrows them
    for b in methods:
        has_self = bool(b.j.get("inputs")) and ADT_FNBUILDER in b.j["inputs"][0]
        if not has_self:
            continue
        me = ("param", b.key, 1)
        for bi, si, s in b.stmts():
            if s["k"] == "assign" and s["rv"]["k"] == "agg" and s["rv"].get("adt") == ADT_FNBUILDER:
                v = ev.rvalue(Env(b), s["rv"], (bi, si))
                f = dict(v[3])
                ok = f.get(mrole) == ("field", me, mrole) and f.get(frole) == ("field", me, frole)
                R.add(rule, config, b.key, "rebuilt-with-same-lists", ok, "" if ok else "the builder is rebuilt with changed name lists", s.get("span"))
    for b in F.bodies.values():
        for bi, si, s in b.stmts():
            if s["k"] != "assign":
                continue
            pf = [e for e in s["place"]["proj"] if e["k"] == "field" and e.get("owner") == ADT_FNBUILDER and e["name"] in (mrole, frole)]
            if pf:
                R.bad(rule, config, b.key, "list-write:" + pf[0]["name"], "a stored name list of the function builder is written after construction", s.get("span"))
            rv = s["rv"]
            if rv["k"] in ("ref", "rawptr") and rv.get("mut"):
                pf = [e for e in rv["place"]["proj"] if e["k"] == "field" and e.get("owner") == ADT_FNBUILDER and e["name"] in (mrole, frole)]
                if pf:
                    R.bad(rule, config, b.key, "list-mut-borrow:" + pf[0]["name"], "a stored name list of the function builder is borrowed mutably (reordered / changed in place?)", s.get("span"))
    R.floor(rule, config, 3, "constructor, derivative wrapper, rebuild in partial_deriv")


def rule_model_sealed(F, ev, R, config, rule="R-MODEL-SEALED"):
    """a built SeparableModel can only change through SeparableNonlinearModel::set_params, and only its parameter vector:
    no public field; no assignment to / mutable borrow of any field anywhere in the crate except the parameter role inside
    the trait's set_params; no function handing out `&mut` into the model; constructed only by the builder's finaliser
    (TryInto) or Clone. A new public setter (renaming the parameters, say) would create states the builder never does:
    the length checks read the name list while the wrapped functions keep their original parameter indices."""
    sm = sepmodel_roles(F, ev)
    for f in struct_fields(F, ADT_SEPMODEL):
        ok = f["vis"] != "pub"
        R.add(rule, config, ADT_SEPMODEL, "private:" + f["name"], ok, "" if ok else "field `%s` of SeparableModel is public" % f["name"])
    setp = set(b.key for b in trait_impl_methods(F, TRAIT_MODEL, ADT_SEPMODEL, "set_params"))
    for b in sorted(F.bodies.values(), key=lambda x: x.key):
        im = b.j.get("impl", {})
        root = b.j.get("root", b.key)
        out = b.j.get("output", "")
        if b.kind != "Closure" and im.get("self_adt") == ADT_SEPMODEL and "&mut" in out:
            R.bad(rule, config, b.key, "no-mut-escape", "returns a mutable reference `%s` into the model" % out[:60], b.j["span"])
        if im.get("trait") == "std::clone::Clone" and im.get("self_adt") == ADT_SEPMODEL:
            continue
        for bi, si, s in b.stmts():
            if s["k"] != "assign":
                continue
            pf = [e for e in s["place"]["proj"] if e["k"] == "field" and e.get("owner") == ADT_SEPMODEL]
            if pf:
                ok = pf[0]["name"] == sm["params"] and root in setp and len([e for e in s["place"]["proj"] if e["k"] == "field"]) == 1
                R.add(rule, config, b.key, "write:" + pf[0]["name"], ok,
                      "" if ok else "field `%s` of a built model is written outside SeparableNonlinearModel::set_params" % pf[0]["name"], s.get("span"))
            rv = s["rv"]
            if rv["k"] in ("ref", "rawptr") and rv.get("mut"):
                pf = [e for e in rv["place"]["proj"] if e["k"] == "field" and e.get("owner") == ADT_SEPMODEL]
                if pf:
                    R.bad(rule, config, b.key, "mut-borrow:" + pf[0]["name"], "mutable borrow of field `%s` of a built model" % pf[0]["name"], s.get("span"))
            if rv["k"] == "agg" and rv.get("adt") == ADT_SEPMODEL:
                ok = im.get("trait", "").startswith("std::convert::TryInto") or im.get("trait", "").startswith("std::convert::TryFrom") or \
                    (F.bodies.get(root, b).j.get("impl", {}).get("self_adt") in (ADT_MBUILDER, "model::builder::UnfinishedModel"))
                R.add(rule, config, b.key, "constructs-model", ok, "" if ok else "a SeparableModel is constructed outside the builder's finaliser", s.get("span"))
    R.floor(rule, config, 6, "4 private fields, the parameter write, the constructor")
