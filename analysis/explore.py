#!/usr/bin/env python3
"""explore.py <config> <key-substring> [mir|ret|calls] — developer aid"""
import sys, glob, os
sys.path.insert(0, os.path.dirname(os.path.abspath(__file__)))
from core import *
import props, extract
cfg, sub = sys.argv[1], sys.argv[2]
what = sys.argv[3] if len(sys.argv) > 3 else "ret"
F = Facts(extract.extract(os.environ.get("VP_REPO", "/repo"), cfg)[0])
ev = props.make_eval(F)
if len(sys.argv) > 4 and sys.argv[4] == "noinline":
    ev = Eval(F, opaque=list(F.bodies.keys()))
for b in F.bodies.values():
    if sub in b.key:
        if what == "mir":
            import re
            d = b.dump()
            d = d.replace("<Model as model::SeparableNonlinearModel>::ScalarType", "S")
            d = re.sub(r"nalgebra::Matrix<S, nalgebra::Dyn, nalgebra::Dyn, nalgebra::VecStorage<S, nalgebra::Dyn, nalgebra::Dyn>>", "DMat", d)
            print(d)
        elif what == "ret":
            ev.fresh_ctx()
            v = ev.ret_val(Env(b))
            print(b.key, "\n   =>", short(v))
            print("   assumed:", [short(a) for a in ev.ctx.assumed])
            if ev.ctx.unknowns: print("   unknowns:", ev.ctx.unknowns)
        elif what == "calls":
            env = Env(b)
            for bi, t in b.calls():
                print(bi, short(ev.call_val(env, bi))[:400])
