"""Rules on the fitting problem type (C01, C02, C06, C07, C10 and their parallel twins)."""
from core import *
from flow import consumers
import rules_err
from rules_svd import is_svd_site, SVD_NAMES


# --------------------------------------------------------------------------- #
# small term matchers
# --------------------------------------------------------------------------- #
def is_call(t, suffix):
    return t[0] == "call" and (t[1] == suffix or t[1].endswith("::" + suffix) or t[1].endswith(suffix))


def ok_of(t):
    """strip the `!ok` payload wrapper"""
    if t[0] == "payload" and t[2] == "ok":
        return t[1]
    return None


def self_field(t, body_key, name):
    return t == ("field", ("param", body_key, 1), name)


def strip_mut(t):
    sites = []
    while t[0] == "mutated":
        sites.append(t[2])
        t = t[1]
    return t, sites


def wmul_parts(t):
    """W·M as the `&Weights * M` operator -> (W term, M term)"""
    if t[0] == "call" and t[1] == "std::ops::Mul::mul" and t[2] == ADT_WEIGHTS and len(t[3]) == 2:
        return t[3]
    return None


def flatten_arg(x):
    """M if x is reshape_generic(M, Dyn(nrows(M)·ncols(M)), _) — column-major stacking"""
    if x[0] == "call" and x[1].endswith("reshape_generic") and len(x[3]) == 3:
        M, r, c = x[3]
        dim = r[3][0][1] if r[0] == "agg" and r[3] else r
        if dim[0] == "bin" and dim[1] == "Mul":
            names = set()
            for f in (dim[2], dim[3]):
                if f[0] == "call" and f[3] == (M,):
                    names.add(f[1].rsplit("::", 1)[-1])
            if names == {"nrows", "ncols"}:
                return M
        # `M.len()` of a matrix is nrows·ncols
        if dim[0] == "call" and dim[1].rsplit("::", 1)[-1] == "len" and "nalgebra" in dim[1] and dim[3] == (M,):
            return M
    return None


def resolve_cache_roles_by_use(F, ev):
    """coefficients = the cache matrix returned by LevMarProblem::linear_coefficients();
    residuals = the one returned by LeastSquaresProblem::residuals()"""
    cr = cache_roles(F)
    pr = problem_roles(F)

    def fields_used(bodies):
        names = set()
        for b in bodies:
            ev.fresh_ctx()
            v = ev.ret_val(Env(b))
            for x in walk(v):
                if x[0] == "field" and x[2] in cr["mats"]:
                    inner = x[1]
                    if contains(inner, lambda y: y[0] == "field" and y[2] == pr["cache"]):
                        names.add(x[2])
        return names

    coeff = fields_used(inherent_methods(F, ADT_PROBLEM, "linear_coefficients"))
    resid = set()
    for self_ty, ms in lsp_impls(F).items():
        if "residuals" in ms:
            resid |= fields_used([ms["residuals"]])
    if len(coeff) != 1 or len(resid) != 1 or coeff == resid:
        raise AnchorMissing("cache roles by use: coefficients=%s residuals=%s" % (sorted(coeff), sorted(resid)))
    return {"coeff": coeff.pop(), "resid": resid.pop(), "svd": cr["svd"], "path": cr["path"]}


def set_params_sinks(F, ev, b, roles):
    """the `cache = Some(Cached{..})` writes of an LSP::set_params body with their terms"""
    out = []
    for (bi, si, kind, v, s) in rules_err.cache_writes(F, ev, b, roles):
        out.append((bi, si, kind, v, s))
    return out


def model_after_set(F, b, t, roles):
    """t must be the model role as left by the Model::set_params call of this body;
    returns (ok, msg)"""
    base, sites = strip_mut(t)
    if not self_field(base, b.key, roles["model"]):
        return False, "model argument is not the problem's model: %s" % short(t)
    if len(sites) != 1:
        return False, "model evaluated %s a parameter application" % ("before" if not sites else "after more than one mutable use following")
    _, blk, si = sites[0]
    st = b.blocks[blk]["stmts"][si]
    tmp = st["place"]["l"]
    cons = consumers(b, tmp)
    calls = [c for c in cons if c["kind"] == "call"]
    if len(calls) == 1 and is_model_call(calls[0]["term"], "set_params") and calls[0]["arg"] == 0:
        return True, ""
    return False, "the mutable use of the model preceding eval() is not Model::set_params"


# --------------------------------------------------------------------------- #
def rule_coef_solve(F, ev, R, config, rule="R-COEF-SOLVE"):
    roles = problem_roles(F)
    cuse = resolve_cache_roles_by_use(F, ev)
    n = 0
    for self_ty, ms in sorted(lsp_impls(F).items()):
        b = ms.get("set_params")
        fl = flavour_of(self_ty)
        if b is None:
            R.bad(rule, config, self_ty, "anchor-missing", "no set_params in LeastSquaresProblem impl")
            continue
        sinks = [x for x in set_params_sinks(F, ev, b, roles) if x[2] != "none"]
        if not sinks:
            R.bad(rule, config, b.key, "some-write@" + fl, "set_params never stores a present cache")
            continue
        for (bi, si, kind, v, s) in sinks:
            n += 1
            if kind != "some" or v[1][0] != "agg" or v[1][1] != cuse["path"]:
                R.bad(rule, config, b.key, "cache-shape@" + fl, "cache written with an unrecognised value %s (undetermined)" % short(v)[:200], s.get("span"))
                continue
            fields = dict(v[1][3])
            C = fields.get(cuse["coeff"])
            inner = ok_of(C) if C else None
            if inner is None or not is_call(inner, "SVD::solve"):
                R.bad(rule, config, b.key, "coeff-is-solve@" + fl,
                      "cached coefficients are not the result of SVD::solve: %s (undetermined)" % short(C)[:200], s.get("span"))
                continue
            svd_t, rhs, eps = inner[3]
            R.ok(rule, config, b.key, "coeff-is-solve@" + fl, "C = %s" % short(C)[:160], s.get("span"))
            # ε: pure copy of the ε role
            okeps = self_field(eps, b.key, roles["eps"])
            R.add(rule, config, b.key, "eps-is-configured@" + fl, okeps,
                  "" if okeps else "the singular-value threshold handed to solve() is `%s`, not the problem's configured epsilon" % short(eps), s.get("span"))
            # rhs: the weighted data role
            okrhs = self_field(rhs, b.key, roles["data"])
            R.add(rule, config, b.key, "rhs-is-weighted-data@" + fl, okrhs,
                  "" if okrhs else "solve() right-hand side is `%s`, not the stored weighted observations" % short(rhs)[:160], s.get("span"))
            # SVD of W·eval(model) with U and V
            sv = svd_ctor_term(svd_t)
            if sv is None:
                R.bad(rule, config, b.key, "svd-of-weighted-basis@" + fl, "decomposition is `%s` (undetermined)" % short(svd_t)[:160], s.get("span"))
                continue
            X, cu, cv = sv
            tun = svd_tuning(svd_t)
            if tun is not None:
                # an entry point with its own convergence tolerance: the factors are only as accurate as that tolerance,
                # which therefore must not be a caller-controlled quantity (such as the truncation epsilon)
                oktol = not input_dependent(tun[0])
                R.add(rule, config, b.key, "svd-accurate@" + fl, oktol,
                      "" if oktol else "the decomposition is computed with the convergence tolerance `%s`: with a coarse value the factors handed to "
                      "solve() are not an SVD of W·Φ and the coefficients are not the least-squares solution" % short(tun[0])[:80], s.get("span"))
            okuv = cu == ("const", "bool", 1) and cv == ("const", "bool", 1)
            R.add(rule, config, b.key, "svd-computes-u-and-v@" + fl, okuv,
                  "" if okuv else "SVD requested without U or V (compute_u=%s, compute_v=%s): solve()/jacobian() need both" % (short(cu), short(cv)), s.get("span"))
            wp = wmul_parts(X)
            okw = False
            msg = "the decomposed matrix is `%s`, not W·Φ" % short(X)[:160]
            if wp:
                W, Phi = wp
                e = ok_of(Phi)
                if self_field(W, b.key, roles["weights"]) and e is not None and is_call(e, TRAIT_MODEL + "::eval"):
                    okm, m2 = model_after_set(F, b, e[3][0], roles)
                    if okm:
                        okw = True
                    else:
                        msg = m2
            R.add(rule, config, b.key, "svd-of-weighted-basis@" + fl, okw, "" if okw else msg, s.get("span"))
            # the cached SVD is the one the coefficients were solved with
            oksame = fields.get(cuse["svd"]) == svd_t
            R.add(rule, config, b.key, "cached-svd-is-solve-svd@" + fl, oksame,
                  "" if oksame else "the SVD stored in the cache is not the decomposition used for the coefficients", s.get("span"))
    R.floor(rule, config, 6 if not config.endswith("parallel") else 12, "six clauses per LeastSquaresProblem::set_params impl")


def rule_resid_term(F, ev, R, config, rule="R-RESID-TERM"):
    """cache residuals = Y_w − (W·Φ)·C with the same W·Φ and C nodes as the solve"""
    roles = problem_roles(F)
    cuse = resolve_cache_roles_by_use(F, ev)
    for self_ty, ms in sorted(lsp_impls(F).items()):
        b = ms.get("set_params")
        fl = flavour_of(self_ty)
        if b is None:
            continue
        for (bi, si, kind, v, s) in set_params_sinks(F, ev, b, roles):
            if kind != "some" or v[1][0] != "agg":
                continue
            fields = dict(v[1][3])
            Rm = fields.get(cuse["resid"])
            C = fields.get(cuse["coeff"])
            svd_t = fields.get(cuse["svd"])
            ok = False
            msg = "cached residuals are `%s`, expected Y_w − (W·Φ)·C" % short(Rm)[:200]
            if Rm and Rm[0] == "call" and Rm[1] == "std::ops::Sub::sub" and len(Rm[3]) == 2:
                a, prod = Rm[3]
                if not self_field(a, b.key, roles["data"]):
                    msg = "minuend of the residuals is `%s`, not the weighted observations" % short(a)[:120]
                elif prod[0] == "call" and prod[1] == "std::ops::Mul::mul" and len(prod[3]) == 2:
                    X, Cc = prod[3]
                    svdX = svd_ctor_term(svd_t)[0] if svd_t and svd_ctor_term(svd_t) else None
                    if Cc != C:
                        msg = "the coefficients multiplied into the residuals are not the cached coefficients"
                    elif X != svdX:
                        msg = "the basis matrix used for the residuals `%s` is not the weighted matrix that was decomposed" % short(X)[:120]
                    else:
                        ok = True
            elif Rm and Rm[0] == "call" and Rm[1] == "std::ops::Sub::sub":
                msg = "residual sign/operands differ: %s" % short(Rm)[:200]
            if not ok and Rm is not None and C is not None and svd_t and svd_ctor_term(svd_t):
                # the same value in another association or through an in-place kernel (`W·(Φ·C)`, `r.gemm(−1, Φ_w, C, 1)`):
                # compare normal forms — Y_w − X·C with X the decomposed matrix and C the cached coefficients as atoms
                import nf as nfmod
                from rules_panic import nosite
                N = nfmod.NF()
                svdX = svd_ctor_term(svd_t)[0]
                me = ("param", b.key, 1)
                Yw = ("field", me, roles["data"])

                def unclone(t):
                    if isinstance(t, tuple) and t and t[0] == "call" and t[1] in ("std::clone::Clone::clone", "nalgebra::Matrix::clone_owned", "nalgebra::Matrix::into_owned") and len(t[3]) == 1:
                        return unclone(t[3][0])
                    if isinstance(t, tuple):
                        return tuple(unclone(x) if isinstance(x, tuple) else x for x in t)
                    return t
                catom = ("C-cached",)
                def sub_c(t):
                    if t == C:
                        return catom
                    if isinstance(t, tuple):
                        return tuple(sub_c(x) if isinstance(x, tuple) else x for x in t)
                    return t
                try:
                    # call sites are kept: the basis matrix of the residuals must be the very evaluation that was
                    # decomposed, not a second call of the model
                    got = N.nf(unclone(sub_c(Rm)))
                    want = nfmod.add(N.nf(Yw), nfmod.mul(N.nf(unclone(svdX)), N.atom(catom)), -1)
                    if got == want:
                        ok = True
                except RecursionError:
                    pass
            R.add(rule, config, b.key, "resid=Yw-(WPhi)C@" + fl, ok, "" if ok else msg, s.get("span"))
    R.floor(rule, config, 1 if not config.endswith("parallel") else 2, "one per set_params impl")


def rule_pure_projection(F, ev, R, config, rule="R-PURE-PROJECTION"):
    """accessors return a role (or vec/view/clone of it) and nothing else"""
    roles = problem_roles(F)
    cuse = resolve_cache_roles_by_use(F, ev)
    cachef = roles["cache"]

    def field_chain(t):
        """names along a pure field/payload chain down to self, or None"""
        names = []
        while True:
            if t[0] == "field":
                names.append(t[2])
                t = t[1]
            elif t[0] == "payload" and t[2] == "ok":
                t = t[1]
            elif t[0] == "opt":
                t = t[1]
            elif t[0] == "param":
                return list(reversed(names))
            else:
                return None

    def check(b, expect_chain, inst, wrap=None, allow_index0=False):
        ev.fresh_ctx()
        v = ev.ret_val(Env(b))
        alts = v[1] if v[0] == "phi" else (v,)
        good = 0
        for a in alts:
            if a[0] in ("none", "from_residual", "unreachable"):
                continue
            x = a
            if x[0] == "opt":
                x = x[1]
            if wrap and x[0] == "call" and x[1].endswith(wrap) and x[3]:
                x = x[3][0]
            if allow_index0 and x[0] == "call" and x[1].endswith("::column") and len(x[3]) == 2 and x[3][1] == ("const", "usize", 0):
                x = x[3][0]
            ch = field_chain(x)
            if ch == expect_chain:
                good += 1
            else:
                R.bad(rule, config, b.key, inst, "returns `%s`, expected a pure projection of %s" % (short(a)[:160], ".".join(expect_chain)), b.j["span"])
                return
        R.add(rule, config, b.key, inst, good > 0, "" if good else "no value alternative found", b.j["span"])

    # LeastSquaresProblem::residuals = vec(clone(cache.residuals))
    for self_ty, ms in sorted(lsp_impls(F).items()):
        fl = flavour_of(self_ty)
        if "residuals" in ms:
            ev.fresh_ctx()
            b = ms["residuals"]
            v = ev.ret_val(Env(b))
            o = ev.as_opt(v) if v[0] in ("opt", "phi") else None   # early-return (`?`) and combinator forms coincide
            x = o[1] if o else v
            M = flatten_arg(x)
            ok = M is not None and field_chain(M) == [cachef, cuse["resid"]]
            R.add(rule, config, b.key, "residuals=vec(cache.resid)@" + fl, ok,
                  "" if ok else "residuals() returns `%s`, expected the column-major flattening of the cached residual matrix" % short(v)[:200], b.j["span"])
        if "params" in ms:
            b = ms["params"]
            ev.fresh_ctx()
            v = ev.ret_val(Env(b))
            ok = is_call(v, TRAIT_MODEL + "::params") and self_field(v[3][0], b.key, roles["model"])
            R.add(rule, config, b.key, "params=model.params@" + fl, ok, "" if ok else "params() returns `%s`" % short(v)[:160], b.j["span"])
    for b in inherent_methods(F, ADT_PROBLEM, "linear_coefficients"):
        check(b, [cachef, cuse["coeff"]], "coefficients-accessor", allow_index0=True)
    for b in inherent_methods(F, ADT_PROBLEM, "weighted_data"):
        check(b, [roles["data"]], "weighted-data-accessor", allow_index0=True)
    for b in inherent_methods(F, ADT_PROBLEM, "model"):
        check(b, [roles["model"]], "model-accessor")
    for b in inherent_methods(F, ADT_PROBLEM, "weights"):
        check(b, [roles["weights"]], "weights-accessor")
    # FitResult accessors
    fr = struct_fields(F, ADT_FITRESULT)
    pf = [f["name"] for f in fr if f.get("adt") == ADT_PROBLEM]
    rf = [f["name"] for f in fr if f.get("adt") == "levenberg_marquardt::MinimizationReport"]
    if len(pf) != 1 or len(rf) != 1:
        raise AnchorMissing("FitResult roles")
    for b in inherent_methods(F, ADT_FITRESULT, "linear_coefficients"):
        check(b, [pf[0], cachef, cuse["coeff"]], "fitresult-coefficients", allow_index0=True)
    for b in inherent_methods(F, ADT_FITRESULT, "nonlinear_parameters"):
        ev.fresh_ctx()
        v = ev.ret_val(Env(b))
        ok = is_call(v, TRAIT_MODEL + "::params") and field_chain(v[3][0]) == [pf[0], roles["model"]]
        R.add(rule, config, b.key, "fitresult-params", ok, "" if ok else "returns `%s`" % short(v)[:160], b.j["span"])
    for b in inherent_methods(F, ADT_FITRESULT, "was_successful"):
        ev.fresh_ctx()
        v = ev.ret_val(Env(b))
        ok = v[0] == "call" and v[1].endswith("TerminationReason::was_successful") and field_chain(v[3][0]) == [rf[0], "termination"]
        R.add(rule, config, b.key, "fitresult-was-successful", ok, "" if ok else "returns `%s`" % short(v)[:160], b.j["span"])
    R.floor(rule, config, 12 if not config.endswith("parallel") else 14, "accessors of LevMarProblem/FitResult/LeastSquaresProblem")


def rule_vec_colmajor(F, ev, R, config, rule="R-VEC-COLMAJOR"):
    """the flattening shared by residuals and Jacobian columns is reshape(M, rows*cols, 1)"""
    hits = 0
    for b in F.bodies.values():
        if b.kind == "Closure":
            continue
        for bi, t in b.calls():
            if "fn" in t and t["fn"]["name"] == "reshape_generic" and t["fn"].get("krate") == "nalgebra":
                # only flattening helpers: result has one column (U1 / Const<1>)
                gargs = " ".join(t["fn"].get("gargs", []))
                env = Env(b)
                v = ev.call_val(env, bi)
                M, r, c = v[3]
                if not (b.j.get("vis") in ("crate", None) or True):
                    continue
                if "Const<1>" not in ev_type_of(b, t["args"][2]):
                    continue
                hits += 1
                dim = r[3][0][1] if r[0] == "agg" and r[3] else r
                ok = flatten_arg(v) is not None
                # observations(): reshape(y, nrows(y), 1) is also fine (a vector has ncols = 1)
                ok2 = dim[0] == "call" and dim[1].endswith("Matrix::nrows") and dim[3][0] == M
                R.add(rule, config, b.key, "flatten", ok or ok2,
                      "" if (ok or ok2) else "flattening uses row count `%s`, expected nrows·ncols of the same matrix" % short(dim), t.get("span"))
    R.floor(rule, config, 1, "the to_vector flattening helper")


def ev_type_of(b, operand):
    if operand["k"] in ("copy", "move"):
        return b.local_ty(operand["place"]["l"])
    return operand.get("ty", "")


def rule_bestfit(F, ev, R, config, rule="R-BESTFIT"):
    """best_fit() = Model::eval(model) · coefficients for both MRHS flavours"""
    roles = problem_roles(F)
    cuse = resolve_cache_roles_by_use(F, ev)
    fr = struct_fields(F, ADT_FITRESULT)
    pf = [f["name"] for f in fr if f.get("adt") == ADT_PROBLEM][0]
    for b in inherent_methods(F, ADT_FITRESULT, "best_fit"):
        ev.fresh_ctx()
        v = ev.ret_val(Env(b))
        alts = [a for a in (v[1] if v[0] == "phi" else (v,)) if a[0] not in ("from_residual", "none", "unreachable")]
        ok = False
        msg = "best_fit returns `%s`" % short(v)[:200]
        if len(alts) == 1 and alts[0][0] == "opt":
            x = alts[0][1]
            if x[0] == "call" and x[1] == "std::ops::Mul::mul" and len(x[3]) == 2:
                e, c = x[3]
                e0 = ok_of(e)
                okm = e0 is not None and is_call(e0, TRAIT_MODEL + "::eval") and e0[3][0] == ("field", ("field", ("param", b.key, 1), pf), roles["model"])
                names = [y[2] for y in walk(c) if y[0] == "field"]
                okc = cuse["coeff"] in names and roles["cache"] in names and cuse["resid"] not in names
                ok = okm and okc
                if not okm:
                    msg = "left factor `%s` is not a fresh evaluation of the result's model" % short(e)[:120]
                elif not okc:
                    msg = "right factor `%s` is not the cached coefficient matrix" % short(c)[:120]
        R.add(rule, config, b.key, "bestfit=eval*C", ok, "" if ok else msg, b.j["span"])
    R.floor(rule, config, 2, "single- and multi-rhs best_fit")
