#!/usr/bin/env python3
"""regenerate the generated tables of DESIGN.md (seeded corpus, as-built rule table)"""
import json, os, re, sys, glob
HERE = os.path.dirname(os.path.abspath(__file__))
VERIF = os.path.dirname(HERE)
sys.path.insert(0, HERE)
import props

def seeded_table():
    rows = []
    for d in sorted(glob.glob(os.path.join(VERIF, "seeded", "*"))):
        mp = os.path.join(d, "meta.json")
        if not os.path.exists(mp):
            continue
        m = json.load(open(mp))
        name = os.path.basename(d)
        kind = m.get("kind")
        summ = (m.get("summary") or "").replace("\n", " ").replace("|", "/")
        if len(summ) > 230:
            summ = summ[:227] + "…"
        needs = (m.get("needs_to_manifest") or "").replace("\n", " ").replace("|", "/")
        if len(needs) > 150:
            needs = needs[:147] + "…"
        caught = (m.get("caught_by") or "").replace("|", "/")
        rows.append((name, m.get("property"), kind, summ, needs, caught, m.get("last_verdict", "")))
    out = ["| id | property | what was changed | needs to manifest | reported by |", "|---|---|---|---|---|"]
    for r in rows:
        if r[2] == "mutant":
            out.append("| `%s` | %s | %s | %s | %s |" % (r[0], r[1], r[3], r[4] or "—", r[5] or r[6]))
    out.append("")
    out.append("Benign rewrites (all 17 checks must stay silent):")
    out.append("")
    out.append("| id | rewrite | verdict |")
    out.append("|---|---|---|")
    for r in rows:
        if r[2] == "benign":
            out.append("| `%s` | %s | %s |" % (r[0], r[3], r[6] or "silent"))
    out.append("")
    out.append("Behaviour-preserving changes that are reported by design (kind `review`, §8 item 17):")
    out.append("")
    out.append("| id | change | why it is reported |")
    out.append("|---|---|---|")
    for d in sorted(glob.glob(os.path.join(VERIF, "seeded", "*"))):
        mp = os.path.join(d, "meta.json")
        if os.path.exists(mp):
            m = json.load(open(mp))
            if m.get("kind") == "review":
                out.append("| `%s` | %s | %s |" % (os.path.basename(d), (m.get("summary") or "")[:230].replace("\n", " ").replace("|", "/"), (m.get("why_reported") or "").replace("|", "/")))
    return "\n".join(out)

def rules_table():
    out = ["| property | configurations | rules run (as built) |", "|---|---|---|"]
    for pid in sorted(props.PROPS):
        sp = props.PROPS[pid]
        rules = []
        for n, fn, kw in sp["rules"]:
            rules.append(n + ("[" + ",".join(kw["configs"]) + "]" if kw.get("configs") else ""))
        cfg = ", ".join(sp["configs"]) + ((" (+ " + ", ".join(sp["thorough_configs"]) + " thorough)") if sp.get("thorough_configs") else "")
        out.append("| %s | %s | %s |" % (pid, cfg, ", ".join("`%s`" % r for r in rules)))
    return "\n".join(out)

def replace_between(s, tag, body):
    a, b = "<!-- %s-BEGIN -->" % tag, "<!-- %s-END -->" % tag
    if a not in s:
        return s
    i, j = s.index(a) + len(a), s.index(b)
    return s[:i] + "\n" + body + "\n" + s[j:]

if __name__ == "__main__":
    p = os.path.join(VERIF, "DESIGN.md")
    s = open(p).read()
    s = replace_between(s, "SEEDED-TABLE", seeded_table())
    s = replace_between(s, "RULES-TABLE", rules_table())
    open(p, "w").write(s)
    print("tables regenerated")
