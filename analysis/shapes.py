"""E4-lite — symbolic shape typing of the matrix algebra (dimensional analysis on E3 terms).

Every matrix-valued term gets a shape (rows, cols) whose entries are canonical *dimension
terms*; every nalgebra operation met on the no-panic cone is checked for conformance
(A·B needs cols(A) = rows(B); A±B, copy_from, dot need equal shapes; solve needs equal row
counts; try_inverse needs a square matrix; reshape needs an equal element count). The
axioms are the SeparableNonlinearModel shape contract and the relations validated by
LevMarProblemBuilder::build() (rows of the data = output_len, weight length = rows).
This discharges the clause "no dimension-mismatch panic inside nalgebra given a model
honouring the shape contract" of C08, and column-separability in the right-hand-side
space R for C07 (R is never contracted). No numbers are involved."""
from core import *

S_ = "S"   # samples            = Model::output_len
B_ = "B"   # basis functions     = Model::base_function_count
P_ = "P"   # nonlinear parameters= Model::parameter_count
R_ = "R"   # right-hand sides    = ncols(data)
ONE = ("n", 1)


class ShapeError(Exception):
    pass


def model_id(t):
    """identity of a model operand for the count symbols: the trait contract makes
    output_len / base_function_count / parameter_count invariant under set_params"""
    from rules_panic import nosite
    while t[0] == "mutated":
        t = t[1]
    return nosite(t)


def dmul(a, b):
    if a == ONE:
        return b
    if b == ONE:
        return a
    fs = []
    for x in (a, b):
        if x[0] == "mul":
            fs.extend(x[1])
        else:
            fs.append(x)
    return ("mul", tuple(sorted(fs, key=repr)))


def dadd(a, b):
    fs = []
    for x in (a, b):
        if x[0] == "add":
            fs.extend(x[1])
        else:
            fs.append(x)
    return ("add", tuple(sorted(fs, key=repr)))


class Shapes:
    def __init__(self, F, ev, axioms):
        """axioms: {term (nosite) -> shape or dim}"""
        self.F = F
        self.ev = ev
        self.ax = axioms
        self.errors = []
        self.checked = []
        self.unknown = []

    # ---------------- dimension terms ----------------
    def dim(self, t):
        """canonical dimension of a usize term"""
        from rules_panic import nosite
        t0 = nosite(t)
        if t0 in self.ax:
            return self.ax[t0]
        tag = t[0]
        if tag == "const" and isinstance(t[2], int):
            return ("n", t[2])
        if tag == "constitem":
            if t[1].endswith("U1"):
                return ONE
            if t[1].endswith("U0"):
                return ("n", 0)
        if tag == "agg" and t[3] and (t[1].endswith("Dyn") or t[1].endswith("Const")):
            return self.dim(t[3][0][1])
        if tag == "call":
            last = t[1].rsplit("::", 1)[-1]
            if t[1] == TRAIT_MODEL + "::output_len":
                return ("sym", S_, model_id(t[3][0]))
            if t[1] == TRAIT_MODEL + "::base_function_count":
                return ("sym", B_, model_id(t[3][0]))
            if t[1] == TRAIT_MODEL + "::parameter_count":
                return ("sym", P_, model_id(t[3][0]))
            if last in ("from_usize", "value") and "Dim" in t[1]:
                return self.dim(t[3][0])
            if last == "nrows" and t[3]:
                return self.shape(t[3][0])[0]
            if last == "ncols" and t[3]:
                return self.shape(t[3][0])[1]
            if last == "len" and t[3]:
                sh = self.shape(t[3][0], want=False)
                if sh:
                    return dmul(sh[0], sh[1])
        if tag == "field" and t[2] in ("0", "1") and t[1][0] == "call" and t[1][1].rsplit("::", 1)[-1] == "shape" and t[1][3]:
            return self.shape(t[1][3][0])[int(t[2])]
        if tag == "bin":
            if t[1] in ("Mul", "MulUnchecked"):
                return dmul(self.dim(t[2]), self.dim(t[3]))
            if t[1] in ("Add", "AddUnchecked"):
                return dadd(self.dim(t[2]), self.dim(t[3]))
            if t[1] in ("Sub", "SubUnchecked"):
                a, b = self.dim(t[2]), self.dim(t[3])
                if a[0] == "add" and b in a[1]:
                    rest = list(a[1])
                    rest.remove(b)
                    return rest[0] if len(rest) == 1 else ("add", tuple(rest))
                if b == ("n", 0):
                    return a
                return ("sub", a, b)
        return ("opaque", t0)

    # ---------------- shapes ----------------
    def shape(self, t, want=True):
        from rules_panic import nosite
        from rules_stats2 import base_alloc
        t0 = nosite(t)
        if t0 in self.ax:
            return self.ax[t0]
        tag = t[0]
        if tag in ("mutated", "phi"):
            b = base_alloc(t)
            if b is not t and b != t:
                return self.shape(b, want)
            if tag == "phi":
                # a join of alternatives that all have the same shape (`opt.unwrap_or(&J)` over `Some(W·J)`)
                shs = []
                for a_ in t[1]:
                    if a_[0] in ("loopback", "unreachable"):
                        continue
                    shs.append(self.shape(a_, want))
                if shs and all(x == shs[0] for x in shs):
                    return shs[0]
        if tag == "payload" and t[2] == "ok":
            inner = t[1]
            if svd_ctor_term(t) is not None:
                return self.shape(svd_ctor_term(t)[0])
            if inner[0] == "call":
                if inner[1] in (TRAIT_MODEL + "::eval", TRAIT_MODEL + "::eval_partial_deriv"):
                    m = model_id(inner[3][0])
                    return (("sym", S_, m), ("sym", B_, m))
                if inner[1].endswith("SVD::solve"):
                    a = self.svd_arg(inner[3][0])
                    sa, sb = self.shape(a), self.shape(inner[3][1])
                    self.need_eq(sa[0], sb[0], "solve(svd(A), B): rows of A and B", t)
                    return (sa[1], sb[1])
                if inner[1].endswith("try_inverse"):
                    s = self.shape(inner[3][0])
                    self.need_eq(s[0], s[1], "try_inverse needs a square matrix", t)
                    return s
            if inner[0] == "field" and inner[2] == "u":
                a = self.svd_arg(inner[1])
                sa = self.shape(a)
                return (sa[0], ("rank", nosite(a)))
            if inner[0] == "field" and inner[2] == "v_t":
                a = self.svd_arg(inner[1])
                sa = self.shape(a)
                return (("rank", nosite(a)), sa[1])
            return self.shape(inner, want)
        if tag == "opt":
            return self.shape(t[1], want)
        if tag == "call":
            cid, head, args = t[1], t[2], t[3]
            last = cid.rsplit("::", 1)[-1]
            if cid == "std::ops::Mul::mul" and len(args) == 2:
                if head in (ADT_WEIGHTS, ADT_DIAG):
                    sm = self.shape(args[1])
                    ws = self.wsize(args[0])
                    if ws is not None:
                        self.need_eq(ws, sm[0], "W·M: weight length and rows of M", t)
                    return sm
                sa, sb = self.shape(args[0], False), self.shape(args[1], False)
                if sa is None or sb is None:
                    # matrix · scalar
                    return sa or sb or self.fail(t, want)
                self.need_eq(sa[1], sb[0], "A·B: columns of A and rows of B", t)
                return (sa[0], sb[1])
            if cid in ("std::ops::Sub::sub", "std::ops::Add::add") and len(args) == 2:
                sa, sb = self.shape(args[0]), self.shape(args[1])
                self.need_eq(sa[0], sb[0], "A±B: rows", t)
                self.need_eq(sa[1], sb[1], "A±B: columns", t)
                return sa
            if cid == "std::ops::Neg::neg":
                return self.shape(args[0])
            if cid in ("std::ops::Div::div",) and len(args) == 2:
                return self.shape(args[0], want)
            if last == "transpose":
                s = self.shape(args[0])
                return (s[1], s[0])
            if last == "tr_mul" and "nalgebra" in cid and len(args) == 2:
                sa, sb = self.shape(args[0]), self.shape(args[1])
                self.need_eq(sa[0], sb[0], "Aᵀ·B: rows of A and rows of B", t)
                return (sa[1], sb[1])
            if last in ("zeros_generic", "from_element_generic", "uninit") and len(args) >= 2:
                return (self.dim(args[0]), self.dim(args[1]))
            if last == "from_element" and len(args) == 3:
                return (self.dim(args[0]), self.dim(args[1]))
            if last == "zeros" and len(args) == 1:
                return (self.dim(args[0]), ONE)
            if last == "zeros" and len(args) == 2:
                return (self.dim(args[0]), self.dim(args[1]))
            if last == "assume_init":
                return self.shape(args[0])
            if last == "reshape_generic" and len(args) == 3:
                s = self.shape(args[0])
                r, c = self.dim(args[1]), self.dim(args[2])
                self.need_eq(dmul(s[0], s[1]), dmul(r, c), "reshape: element count", t)
                return (r, c)
            if last in ("column", "column_mut") and len(args) == 2:
                s = self.shape(args[0])
                return (s[0], ONE)
            if last == "diagonal":
                s = self.shape(args[0])
                return (s[0], ONE)
            if last in ("from_vec",):
                return (("len", nosite(args[0])), ONE)
            if last == "component_mul" and len(args) == 2:
                return self.shape(args[0])
            if svd_ctor_term(t) is not None:
                return self.shape(args[0])
            if last in ("map", "scale", "abs", "clone", "clone_owned", "into_owned"):
                return self.shape(args[0], want)
        if tag == "field":
            # elements of iterators
            if t[1][0] == "elem":
                parts = self.elem_parts(t[1])
                if parts and t[2] in ("0", "1") and isinstance(parts, tuple) and parts[0] == "pair":
                    x = parts[1 + int(t[2])]
                    if x and x[0] == "shape":
                        return x[1]
                    return None if not want else self.fail(t, want)
        if tag == "elem":
            parts = self.elem_parts(t)
            if parts and parts[0] == "shape":
                return parts[1]
        return self.fail(t, want)

    def elem_parts(self, e):
        """('shape', s) | ('pair', a, b) | ('idx',) | ('scalar',) for an iterator element"""
        from rules_stats2 import base_alloc
        it = e[1]
        while it[0] == "mutated":
            it = it[1]
        if it[0] == "phi":
            alts = [x for x in it[1] if x[0] != "loopback"]
            it = alts[0] if alts else it
            while it[0] == "mutated":
                it = it[1]
        if it[0] != "call":
            return None
        last = it[1].rsplit("::", 1)[-1]
        if last in ("enumerate",):
            return ("pair", ("idx",), self.elem_parts(("elem", it[3][0])))
        if last == "zip":
            return ("pair", self.elem_parts(("elem", it[3][0])), self.elem_parts(("elem", it[3][1])))
        if last in ("column_iter", "column_iter_mut", "par_column_iter_mut", "par_column_iter"):
            s = self.shape(it[3][0])
            return ("shape", (s[0], ONE))
        if last in ("row_iter", "row_iter_mut"):
            s = self.shape(it[3][0])
            return ("shape", (ONE, s[1]))
        if last in ("iter", "iter_mut", "into_iter"):
            return ("scalar",)
        if last in ("map", "filter", "rev", "skip", "take", "cloned", "copied", "by_ref", "peekable"):
            return self.elem_parts(("elem", it[3][0]))
        return None

    def svd_arg(self, svd_t):
        """the decomposed matrix of an SVD-valued term"""
        from rules_panic import nosite
        t = svd_t
        t0 = nosite(t)
        if ("svdarg", t0) in self.ax:
            return self.ax[("svdarg", t0)]
        if svd_ctor_term(t) is not None:
            return svd_ctor_term(t)[0]
        raise ShapeError("SVD value of unknown provenance: %s" % short(t)[:80])

    def wsize(self, w):
        from rules_panic import nosite
        w0 = nosite(w)
        return self.ax.get(("wsize", w0))

    def fail(self, t, want):
        if want:
            self.unknown.append(t)
            raise ShapeError("no shape for `%s`" % short(t)[:100])
        return None

    def need_eq(self, a, b, what, t):
        ok = a == b
        self.checked.append((what, a, b, ok, t))
        if not ok:
            self.errors.append((what, a, b, t))


def show_dim(d):
    if d[0] == "n":
        return str(d[1])
    if d[0] == "sym":
        return d[1]
    if d[0] == "mul":
        return "·".join(show_dim(x) for x in d[1])
    if d[0] == "add":
        return "(" + "+".join(show_dim(x) for x in d[1]) + ")"
    if d[0] == "rank":
        return "K"
    if d[0] == "sub":
        return "(%s−%s)" % (show_dim(d[1]), show_dim(d[2]))
    if d[0] == "len":
        return "len"
    return "?" + short(d[1])[:30] if len(d) > 1 and isinstance(d[1], tuple) else "?"


# --------------------------------------------------------------------------- #
def rule_shapes(F, ev, R, config, rule="R-SHAPES", parts=("set_params", "jacobian", "statistics", "best_fit")):
    """conformance of every matrix operation on the problem / statistics code paths; `parts` selects the code paths a
    property is about (a property about the Jacobian does not speak about the statistics)"""
    from rules_panic import nosite
    from rules_problem import resolve_cache_roles_by_use
    from rules_stats2 import ctor_fields, args_by_type, find_model_jacobian, stats_roles
    pr = problem_roles(F)
    cuse = resolve_cache_roles_by_use(F, ev)
    total = 0

    def problem_axioms(key):
        me = ("param", key, 1)
        model = ("field", me, pr["model"])
        data = ("field", me, pr["data"])
        Sd, Bd = ("sym", S_, model), ("sym", B_, model)
        Rd = ("sym", R_, data)
        ax = {data: (Sd, Rd), ("wsize", ("field", me, pr["weights"])): Sd}
        cache = ("payload", ("field", me, pr["cache"]), "ok", "0")
        wphi = ("axiom-WPhi", key)
        ax[wphi] = (Sd, Bd)
        ax[("svdarg", ("field", cache, cuse["svd"]))] = wphi
        ax[("field", cache, cuse["coeff"])] = (Bd, Rd)
        ax[("field", cache, cuse["resid"])] = (Sd, Rd)
        return ax

    def run(fn_key, inst, terms, axioms):
        nonlocal total
        sh = Shapes(F, ev, axioms)
        und = []
        for what, t in terms:
            try:
                sh.shape(t)
            except ShapeError as e:
                und.append((what, str(e)))
            except RecursionError:
                und.append((what, "recursion"))
        total += len(sh.checked)
        for what, a, b, t in sh.errors:
            R.bad(rule, config, fn_key, "%s:%s" % (inst, what), "dimension mismatch (%s): %s ≠ %s in `%s` — nalgebra panics here for every input" % (what, show_dim(a), show_dim(b), short(t)[:120]))
        okc = [c for c in sh.checked if c[3]]
        if okc or not sh.errors:
            R.ok(rule, config, fn_key, inst, "%d conformance obligations hold (e.g. %s)" % (len(okc), "; ".join("%s: %s=%s" % (c[0], show_dim(c[1]), show_dim(c[2])) for c in okc[:3])))
        for what, msg in und:
            R.bad(rule, config, fn_key, "%s:undetermined:%s" % (inst, what), "shape of a checked matrix expression cannot be established: %s" % msg)
        return sh

    def kernel_buffers(root_keys, axioms, fn_key, inst):
        """in-place kernels met while the terms of this part were evaluated (`a.tr_mul_to(&b, &mut out)`, `out.copy_from(&m)`,
        `y.gemm(α, a, b, 0)`): nalgebra asserts that the buffer already HAS the shape of the value it receives. The value
        terms forget the buffer, so its allocation is compared with the value here."""
        nonlocal total
        import effects as fx
        for rk in root_keys:
            rb = F.bodies.get(rk)
            if rb is not None:
                try:
                    list(fx.iteration_effects(ev, Env(rb)))
                except RecursionError:
                    pass
        for site, (nm, base, val) in sorted(ev.kernel_obligations.items(), key=lambda kv: str(kv[0])):
            root = site[2][0][0] if site[2] else site[0]
            if not any(root == rk or root.startswith(rk + "::") for rk in root_keys):
                continue
            shp = Shapes(F, ev, axioms)
            try:
                sb = shp.shape(base)
                sv = shp.shape(val)
            except (ShapeError, RecursionError):
                continue
            shp.need_eq(sb[0], sv[0], "%s: rows of the target buffer" % nm, val)
            shp.need_eq(sb[1], sv[1], "%s: columns of the target buffer" % nm, val)
            total += len(shp.checked)
            loc = F.bodies[site[0]].key if site[0] in F.bodies else fn_key
            span = F.bodies[site[0]].j.get("span") if site[0] in F.bodies else None
            for what, a_, b_, t_ in shp.errors:
                R.bad(rule, config, loc, "%s:buffer:%s" % (inst, what), "dimension mismatch (%s): the buffer is %s×%s, the value written into it %s×%s — nalgebra panics here whenever the two differ" % (
                    what, show_dim(sb[0]), show_dim(sb[1]), show_dim(sv[0]), show_dim(sv[1])), span)
            if not shp.errors:
                R.ok(rule, config, loc, "%s:buffer:%s" % (inst, nm), "buffer %s×%s receives a value of the same shape" % (show_dim(sb[0]), show_dim(sb[1])), span)

    # ---- LeastSquaresProblem impls ----
    for self_ty, ms in sorted(lsp_impls(F).items()):
        fl = flavour_of(self_ty)
        b = ms.get("set_params")
        if b is not None and "set_params" in parts:
            import rules_err
            ax = problem_axioms(b.key)
            terms = []
            for (bi, si, kind, v, s) in rules_err.cache_writes(F, ev, b, pr):
                if kind == "some" and v[1][0] == "agg":
                    for f, t in v[1][3]:
                        if f != cuse["svd"]:
                            terms.append((f, t))
                        else:
                            terms.append((f, t[3][0] if t[0] == "call" and t[3] else t))
            sh = run(b.key, "set_params@" + fl, terms, ax)
            # the roles get the shapes the axioms of the other methods assume
            try:
                me = ("param", b.key, 1)
                model = ("field", me, pr["model"])
                for (bi, si, kind, v, s) in rules_err.cache_writes(F, ev, b, pr):
                    if kind == "some" and v[1][0] == "agg":
                        f = dict(v[1][3])
                        sc = Shapes(F, ev, ax).shape(f[cuse["coeff"]])
                        sr = Shapes(F, ev, ax).shape(f[cuse["resid"]])
                        sm_ = nosite(strip_m(f[cuse["coeff"]]))
                        okc = sc[0][:2] == ("sym", B_) and sc[1][:2] == ("sym", R_)
                        okr = sr[0][:2] == ("sym", S_) and sr[1][:2] == ("sym", R_)
                        R.add(rule, config, b.key, "coefficients:B×R@" + fl, okc, "" if okc else "cached coefficients have shape %s×%s" % (show_dim(sc[0]), show_dim(sc[1])))
                        R.add(rule, config, b.key, "residuals:S×R@" + fl, okr, "" if okr else "cached residuals have shape %s×%s" % (show_dim(sr[0]), show_dim(sr[1])))
            except ShapeError as e:
                R.bad(rule, config, b.key, "cache-shapes@" + fl, str(e))
            kernel_buffers([b.key], ax, b.key, "set_params@" + fl)
        jb = ms.get("jacobian")
        if jb is not None and "jacobian" in parts:
            from rules_problem2 import jacobian_column_write
            ax = problem_axioms(jb.key)
            try:
                alloc, k, val, e, effs, _cn = jacobian_column_write(F, ev, jb)
                shp = Shapes(F, ev, ax)
                sa = shp.shape(alloc)
                sv = shp.shape(val)
                shp.need_eq(sa[0], sv[0], "copy_from(column, value): rows", val)
                shp.need_eq(ONE, sv[1], "copy_from(column, value): one column", val)
                total += len(shp.checked)
                for what, a_, b2, t2 in shp.errors:
                    R.bad(rule, config, e.body.key, "jacobian-column@%s:%s" % (fl, what), "dimension mismatch (%s): %s ≠ %s" % (what, show_dim(a_), show_dim(b2)))
                if not shp.errors:
                    R.ok(rule, config, e.body.key, "jacobian-column@" + fl, "%d obligations: column of a (%s)×(%s) matrix ← vec of %s×%s" % (
                        len(shp.checked), show_dim(sa[0]), show_dim(sa[1]), show_dim(sv[0]), show_dim(sv[1])))
            except (ShapeError, AnchorMissing) as ex:
                R.bad(rule, config, jb.key, "jacobian-column@%s:undetermined" % fl, str(ex))
            kernel_buffers([jb.key], ax, jb.key, "jacobian@" + fl)
    # ---- statistics ----
    try:
        if "statistics" not in parts:
            raise StopIteration
        b, env, f, s, sbi = ctor_fields(F, ev)
        a = args_by_type(b)
        model = a["model"]
        Sd, Bd, Pd = ("sym", S_, model), ("sym", B_, model), ("sym", P_, model)
        mats = a.get("mats", [])
        ax = {("wsize", a["weights"]): Sd}
        # weighted data: S×1, coefficients: B×1 (by use: the one multiplied from the right onto eval())
        sr = stats_roles(F, ev)
        wres = f[sr["wres"]]
        coef = None
        for x in walk(wres):
            if x[0] == "call" and x[1] == "std::ops::Mul::mul" and x[3][1] in mats:
                coef = x[3][1]
        for m in mats:
            ax[m] = (Bd, ONE) if m == coef else (Sd, ONE)
        terms = [(k, f[sr[k]]) for k in ("wres", "cov")]
        run(b.key, "statistics", terms, ax)
        shp = Shapes(F, ev, ax)
        sc = shp.shape(f[sr["cov"]])
        want = dadd(Bd, Pd)
        okc = sc == (want, want)
        R.add(rule, config, b.key, "covariance:(B+P)×(B+P)", okc, "" if okc else "covariance has shape %s×%s" % (show_dim(sc[0]), show_dim(sc[1])))
        total += len(shp.checked)
    except StopIteration:
        pass
    except (ShapeError, AnchorMissing) as e:
        R.bad(rule, config, "statistics", "undetermined", str(e))
    # ---- best_fit ----
    fr = struct_fields(F, ADT_FITRESULT)
    pf = [x["name"] for x in fr if x.get("adt") == ADT_PROBLEM][0]
    for b in (inherent_methods(F, ADT_FITRESULT, "best_fit") if "best_fit" in parts else []):
        me = ("field", ("param", b.key, 1), pf)
        model = ("field", me, pr["model"])
        cache = ("payload", ("field", me, pr["cache"]), "ok", "0")
        ax = {("field", cache, cuse["coeff"]): (("sym", B_, model), ("sym", R_, "data"))}
        v = ev.ret_val(Env(b))
        alts = [x for x in (v[1] if v[0] == "phi" else (v,)) if x[0] == "opt"]
        if alts:
            run(b.key, "best_fit", [("value", alts[0][1])], ax)
    # C07: R is never contracted — every product met had R only as the column space of its right factor
    per = {"set_params": (3, 6), "jacobian": (1, 2), "statistics": (2, 2), "best_fit": (0, 0)}
    nmin = sum(per[p_][0 if not config.endswith("parallel") else 1] for p_ in parts if p_ in per)
    R.floor(rule, config, min(nmin, 6 if not config.endswith("parallel") else 9), "set_params ×3, jacobian column, statistics ×2 (per selected part and flavour)")


def strip_m(t):
    while t[0] in ("mutated", "payload"):
        t = t[1]
    return t
