#!/usr/bin/env python3
"""vpcheck <Cxx> [--tier quick|thorough] [--repo /repo] [--replay <path>]

Decides one property of geo-ant/varpro by static analysis of /repo's current
working tree: re-extracts type-checked MIR facts with the rustc driver (E1) for
the `default` and `parallel` feature configurations (thorough: also `release`),
then evaluates the property's rules (E2-E4). Exit 0 = every rule instance holds
(known findings are printed as KNOWN-FINDING lines); exit 1 + a line
`VIOLATION property=<id> replay=<path>` otherwise."""
import argparse
import importlib
import json
import os
import sys
import time
import traceback

HERE = os.path.dirname(os.path.abspath(__file__))
VERIF = os.path.dirname(HERE)
sys.path.insert(0, HERE)

import extract  # noqa: E402
from core import Report, Facts, Eval, AnchorMissing  # noqa: E402
import props  # noqa: E402


def load_known():
    p = os.path.join(VERIF, "known_findings.json")
    if not os.path.exists(p):
        return []
    with open(p) as f:
        return json.load(f).get("findings", [])


def main():
    ap = argparse.ArgumentParser()
    ap.add_argument("prop")
    ap.add_argument("--tier", default=os.environ.get("VERIF_TIER", "quick"))
    ap.add_argument("--repo", default=os.environ.get("VP_REPO", "/repo"))
    ap.add_argument("--replay", default=None)
    ap.add_argument("--no-evidence", action="store_true")
    ap.add_argument("--quiet", action="store_true")
    args = ap.parse_args()
    t0 = time.time()
    prop = args.prop
    tier = args.tier if args.tier in ("quick", "thorough") else "quick"
    try:
        seed = int(os.environ.get("VERIF_SEED", "0"))
    except ValueError:
        seed = 0
    spec = props.PROPS.get(prop)
    if spec is None:
        print("vpcheck: property %s is not claimed (see MANIFEST.json not_applicable)" % prop)
        return 2
    configs = list(spec["configs"])
    if tier == "thorough":
        configs += [c for c in spec.get("thorough_configs", []) if c not in configs]
    R = Report(prop)
    import rules_lm
    rules_lm.REPO = args.repo
    facts = {}
    xinfo = {}
    for c in configs:
        path, info = extract.extract(args.repo, c)
        xinfo[c] = info
        if path is None:
            R.bad("E1-EXTRACT", c, "-", "build",
                  "cannot extract facts (%s): the tree does not compile in configuration `%s` or the extractor failed:\n%s"
                  % (args.repo, c, (info.get("error") or "")[-1500:]))
            continue
        facts[c] = Facts(path)
    extract.prune_cache()
    rule_errors = []
    for c in configs:
        if c not in facts:
            continue
        F = facts[c]
        for rule_name, fn, kwargs in spec["rules"]:
            only = kwargs.get("configs")
            if only and c not in only:
                continue
            kw = {k: v for k, v in kwargs.items() if k != "configs"}
            ev = props.make_eval(F)
            try:
                fn(F, ev, R, c, **kw)
            except AnchorMissing as e:
                R.bad(rule_name, c, "-", "anchor-missing", str(e))
            except RecursionError:
                R.bad(rule_name, c, "-", "engine", "term evaluation did not converge (recursion limit): undetermined")
            except Exception as e:  # a crashing rule must not pass silently
                R.bad(rule_name, c, "-", "engine", "rule crashed: %s: %s" % (type(e).__name__, e))
                rule_errors.append(traceback.format_exc())
    canary_info = {"status": "none"}
    try:
        import canary
        canary_info = canary.run(args.repo, prop, R)
    except Exception as e:
        R.bad("CANARY", "-", "-", "engine", "canary crashed: %s: %s" % (type(e).__name__, e))
        rule_errors.append(traceback.format_exc())
    witness_out = None
    if tier == "thorough":
        try:
            import witness
            witness_out = witness.run(args.repo, R, prop)
        except Exception as e:
            R.bad("W-WITNESS", "-", "-", "engine", "witness run crashed: %s: %s" % (type(e).__name__, e))
            rule_errors.append(traceback.format_exc())
    corpus_rows = []
    if tier == "thorough":
        try:
            import mutants
            corpus_rows = mutants.corpus(prop, args.repo)
            for name, pid, kind, verdict, detail in corpus_rows:
                print("  E6 %-30s %-7s %-11s %s" % (name, kind, verdict, detail[-110:]))
        except Exception as e:
            rule_errors.append(traceback.format_exc())
    if tier == "thorough" and spec.get("thorough"):
        for name, fn in spec["thorough"]:
            try:
                fn(args.repo, facts, R, seed)
            except Exception as e:
                R.bad(name, "-", "-", "engine", "thorough step crashed: %s: %s" % (type(e).__name__, e))
                rule_errors.append(traceback.format_exc())
    R.finish_floors()

    if args.replay:
        with open(args.replay) as f:
            rp = json.load(f)
        want = set(v["key"] for v in rp.get("violations", []))
        still = [i for i in R.instances if i["key"] in want and not i["ok"]]
        for i in still:
            print("REPLAY still violated: %s — %s (%s)" % (i["key"], i["msg"], i["loc"]))
        if not still:
            print("REPLAY: none of the %d recorded violations reproduces on the current tree" % len(want))
        return 1 if still else 0

    known = load_known()
    known_keys = {k["key"]: k for k in known if k.get("status") == "known" and k.get("property") == prop}
    viol = []
    known_hit = []
    for i in R.violations():
        if i["key"] in known_keys:
            known_hit.append(i)
        else:
            viol.append(i)
    for i in known_hit:
        print("KNOWN-FINDING: property=%s %s" % (prop, known_keys[i["key"]].get("what", i["key"])))

    n_inst = len(R.instances)
    n_ok = sum(1 for i in R.instances if i["ok"])
    if not args.quiet:
        print("vpcheck %s tier=%s configs=%s: %d rule instances evaluated, %d hold, %d violated (%d known)" % (
            prop, tier, ",".join(configs), n_inst, n_ok, len(viol) + len(known_hit), len(known_hit)))
        byrule = {}
        for i in R.instances:
            byrule.setdefault((i["rule"], i["config"]), []).append(i)
        for (rule, c), ins in sorted(byrule.items()):
            print("  %-26s %-9s %3d instance(s), %d ok" % (rule, c, len(ins), sum(1 for x in ins if x["ok"])))
        for e in rule_errors:
            sys.stderr.write(e)
    replay_path = None
    if viol:
        os.makedirs(os.path.join(VERIF, "replay"), exist_ok=True)
        replay_path = os.path.join(VERIF, "replay", "%s.json" % prop)
        with open(replay_path, "w") as f:
            json.dump({"property": prop, "tier": tier, "violations": viol}, f, indent=1, default=str)
        for i in viol:
            print("  VIOLATED %s\n      at %s: %s" % (i["key"], i["loc"], i["msg"]))
        print("VIOLATION property=%s replay=%s" % (prop, replay_path))
    else:
        # a replay file describes the violations of the latest run only: none now, none kept
        stale = os.path.join(VERIF, "replay", "%s.json" % prop)
        if os.path.exists(stale):
            os.remove(stale)

    if not args.no_evidence:
        write_evidence(prop, tier, seed, spec, configs, facts, xinfo, R, viol, known_hit, time.time() - t0,
                       canary_info, corpus_rows)
    return 1 if viol else 0


def write_evidence(prop, tier, seed, spec, configs, facts, xinfo, R, viol, known_hit, wall, canary_info=None, corpus_rows=()):
    os.makedirs(os.path.join(VERIF, "evidence"), exist_ok=True)
    keys = sorted(set(i["key"] for i in R.instances))
    samples = []
    seen_rules = set()
    for i in R.instances:
        if i["rule"] in seen_rules and len(samples) >= 12:
            continue
        seen_rules.add(i["rule"])
        samples.append({"instance": i["key"], "holds": i["ok"], "at": i["loc"], "finding": (i["msg"] or "")[:400]})
        if len(samples) >= 40:
            break
    per_rule = {}
    for i in R.instances:
        d = per_rule.setdefault(i["rule"], {"instances": 0, "hold": 0})
        d["instances"] += 1
        d["hold"] += 1 if i["ok"] else 0
    analysed = {}
    for c, F in facts.items():
        analysed[c] = {
            "bodies": len(F.bodies),
            "call_sites": sum(1 for b in F.bodies.values() for _ in b.calls()),
            "basic_blocks": sum(len(b.live_blocks()) for b in F.bodies.values()),
            "source_hash": xinfo[c].get("source_hash"),
            "facts_from_cache": xinfo[c].get("cached"),
        }
    ev = {
        "property_id": prop,
        "tier": tier,
        "seed": seed,
        "level": "other",
        "coverage": {
            "explanation": spec["explanation"],
            "obligations": len(R.instances),
            "discharged": sum(1 for i in R.instances if i["ok"]),
            "evaluations": len(R.instances),
            "distinct_nontrivial": len(keys),
            "rule": "one obligation per (rule, build configuration, function, instance); distinct = distinct instance keys; "
                    "an instance is non-trivial because it is a concrete construct of /repo matched by the rule (floors fail the check if a rule matches fewer constructs than were confirmed by hand)",
            "samples": samples,
            "rules": per_rule,
            "floors": {"%s/%s" % k: v[0] for k, v in R.floors.items()},
            "configs_analysed": analysed,
            "not_decided": spec.get("not_decided", []),
            "canary": canary_info,
            "seeded_corpus": [{"name": r[0], "kind": r[2], "verdict": r[3], "first_instance": r[4]} for r in corpus_rows],
            "checker_cmd": "bin/vpcheck %s --tier %s" % (prop, tier),
            "trusted_base": [
                "rustc nightly MIR construction and trait resolution (type-checked program)",
                "faithful printing by the E1 driver (/verif/driver)",
                "signature tables for nalgebra / levenberg-marquardt / rayon / distrs / std callees (DESIGN.md §3)",
                "SeparableNonlinearModel trait contract for user models",
            ],
            "exhaustive": True,
        },
        "assumptions": spec.get("assumptions", []) + [
            "static analysis of the source only: no execution of varpro, no solver; decides structural necessary conditions, not numerical behaviour",
        ],
        "wall_s": round(wall, 2),
        "violations": len(viol),
        "known_findings_reported": len(known_hit),
    }
    with open(os.path.join(VERIF, "evidence", "%s.json" % prop), "w") as f:
        json.dump(ev, f, indent=1, default=str)


if __name__ == "__main__":
    from terms import run_with_big_stack
    sys.exit(run_with_big_stack(main))
