"""R-SVD-FINITE (C08 clause 1): every SVD is taken of a matrix that was checked to be
finite after its last arithmetic (nalgebra 0.33's SVD panics or never returns on NaN/inf)."""
from core import *

SVD_NAMES = {"svd", "svd_unordered", "try_svd", "try_svd_unordered", "pseudo_inverse", "singular_values", "rank"}
SVD_CTORS = {"new", "new_unordered", "try_new", "try_new_unordered"}


def is_svd_site(t):
    if t["k"] != "call" or "fn" not in t:
        return False
    f = t["fn"]
    if f.get("krate") != "nalgebra":
        return False
    cid = callee_id(f)
    if f["name"] in SVD_NAMES and ("decomposition" in cid or "nalgebra::Matrix" in cid or "linalg" in cid):
        return True
    if f["name"] in SVD_CTORS and ("SVD" in f["path"]):
        return True
    return False


# the decomposition entry points that take a convergence tolerance and an iteration limit (…, eps, max_niter)
SVD_TUNABLE = {"try_svd", "try_svd_unordered", "try_new", "try_new_unordered"}


def const_uint(t):
    if isinstance(t, tuple) and t and t[0] == "const":
        for x in t[1:]:
            if isinstance(x, int) and not isinstance(x, bool):
                return x
            if isinstance(x, str) and x.strip().split("_")[0].isdigit():
                return int(x.strip().split("_")[0])
    return None


def forall_finite_target(c):
    """('forall', iterator, cond, truth) that says every element of a matrix is finite -> matrix"""
    _, it, cond, truth = c
    neg = not truth
    while cond[0] == "un" and cond[1] == "Not":
        cond, neg = cond[2], not neg
    while it[0] in ("mutated",):
        it = it[1]
    if it[0] == "phi":
        alts = [x for x in it[1] if x[0] != "loopback"]
        it = alts[0] if alts else it
        while it[0] == "mutated":
            it = it[1]
    if it[0] == "call" and it[1].rsplit("::", 1)[-1] in ("iter", "into_iter", "iter_mut") and cond[0] == "call" and cond[1].endswith("::is_finite") and not neg:
        arg = cond[3][0]
        if arg[0] == "elem":
            return it[3][0]
    return None


def finite_pred_target(ev, P, negated=False):
    """if P is a recognised 'all elements finite' predicate return the matrix term it ranges
    over, else None"""
    while P[0] == "un" and P[1] == "Not":
        P = P[2]
        negated = not negated
    if P[0] != "call":
        return None
    cid = P[1]
    if cid == "std::iter::Iterator::all" and not negated:
        want_inner_neg = False
    elif cid == "std::iter::Iterator::any" and negated:
        want_inner_neg = True
    else:
        return None
    it, clo = P[3][0], P[3][1]
    while it[0] == "mutated":
        it = it[1]
    if it[0] != "call" or not (it[1].endswith("::iter") or it[1].endswith("::into_iter") or it[1].endswith("::iter_mut")):
        return None
    X = it[3][0]
    if clo[0] not in ("closure", "fnref"):
        return None
    sym = ("elem", ("itersym",))
    body = ev.facts.bodies.get(clo[1]) if clo[0] == "closure" else None
    if body is None and clo[0] == "closure":
        return None
    saved = ev.ctx
    ev.fresh_ctx()
    r = ev.apply(clo, [sym], ("finite-pred", 0, 0), Env(body) if body is not None else Env(next(iter(ev.facts.bodies.values()))))
    ev.ctx = saved
    neg = False
    while r[0] == "un" and r[1] == "Not":
        r = r[2]
        neg = not neg
    if r[0] == "call" and r[1].endswith("::is_finite") and r[3] and r[3][0] == sym and neg == want_inner_neg:
        return X
    return None


def rule_svd_finite(F, ev_unused, R, config, rule="R-SVD-FINITE"):
    # every decomposition site is analysed where it stands (its own function, or the function owning its closure);
    # guards established by helpers it calls arrive as interprocedural success conditions (Guards.relations_at)
    sites = []
    merged_roots = {}
    for b in F.bodies.values():
        for bi, t in b.calls():
            if is_svd_site(t):
                sites.append((b, bi, t))
    if not sites:
        return 0
    ev = Eval(F, opaque=[k for k in F.bodies if "as std::ops::Mul" in k])
    roots = {}
    for b, bi, t in sites:
        rk = b.j.get("root", b.key)
        roots.setdefault(rk, []).append((b, bi, t))
    for rk, ss in sorted(roots.items()):
        root = merged_roots.get(rk) or F.bodies[rk]
        env = Env(root)
        for bi, t in root.calls():
            ev.call_val(env, bi)
        g = Guards(ev, root, env)
        for b, bi, t in ss:
            fl = ""
            im = root.j.get("impl", {})
            if im.get("self_adt") == ADT_PROBLEM:
                fl = "@" + flavour_of(im["self_ty"])
            inst = "svd-of-finite" + fl
            recs = list(zip(ev.site_terms.get((b.key, bi), []), ev.site_conds.get((b.key, bi), [])))
            if b is root:
                # direct site: argument term + dominating conditions
                arg = ev.operand(env, t["args"][0], (bi, None))
                conds = set()
                rels, raw = g.relations_at(bi)
                for term, truth, sw in raw:
                    if isinstance(truth, bool):
                        conds.add(("pred", term if truth else ("un", "Not", term)))
                    elif truth == "forall":
                        conds.add(term)    # loop summary established inside a helper whose success is tested here
                for fa in foralls_at(g, bi):
                    conds.add(fa)
                allargs = tuple(ev.operand(env, a_, (bi, None)) for a_ in t["args"])
                recs = [(("call", "", None, allargs, None), frozenset(conds))]
            if not recs:
                R.bad(rule, config, b.key, inst,
                      "SVD call site is not reached through a modelled adapter: cannot establish that its argument was checked (undetermined)",
                      t.get("span"))
                continue
            if t["fn"]["name"] in SVD_TUNABLE:
                # termination: nalgebra iterates until the off-diagonal falls below eps·scale, at most max_niter times
                # (0 = no limit). `svd`/`SVD::new` use the library's own tolerance; a site that passes its own must
                # not let a caller-controlled value (the truncation epsilon, say: 0 is a legal value there) decide
                # convergence without an iteration limit
                for ct, _c in recs:
                    eps, lim = ct[3][-2], ct[3][-1]
                    n = const_uint(lim)
                    okb = (n is not None and n > 0) or ((n == 0 or n is None) and not input_dependent(eps))   # a computed limit is at worst `0 = none`
                    R.add(rule, config, b.key, "svd-iteration-bounded" + fl, okb,
                          "iteration limit %s, tolerance %s" % (short(lim)[:40], short(eps)[:60]) if okb else
                          "the decomposition is run with tolerance `%s` and iteration limit `%s`: an input-dependent tolerance (0 or NaN are "
                          "possible) without a positive constant limit means the QR iteration need not terminate" % (short(eps)[:100], short(lim)[:40]),
                          t.get("span"))
            for ct, conds in recs:
                arg = ct[3][0]
                ok = False
                for c in conds:
                    X = None
                    if c[0] == "pred":
                        X = finite_pred_target(ev, c[1])
                    elif c[0] == "forall":
                        X = forall_finite_target(c)
                    if X is not None and X == arg:
                        ok = True
                R.add(rule, config, b.key, inst, ok,
                      "argument %s checked finite before decomposition" % short(arg)[:120] if ok else
                      ("SVD of `%s` without a preceding all-elements-finite check of that same matrix: nalgebra's SVD "
                       "panics (\"Singular value was NaN\") or does not terminate on NaN/±inf input" % short(arg)[:160]),
                      t.get("span"))
    return len(sites)
