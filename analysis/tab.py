"""Canonical element access ("tabulation") — form-independent view of how containers are read and filled.

Rust code fills and reads vectors/matrices in many equivalent ways:

    for i in 0..n { v[i] = f(J.row(i)) }                     index loop
    v.iter_mut().zip(J.row_iter()).for_each(|(s, r)| *s = f(r))   lock-step iterators, closure form
    for (s, r) in v.iter_mut().zip(J.row_iter()) { *s = f(r) }   lock-step iterators, loop form
    OVector::from_fn(n, |i, _| f(J.row(i)))                   generator
    src.map(|x| g(x))                                         element-wise map

`Canon` rewrites the terms produced by terms.Eval / effects.iteration_effects so that all of these
say the same thing: every iteration gets an index variable ('iv', k) (k numbered by first use; one per
loop / driven closure, so nested loops over equal ranges stay distinct), and

    elem(Range{a,b})            ->  a + iv            (iv if a = 0)
    elem(iter(V)), iter_mut(V)  ->  ('at', V, iv)
    elem(enumerate(X))          ->  (iv, nth(X))
    elem(zip(A, B))             ->  (nth(A), nth(B))
    elem(skip(X, s))            ->  nth(X) at iv + s
    elem(row_iter(M))           ->  ('row', M, iv)         column_iter(_mut) -> ('col', M, iv)
    elem(map(X, f))             ->  f(nth(X))
    M[(i, j)], M[i], *M.index_mut(..)   ->  ('at', M, i[, j])
    M.row(i), M.column(k), M.column_mut(k)  ->  ('row', M, i) / ('col', M, k)

The extent (number of iterations) of every iv is recorded (`extent[k]`), built from the same rules
(min for zip/take). Nothing is executed; this is a normal form on terms."""
from core import *
from effects import base_iter, iteration_effects
from rules_stats2 import base_alloc, dimval

ITER_PLAIN = ("iter", "iter_mut", "into_iter", "par_iter", "par_iter_mut", "into_par_iter")
COL_ITERS = ("column_iter", "column_iter_mut", "par_column_iter", "par_column_iter_mut")
ROW_ITERS = ("row_iter", "row_iter_mut")
PASS = ("cloned", "copied", "by_ref", "into_iter", "peekable", "fuse", "take")


def last(cid):
    return cid.rsplit("::", 1)[-1]


def strip_mut(t):
    while t[0] in ("mutated", "drv"):
        t = t[1]
    return t


class Canon:
    def __init__(self, ev):
        self.ev = ev
        self.keys = {}      # iteration identity -> iv number
        self.extent = {}    # iv number -> extent term (number of iterations), or None
        self.itof = {}      # iv number -> normalised driving iterator
        self.memo = {}

    # ---- iteration identity ------------------------------------------------------------
    def loop_key(self, IT):
        """identity of the iteration an `elem(IT)` term belongs to + the underlying iterator"""
        key = None
        t = IT
        while t[0] in ("mutated", "drv", "phi"):
            if t[0] == "mutated":
                if key is None:
                    key = ("loop", t[2])
                t = t[1]
            elif t[0] == "drv":
                if key is None:
                    key = ("drv", t[2])
                t = t[1]
            else:
                alts = [a for a in t[1] if a[0] != "loopback" and base_iter(a)[0] != "loopback"]
                if len(alts) != 1:
                    break
                t = alts[0]
        it = base_iter(t)
        if key is None:
            key = ("it", self._nosite(it))
        return key, it

    def _nosite(self, t):
        from rules_panic import nosite
        return nosite(t)

    def iv_for(self, key, it):
        if key not in self.keys:
            n = len(self.keys)
            self.keys[key] = n
            self.itof[n] = it
            self.extent[n] = self.extent_of(it)
        return ("iv", self.keys[key])

    # ---- n-th element / number of elements of an iterator -------------------------------
    def storage_source(self, it):
        """`m.data.into()` / `Vec::from(m.data)` — the owned storage of a nalgebra matrix handed on as a Vec: the
        elements of m in column-major order"""
        it0 = strip_mut(it)
        if it0[0] == "call" and len(it0) == 5 and last(it0[1]) in ("into", "from", "into_iter") and len(it0[3]) == 1:
            a = strip_mut(it0[3][0])
            if last(it0[1]) == "into_iter":
                return self.storage_source(a)
            if a[0] == "field" and a[2] == "data":
                return a[1]
        return None

    def nth(self, it, i):
        src_ = self.storage_source(it)
        if src_ is not None:
            return self.mk_at(self.container(src_), (i,))
        it = base_iter(it)
        if it[0] == "agg" and it[1].endswith("ops::Range"):
            d = dict(it[3])
            st = self.canon(d.get("start"))
            if st == ("const", "usize", 0):
                return i
            return ("bin", "Add", st, i)
        if it[0] == "call" and it[3]:
            n = last(it[1])
            a0 = it[3][0]
            if n in ITER_PLAIN:
                src = base_iter(a0)
                if src[0] == "call" and last(src[1]) in ("enumerate", "zip", "skip", "map", "take") + ITER_PLAIN + COL_ITERS + ROW_ITERS or \
                        (src[0] == "agg" and src[1].endswith("ops::Range")):
                    return self.nth(src, i)
                return self.mk_at(self.container(a0), (i,))
            if n == "enumerate":
                return ("tuple", (i, self.nth(a0, i)))
            if n == "zip" and len(it[3]) == 2:
                return ("tuple", (self.nth(a0, i), self.nth(it[3][1], i)))
            if n == "skip" and len(it[3]) == 2:
                return self.nth(a0, ("bin", "Add", i, self.canon(it[3][1])))
            if n in PASS:
                return self.nth(a0, i)
            if n in COL_ITERS:
                return ("col", self.container(a0), i)
            if n in ROW_ITERS:
                return ("row", self.container(a0), i)
            if n in ("filter", "skip_while", "take_while", "inspect") and len(it[3]) == 2:
                # a sub-sequence: the element is still the source's element at SOME source index (the iv then counts
                # source positions; its extent is unknown, so coverage claims fail as they must)
                return self.nth(a0, i)
            if n == "filter_map" and len(it[3]) == 2 and it[3][1][0] in ("closure", "fnref"):
                cb = self.ev.facts.bodies.get(it[3][1][1] if it[3][1][0] == "closure" else it[3][1][2])
                if cb is not None:
                    x = self.nth(a0, i)
                    r = self.ev.apply(it[3][1], [x], ("tab-nth", 0, ()), Env(cb))
                    o = self.ev.as_opt(r) if r[0] != "none" else None
                    if o is not None:
                        return self.canon(o[1])
            if n == "map" and len(it[3]) == 2 and it[3][1][0] in ("closure", "fnref"):
                cb = self.ev.facts.bodies.get(it[3][1][1] if it[3][1][0] == "closure" else it[3][1][2])
                if cb is not None:
                    x = self.nth(a0, i)
                    return self.canon(self.ev.apply(it[3][1], [x], ("tab-nth", 0, ()), Env(cb)))
        return ("nth", self.canon(it), i)

    def extent_of(self, it):
        src_ = self.storage_source(it)
        if src_ is not None:
            return self.norm_extent(("len", self.container(src_)))
        it = base_iter(it)
        if it[0] == "agg" and it[1].endswith("ops::Range"):
            d = dict(it[3])
            st, en = self.canon(d.get("start")), self.canon(d.get("end"))
            if st == ("const", "usize", 0):
                return self.norm_extent(en)
            return ("bin", "Sub", self.norm_extent(en), self.norm_extent(st))
        if it[0] == "call" and it[3]:
            n = last(it[1])
            a0 = it[3][0]
            if n in ITER_PLAIN:
                src = base_iter(a0)
                if src[0] == "call" and last(src[1]) in ("enumerate", "zip", "skip", "map", "take") + ITER_PLAIN + COL_ITERS + ROW_ITERS or \
                        (src[0] == "agg" and src[1].endswith("ops::Range")):
                    return self.extent_of(src)
                return self.norm_extent(("len", self.container(a0)))
            if n in ("enumerate", "map", "cloned", "copied", "by_ref", "peekable", "fuse", "inspect"):
                return self.extent_of(a0)
            if n == "zip" and len(it[3]) == 2:
                return self.mk_min(self.extent_of(a0), self.extent_of(it[3][1]))
            if n == "take" and len(it[3]) == 2:
                return self.mk_min(self.extent_of(a0), self.norm_extent(self.canon(it[3][1])))
            if n == "skip" and len(it[3]) == 2:
                e = self.extent_of(a0)
                return None if e is None else ("bin", "Sub", e, self.norm_extent(self.canon(it[3][1])))
            if n in COL_ITERS:
                return self.norm_extent(("ncols", self.container(a0)))
            if n in ROW_ITERS:
                return self.norm_extent(("nrows", self.container(a0)))
        return None

    def mk_min(self, a, b):
        if a is None or b is None:
            return None
        if a == b:
            return a
        xs = []
        for x in (a, b):
            xs.extend(x[1] if x[0] == "min" else [x])
        out = []
        for x in xs:
            if x not in out:
                out.append(x)
        return ("min", tuple(sorted(out, key=repr)))

    def norm_extent(self, t):
        """len/nrows/ncols of a freshly allocated container are its allocation dimensions"""
        if t is None:
            return None
        t = dimval(t)
        if t[0] == "call" and last(t[1]) in ("nrows", "ncols", "len") and t[3]:
            t = (last(t[1]), self.container(t[3][0]))
        if t[0] == "call" and last(t[1]) in ("min",) and len(t[3]) == 2:
            return self.mk_min(self.norm_extent(self.canon(t[3][0])), self.norm_extent(self.canon(t[3][1])))
        if t[0] == "bin" and t[1] in ("Add", "Sub", "Mul") and len(t) == 4:
            a, b = self.norm_extent(t[2]), self.norm_extent(t[3])
            if a is not None and b is not None and a[0] != "min" and b[0] != "min":
                return ("bin", t[1], a, b)
            return t
        if t[0] == "min":
            return ("min", tuple(sorted(set(self.norm_extent(x) for x in t[1]), key=repr))) if len(t[1]) > 1 else t
        if t[0] in ("nrows", "ncols", "len"):
            c = t[1]
            if c[0] == "col" and t[0] in ("nrows", "len"):
                # a column has the rows of its matrix
                return self.norm_extent(("nrows", c[1]))
            dims = alloc_dims(c)
            if dims is not None:
                r, cc = dims
                if t[0] == "nrows":
                    return self.norm_extent(r)
                if t[0] == "ncols" and cc is not None:
                    return self.norm_extent(cc)
                if t[0] == "len":
                    if cc is None or cc == ("const", "usize", 1) or (cc[0] == "constitem" and cc[1].endswith("U1")):
                        return self.norm_extent(r)
            c0 = strip_mut(c)
            if t[0] == "len" and c0[0] == "call" and len(c0) == 5 and last(c0[1]) in ("collect", "from_iter", "collect_vec") and c0[3]:
                e = self.extent_of(c0[3][-1])
                if e is not None:
                    return e
            if t[0] == "len" and self.is_column_vector(c):
                return ("nrows", c)     # one name for the length of a column vector
            return (t[0], c)
        return t

    def is_column_vector(self, c):
        """the container is statically a column vector (type `Matrix<_, R, Const<1>, _>`): params and fields
        of the analysed type, resolved through the fact tables"""
        F = self.ev.facts
        ty = None
        if c[0] == "param" and c[1] in F.bodies:
            ls = F.bodies[c[1]].locals
            if c[2] < len(ls):
                ty = ls[c[2]].get("ty")
        elif c[0] == "field" and c[1][0] == "param" and c[1][1] in F.bodies:
            b = F.bodies[c[1][1]]
            root = F.bodies.get(b.j.get("root", b.key), b)
            sa = root.j.get("impl", {}).get("self_adt")
            if sa in F.adts and c[1][2] == 1:
                for f in F.adts[sa]["variants"][0]["fields"]:
                    if f["name"] == c[2]:
                        ty = f["ty"]
        if c[0] == "col" or (c[0] == "call" and len(c) == 5 and "nalgebra" in c[1] and last(c[1]) in ("diagonal", "column", "column_mean", "column_sum")):
            return True
        dims = alloc_dims(c)
        if dims is not None:
            cc = dims[1]
            return cc is None or cc == ("const", "usize", 1) or (cc[0] == "constitem" and cc[1].endswith("U1"))
        if ty is None:
            return False
        i = ty.find("nalgebra::Matrix<")
        if i < 0:
            return False
        # third generic argument
        depth, parts, cur = 0, [], ""
        for ch in ty[i + len("nalgebra::Matrix<"):]:
            if ch == "<":
                depth += 1
            elif ch == ">":
                if depth == 0:
                    break
                depth -= 1
            if ch == "," and depth == 0:
                parts.append(cur.strip())
                cur = ""
            else:
                cur += ch
        parts.append(cur.strip())
        return len(parts) >= 3 and parts[2] in ("nalgebra::Const<1>", "nalgebra::U1")

    # ---- containers -----------------------------------------------------------------------
    def container(self, t):
        """the container a view/iterator ranges over: in-place mutation wrappers are dropped"""
        t = base_alloc(strip_mut(t))
        while t[0] == "call" and last(t[1]) in ("assume_init", "as_view", "as_view_mut", "as_slice", "as_mut_slice", "as_mut", "as_ref") and t[3]:
            t = base_alloc(strip_mut(t[3][0]))
        return self.canon(t)

    def mk_at(self, M, idx):
        """element M[idx…] with reads of generated / derived containers resolved:
             from_fn(dims, f)[i, j] = f(i, j)      diagonal(X)[i] = X[i, i]      v[i, 0] = v[i] for column vectors"""
        idx = tuple(idx)
        M0 = strip_mut(M)
        if M0[0] == "call" and len(M0) == 5:
            n = last(M0[1])
            if n in ("from_fn", "from_fn_generic") and "nalgebra" in M0[1] and M0[3] and M0[3][-1][0] == "closure":
                clo = M0[3][-1]
                cb = self.ev.facts.bodies.get(clo[1])
                if cb is not None:
                    ij = list(idx) + [("const", "usize", 0)] * (2 - len(idx))
                    return self.canon(self.ev.apply(clo, ij[:2], ("tab-at", 0, ()), Env(cb)))
            if n in ("collect", "from_iter", "from_iterator", "collect_vec") and M0[3] and len(idx) == 1:
                # a collection built from an iterator: element i is the iterator's i-th element
                return self.nth(M0[3][-1], idx[0])
            if n in ("rows_generic", "rows", "fixed_rows") and "nalgebra" in M0[1] and len(M0[3]) >= 2:
                # a view of consecutive rows starting at `start`
                start = self.canon(dimval(M0[3][1]))
                i0 = idx[0] if start == ("const", "usize", 0) else ("bin", "Add", idx[0], start)
                return self.mk_at(self.container(M0[3][0]), (i0,) + tuple(idx[1:]))
            if n == "diagonal" and "nalgebra" in M0[1] and M0[3]:
                i = idx[0]
                return self.mk_at(self.container(M0[3][0]), (i, i))
            if n == "transpose" and "nalgebra" in M0[1] and M0[3] and len(idx) == 2:
                return self.mk_at(self.container(M0[3][0]), (idx[1], idx[0]))
        if len(idx) == 2 and idx[1] == ("const", "usize", 0) and self.is_column_vector(M0):
            idx = idx[:1]
        return ("at", M) + idx

    # ---- terms ------------------------------------------------------------------------------
    def canon(self, t):
        if not isinstance(t, tuple) or not t:
            return t
        k = id(t)
        hit = self.memo.get(k)
        if hit is not None and hit[0] is t:
            return hit[1]
        r = self._canon(t)
        self.memo[k] = (t, r)
        return r

    def _canon(self, t):
        tag = t[0]
        if tag == "elem" and len(t) == 2:
            key, it = self.loop_key(t[1])
            return self.nth(it, self.iv_for(key, it))
        if tag == "field" and t[2] in ("0", "1", "2"):
            x = self.canon(t[1])
            if x[0] == "tuple":
                try:
                    return x[1][int(t[2])]
                except Exception:
                    pass
            return ("field", x, t[2])
        if tag == "index":
            return self.mk_at(self.container(t[1]), (self.canon(t[2]),))
        if tag == "call" and len(t) == 5:
            cid, n = t[1], last(t[1])
            args = t[3]
            if n in ("index", "index_mut") and len(args) == 2 and ("ops::Index" in cid or "ops::IndexMut" in cid or "Matrix::index" in cid):
                ix = self.canon(args[1])
                M = self.container(args[0])
                if ix[0] == "tuple":
                    return self.mk_at(M, ix[1])
                return self.mk_at(M, (ix,))
            if n in ("column", "column_mut") and len(args) == 2:
                return ("col", self.container(args[0]), self.canon(args[1]))
            if n in ("row", "row_mut") and len(args) == 2:
                return ("row", self.container(args[0]), self.canon(args[1]))
            if n in ("get_unchecked", "get_unchecked_mut") and len(args) == 2:
                return self.mk_at(self.container(args[0]), (self.canon(args[1]),))
            return ("call", cid, t[2], tuple(self.canon(a) for a in args), None)
        if tag == "mutated":
            return ("mutated", self.canon(t[1]), t[2], t[3])
        if tag in ("const", "param", "constitem", "constparam", "fnref", "closure", "none", "loopback", "unreachable", "iv"):
            if tag == "closure":
                return ("closure", t[1], tuple((f, self.canon(v)) for f, v in t[2]))
            return t
        if tag in ("opt",):
            return ("opt", self.canon(t[1]), frozenset(self.canon(c) for c in t[2]))
        return tuple(self.canon(x) if isinstance(x, tuple) else x for x in t)


def alloc_dims(c):
    """(rows, cols|None) of a freshly allocated nalgebra container term, else None"""
    c = strip_mut(c)
    while c[0] == "call" and last(c[1]) in ("assume_init",) and c[3]:
        c = strip_mut(c[3][0])
    if c[0] == "call" and "nalgebra" in c[1] and last(c[1]) in (
            "zeros", "zeros_generic", "uninit", "from_element", "from_element_generic", "repeat", "repeat_generic",
            "from_fn", "from_fn_generic", "identity", "identity_generic", "new_uninit_generic"):
        a = [x for x in c[3] if x[0] != "closure" and x[0] != "fnref"]
        if last(c[1]) in ("from_element", "from_element_generic", "repeat", "repeat_generic"):
            a = a[:-1]
        if len(a) == 1:
            return (dimval(a[0]), None)
        if len(a) >= 2:
            return (dimval(a[0]), dimval(a[1]))
    return None


class Write:
    __slots__ = ("D", "idx", "val", "eff", "kind")

    def __init__(self, D, idx, val, eff, kind):
        self.D, self.idx, self.val, self.eff, self.kind = D, idx, val, eff, kind


def element_writes(cn, effs):
    """[Write] for stores through element pointers (`*p = v`, `M[(i,j)] = v`) — D canonical container,
    idx tuple of canonical index terms; kind 'elem'. Stores whose pointer is not an element of a
    container have D = None (callers treat them as unrecognised)."""
    out = []
    for e in effs:
        if e.kind != "store":
            continue
        ptr, val = e.raw
        p = cn.canon(ptr)
        v = cn.canon(val)
        if p[0] == "at":
            out.append(Write(p[1], tuple(p[2:]), v, e, "elem"))
        else:
            out.append(Write(None, (p,), v, e, "elem"))
    return out


def pair_of(t):
    """the two components of a (rows, cols) pair: a tuple, or `m.shape_generic()` / `m.shape()`"""
    if t[0] == "tuple" and len(t[1]) == 2:
        return (t[1][0], t[1][1])
    if t[0] == "call" and len(t) == 5 and t[3] and last(t[1]) in ("shape_generic", "shape") and "nalgebra" in t[1]:
        return (("call", "nalgebra::Matrix::nrows", None, (t[3][0],), None), ("call", "nalgebra::Matrix::ncols", None, (t[3][0],), None))
    return None


def column_writes(cn, effs):
    """[Write] kind 'col': whole-column writes `col.copy_from(v)`, `M.set_column(k, v)`; idx = (k,)"""
    out = []
    for e in effs:
        if e.kind != "call":
            continue
        n = e.name
        if n in ("copy_from", "copy_from_slice", "tr_copy_from") and len(e.raw) >= 2:
            r = cn.canon(e.raw[0])
            if r[0] == "col":
                out.append(Write(r[1], (r[2],), cn.canon(e.raw[1]), e, "col"))
        elif n == "set_column" and len(e.raw) >= 3:
            out.append(Write(cn.container(e.raw[0]), (cn.canon(e.raw[1]),), cn.canon(e.raw[2]), e, "col"))
        if n in ("copy_from", "tr_copy_from") and len(e.raw) >= 2 and n == "copy_from":
            # block copy `D.generic_view_mut((0, c0), (nr, nc)).copy_from(&SRC)` / `D.columns_mut(c0, nc).copy_from(&SRC)`:
            # for every k below nc, column k + c0 of D receives column k of SRC — provided the block spans all rows
            # of D (otherwise rows stay as allocated, which a per-column copy would have refused with a panic)
            v0 = strip_mut(e.raw[0])
            if v0[0] != "call" or len(v0) != 5 or "nalgebra" not in v0[1]:
                continue
            vn = last(v0[1])
            zero = ("const", "usize", 0)
            blk = None
            if vn in ("generic_view_mut", "view_mut") and len(v0[3]) == 3 and pair_of(v0[3][1]) and pair_of(v0[3][2]):
                blk = (v0[3][0],) + pair_of(v0[3][1]) + pair_of(v0[3][2])
            elif vn in ("columns_mut", "columns_generic_mut") and len(v0[3]) == 3:
                blk = (v0[3][0], zero, v0[3][1], None, v0[3][2])
            if blk is None:
                continue
            D = cn.container(blk[0])
            r0, c0 = cn.canon(dimval(blk[1])), cn.canon(dimval(blk[2]))
            nc = dimval(blk[4])
            SRC = cn.container(e.raw[1])
            if r0 != zero:
                continue
            if blk[3] is not None:
                nr = cn.norm_extent(cn.canon(dimval(blk[3])))
                dr = cn.norm_extent(("nrows", D))
                if not (nr == dr or ilin_eq(nr, dr)):
                    # the block's row count must be D's (copy_from itself makes it SRC's, or panics)
                    g = Guards(cn.ev, e.body, e.env)
                    rels = [(r[0], cn.norm_extent(cn.canon(r[1])), cn.norm_extent(cn.canon(r[2]))) for r in g.relations_at(e.block)[0] if r[0] in ("Le", "Lt", "Eq")]
                    if not provably_eq(nr, dr, rels):
                        continue
            iv = cn.iv_for(("gen", cn._nosite(v0), 1), ("agg", "std::ops::Range", None, (("start", zero), ("end", nc))))
            k = iv if c0 == zero else ("bin", "Add", iv, c0)
            out.append(Write(D, (cn.canon(k),), ("col", SRC, iv), e, "col"))
    return out


def elementwise_column_writes(cn, effs):
    """[Write] kind 'colelems': a column `col(A, k)` written element by element — a store into element i of the column
    with i the counter of an iteration (loop or driven closure). idx = (k,), val = ("elems", value, i, n, blk) with n the
    length of the inlining chain down to the body that holds the element iteration and blk the block of its driver
    (the call of for_each / the loop's next()). Whether the element iteration covers the column is decided by
    `elements_cover_column`."""
    out = []
    for w in element_writes(cn, effs):
        if w.D is None or w.D[0] != "col" or len(w.idx) != 1 or w.idx[0][0] != "iv":
            continue
        key = [k for k, n in cn.keys.items() if n == w.idx[0][1]]
        if not key or key[0][0] != "drv":
            continue
        m = key[0][1]
        if m and m[0] == "next":
            _, bkey, blk, path = m
        else:
            _, bkey, blk, path = m
        chain = chain_of(w.eff, cn.ev.facts)
        if chain is None or len(chain) <= len(path) or chain[len(path)][0].key != bkey:
            continue
        out.append(Write(w.D[1], (w.D[2],), ("elems", w.val, w.idx[0], len(path) + 1, blk), w.eff, "colelems"))
    return out


def elements_cover_column(cn, w):
    """(ok, reason) for a 'colelems' write: the element iteration visits every row of the column (its extent is the
    row count of the container, lock-step partners being at least as long by the guards on the way), the store happens
    in every one of its rounds, and the iteration runs to completion (a driven for_each, or a loop left only when
    exhausted)"""
    inner = w.val[2]
    ew = Write(("col", w.D, w.idx[0]), (inner,), w.val[1], w.eff, "elem")
    if not extent_covers(cn, ew, inner, ("nrows", w.D)):
        return False, "the element-wise copy (`%s` rounds) may end before all rows of the column are written" % (short(cn.extent.get(inner[1]))[:80] if cn.extent.get(inner[1]) else "?")
    ok, why = written_each_iteration(cn, ew, inner)
    if not ok:
        return False, why
    key = [k for k, n in cn.keys.items() if n == inner[1]][0]
    m = key[1]
    chain = chain_of(w.eff, cn.ev.facts)
    if m and m[0] == "next":
        _, bkey, nblk, path = m
        body = chain[len(path)][0]
        loops = [(h_, bl) for h_, bl in body.natural_loops().items() if nblk in bl]
        if not loops:
            return False, "element loop not found"
        h, blks = min(loops, key=lambda x: len(x[1]))
        exh = None
        nt = body.blocks[nblk]["term"]
        for (sb, si, pk, variants) in body.discr_switches():
            if sb in blks and pk[0] == nt["dest"]["l"] and not pk[1]:
                exh, _ = variant_edge(body, sb, "None")
        if not exh:
            return False, "element loop exit not found (undetermined)"
        r2 = body.reachable(h, avoid_edges=set(exh))
        if any(x in r2 for x in body.exits()):
            return False, "the element loop can be left before all rows are written"
        return True, ""
    clo_key, bkey, cbi, path = m
    body = chain[len(path)][0]
    ct = body.blocks[cbi]["term"]
    nm = ct["fn"]["name"] if "fn" in ct else ""
    if nm != "for_each":
        return False, "the element-wise copy is driven by `%s`, not by for_each (undetermined)" % nm
    return True, ""


def generator_of(cn, t):
    """a container given by a generator instead of being filled:
         from_fn(dims.., f)        -> (dims, f(iv_r, iv_c))
         X.map(f)                  -> (dims of X, f(X[iv]))     [element-wise]
       returns (dims tuple, value term, ivs tuple) or None; fresh ivs are registered with their extents"""
    t0 = strip_mut(t)
    while t0[0] == "call" and len(t0) == 5 and last(t0[1]) in ("clone_owned", "into_owned", "clone", "to_owned") and t0[3]:
        t0 = strip_mut(t0[3][0])
    if t0[0] != "call":
        return None
    n = last(t0[1])
    ev = cn.ev
    if n in ("from_fn", "from_fn_generic") and "nalgebra" in t0[1]:
        clo = t0[3][-1]
        dims = [dimval(x) for x in t0[3][:-1]]
        if clo[0] != "closure" or not dims:
            return None
        ivs = []
        for k, d in enumerate((dims + [("const", "usize", 1)])[:2]):
            key = ("gen", cn._nosite(t0), k)
            iv = cn.iv_for(key, ("agg", "std::ops::Range", None, (("start", ("const", "usize", 0)), ("end", d))))
            ivs.append(iv)
        cb = ev.facts.bodies.get(clo[1])
        if cb is None:
            return None
        v = ev.apply(clo, ivs, ("tab-gen", 0, ()), Env(cb))
        return tuple(cn.norm_extent(cn.canon(d)) for d in dims), cn.canon(v), tuple(ivs)
    if n in ("from_iterator_generic", "from_iterator") and "nalgebra" in t0[1] and len(t0[3]) >= 2:
        # a vector built from an iterator (column-major fill): element k is the iterator's k-th element. Only the
        # single-column form is given a meaning here (`from_iterator_generic(n, U1, it)` / `DVector::from_iterator(n, it)`)
        it = t0[3][-1]
        dims = [dimval(x) for x in t0[3][:-1]]
        one = lambda d: d == ("const", "usize", 1) or (d[0] == "constitem" and d[1].endswith("U1"))
        if len(dims) == 1 or (len(dims) == 2 and one(dims[1])):
            key = ("gen", cn._nosite(t0), 0)
            iv = cn.iv_for(key, ("agg", "std::ops::Range", None, (("start", ("const", "usize", 0)), ("end", dims[0]))))
            ext = cn.extent_of(it)
            d0 = cn.norm_extent(cn.canon(dims[0]))
            # the iterator must deliver at least that many elements (nalgebra panics otherwise): its extent is the length
            if ext is not None and (ext == d0 or (ext[0] == "min" and d0 in ext[1])):
                return (d0,), cn.canon(cn.nth(it, iv)), (iv,)
        return None
    if n in ("rows_generic", "rows") and "nalgebra" in t0[1] and len(t0[3]) == 3:
        # an owned copy of a row range of a vector: element k is V[k + start], for k below the given length
        V = cn.container(t0[3][0])
        key = ("gen", cn._nosite(t0), 0)
        ln = dimval(t0[3][2])
        iv = cn.iv_for(key, ("agg", "std::ops::Range", None, (("start", ("const", "usize", 0)), ("end", ln))))
        start = cn.canon(dimval(t0[3][1]))
        i0 = iv if start == ("const", "usize", 0) else ("bin", "Add", iv, start)
        return (cn.norm_extent(cn.canon(ln)),), cn.mk_at(V, (i0,)), (iv,)
    if n in ("generic_view", "view") and "nalgebra" in t0[1] and len(t0[3]) == 3 and pair_of(t0[3][1]) and pair_of(t0[3][2]):
        # an owned copy of a rectangular view: element (i, j) is M[i + r0, j + c0] for i < nr, j < nc
        M = cn.container(t0[3][0])
        (r0, c0), (nr, nc) = [cn.canon(dimval(x)) for x in pair_of(t0[3][1])], [dimval(x) for x in pair_of(t0[3][2])]
        one = lambda d: d == ("const", "usize", 1) or (d[0] == "constitem" and d[1].endswith("U1"))
        zero = ("const", "usize", 0)
        ivr = cn.iv_for(("gen", cn._nosite(t0), 0), ("agg", "std::ops::Range", None, (("start", zero), ("end", nr))))
        ir = ivr if r0 == zero else ("bin", "Add", ivr, r0)
        if one(nc) and c0 == zero:
            return (cn.norm_extent(cn.canon(nr)),), cn.mk_at(M, (ir,)), (ivr,)
        ivc = cn.iv_for(("gen", cn._nosite(t0), 1), ("agg", "std::ops::Range", None, (("start", zero), ("end", nc))))
        ic = ivc if c0 == zero else ("bin", "Add", ivc, c0)
        return (cn.norm_extent(cn.canon(nr)), cn.norm_extent(cn.canon(nc))), cn.mk_at(M, (ir, ic)), (ivr, ivc)
    if n == "map" and "nalgebra" in t0[1] and len(t0[3]) == 2 and t0[3][1][0] == "closure":
        src = cn.container(t0[3][0])
        key = ("gen", cn._nosite(t0), 0)
        iv = cn.iv_for(key, ("call", "nalgebra::Matrix::iter", None, (t0[3][0],), None))
        cb = ev.facts.bodies.get(t0[3][1][1])
        if cb is None:
            return None
        v = ev.apply(t0[3][1], [("at", src, iv)], ("tab-gen", 0, ()), Env(cb))
        return (cn.norm_extent(("len", src)),), cn.canon(v), (iv,)
    return None


def executes_every_iteration(e):
    """the effect's block lies on every path through one iteration of its innermost loop (loop form)
    or on every normal path through its closure body (closure form)"""
    b = e.body
    wb = e.block
    loops = b.natural_loops()
    inner = [(h, blk) for h, blk in loops.items() if wb in blk]
    if inner:
        h, blk = min(inner, key=lambda x: len(x[1]))
        # entry of the loop body: the Some edge of the next() test (for loops) or the in-loop successor of the header's test
        entry = None
        for lb in sorted(blk):
            t = b.blocks[lb]["term"]
            if t["k"] == "call" and "fn" in t and callee_id(t["fn"]) == "std::iter::Iterator::next":
                for (sb, si, pk, variants) in b.discr_switches():
                    if sb in blk and pk[0] == t["dest"]["l"] and not pk[1]:
                        yes, no = variant_edge(b, sb, "Some")
                        if yes:
                            cand = yes[0][1]
                            if entry is None or len([x for x in b.reachable(cand, avoid=[h]) if x in blk]) < len([x for x in b.reachable(entry, avoid=[h]) if x in blk]):
                                entry = cand
        if entry is None:
            return False
        r = b.reachable(entry, avoid={wb})
        return h not in r and not any(x in r for x in b.exits())
    # closure / straight-line body: every path from entry to a return passes the block
    r = b.reachable(0, avoid={wb})
    return not any(x in r for x in b.exits())


# ----------------------------------------------------------------------------------------------
# integer (usize) linear forms: Sub(Add(L, P), L) = P, Add(i, 0) = i, …
# ----------------------------------------------------------------------------------------------
def ilin(t):
    """{atom: coeff} with key None for the constant; None if not linear"""
    t = dimval(t)
    if t[0] == "const" and isinstance(t[2], int):
        return {None: t[2]} if t[2] else {}
    if t[0] == "constitem" and t[1].endswith("U0"):
        return {}
    if t[0] == "constitem" and t[1].endswith("U1"):
        return {None: 1}
    if t[0] == "bin" and t[1] in ("Add", "Sub", "AddUnchecked", "SubUnchecked"):
        a, b = ilin(t[2]), ilin(t[3])
        if a is None or b is None:
            return None
        out = dict(a)
        sg = 1 if t[1].startswith("Add") else -1
        for k, v in b.items():
            out[k] = out.get(k, 0) + sg * v
            if out[k] == 0:
                del out[k]
        return out
    if t[0] == "call" and last(t[1]) in ("add", "sub") and len(t[3]) == 2 and ("ops::Add" in t[1] or "ops::Sub" in t[1] or "DimAdd" in t[1] or "DimSub" in t[1]):
        return ilin(("bin", "Add" if last(t[1]) == "add" else "Sub", t[3][0], t[3][1]))
    return {t: 1}


def ilin_eq(a, b):
    x, y = ilin(a), ilin(b)
    return x is not None and x == y


def tab_of(cn, effs, T):
    """how the container term T is filled: dict(dims=(…), val=term in ivs, ivs=(…), complete=bool, how=str)
    or (None, reason). Recognises generators and `allocate, then store every element in (nested) loops`."""
    g = generator_of(cn, T)
    if g is not None:
        return {"dims": g[0], "val": g[1], "ivs": g[2], "complete": True, "how": "generator", "write": None}, ""
    D = cn.container(T)
    ws = [w for w in element_writes(cn, effs) if w.D is not None and cn._nosite(w.D) == cn._nosite(D)]
    if len(ws) > 1:
        # successive stores to the same element in one iteration (`*s = q; *s = sqrt(*s)`): the last one wins —
        # its value already incorporates the earlier ones through use-def
        lastw = ws[-1]
        if all(x.idx == lastw.idx and x.eff.body is lastw.eff.body and
               (x.eff.block == lastw.eff.block or lastw.eff.body.dominates(x.eff.block, lastw.eff.block)) for x in ws[:-1]):
            ws = [lastw]
    if len(ws) != 1:
        return None, "the container is filled by %d element stores (expected one store executed for every element)" % len(ws)
    w = ws[0]
    dims = alloc_dims(D)
    if dims is None:
        return None, "not a freshly allocated container: `%s`" % short(D)[:80]
    dims = tuple(cn.norm_extent(d) for d in dims if d is not None and not (d[0] == "constitem" and d[1].endswith("U1")) and d != ("const", "usize", 1))
    if not all(i[0] == "iv" for i in w.idx) or len(set(w.idx)) != len(w.idx):
        return None, "element index `%s` is not a tuple of distinct loop indices" % ", ".join(short(i)[:40] for i in w.idx)
    complete = executes_every_iteration(w.eff) and len(w.idx) == len(dims)
    if complete:
        for i, d in zip(w.idx, dims):
            if not extent_covers(cn, w, i, d):
                complete = False
    return {"dims": dims, "val": w.val, "ivs": tuple(w.idx), "complete": complete, "how": "stores", "write": w}, ""


def ilin_sub(a, b):
    x, y = ilin(a), ilin(b)
    if x is None or y is None:
        return None
    out = dict(x)
    for k, v in y.items():
        out[k] = out.get(k, 0) - v
        if out[k] == 0:
            del out[k]
    return out


def _nonneg_forms(rels):
    out = []
    for rel, x, y in rels:
        f = ilin_sub(y, x)
        if f is None:
            continue
        if rel == "Le":
            out.append(f)
        elif rel == "Lt":
            g = dict(f)
            g[None] = g.get(None, 0) - 1
            if g[None] == 0:
                del g[None]
            out.append(g)
        elif rel == "Eq":
            out.append(f)
            out.append({k: -v for k, v in f.items()})
    return out


def _is_nonneg_const(d):
    """the linear form is non-negative: every coefficient is (its atoms are unsigned quantities — sizes, counters)"""
    return all(v >= 0 for v in d.values())


def _minus(d, f):
    out = dict(d)
    for k, v in f.items():
        out[k] = out.get(k, 0) - v
        if out[k] == 0:
            del out[k]
    return out


def provably_le(a, b, rels):
    """a <= b by linear arithmetic: b - a is a non-negative constant plus the sum of at most two
    quantities the given (Le|Lt|Eq, x, y) facts show to be non-negative"""
    d = ilin_sub(b, a)
    if d is None:
        return False
    if _is_nonneg_const(d):
        return True
    forms = _nonneg_forms(rels)
    for f1 in forms:
        d1 = _minus(d, f1)
        if _is_nonneg_const(d1):
            return True
    for i1, f1 in enumerate(forms):
        d1 = _minus(d, f1)
        for f2 in forms[i1:]:
            if _is_nonneg_const(_minus(d1, f2)):
                return True
    return False


def provably_eq(a, b, rels):
    return provably_le(a, b, rels) and provably_le(b, a, rels)


# ----------------------------------------------------------------------------------------------
# "written in every iteration": must-pass along the inlining chain of a write effect
# ----------------------------------------------------------------------------------------------
def success_returns(body):
    """blocks that build a success value (Ok/Some) for the return place — directly, or into a local that is moved into
    it (the spliced-in `_0` of an inlined callee, a `let result = Ok(..); result`); all exits if the function does not
    return a Result/Option built in place"""
    flows = {0}
    changed = True
    while changed:
        changed = False
        for bi, si, s in body.stmts():
            if s["k"] == "assign" and not s["place"]["proj"] and s["place"]["l"] in flows and s["rv"]["k"] == "use":
                o = s["rv"]["op"]
                if o["k"] in ("copy", "move") and not o["place"]["proj"] and o["place"]["l"] not in flows:
                    flows.add(o["place"]["l"])
                    changed = True
    oks = [bi for bi, si, s in body.stmts() if s["k"] == "assign" and s["place"]["l"] in flows and not s["place"]["proj"]
           and s["rv"]["k"] == "agg" and s["rv"].get("variant") in ("Ok", "Some", "Continue")]
    return oks or body.exits()


def chain_of(e, F):
    """[(body, block)] from the analysed root down to the effect: at every level the (possibly specialised)
    body in which the next call / the effect itself sits"""
    envs = []
    x = e.env
    while x is not None:
        envs.append(x)
        x = getattr(x, "parent", None)
    envs.reverse()
    if len(envs) != len(e.env.path) + 1:
        # not produced by iteration_effects: fall back to the unspecialised bodies
        out = []
        for k, blk in e.env.path:
            b = F.bodies.get(k)
            if b is None:
                return None
            out.append((b, blk))
        out.append((e.body, e.block))
        return out
    out = []
    for i, env in enumerate(envs[:-1]):
        out.append((env.body, e.env.path[i][1]))
    out.append((e.body, e.block))
    return out


def jump_threads(ev, env):
    """{(pred, merge block): (target, chain blocks)}: a test of an enum value whose variant is already decided by the way
    the merge block before it was entered — the `?` after a spliced-in helper: entered from the helper's `Err(..)` return
    the test can only take the Break edge, from its `Ok(..)` return only Continue. Path-insensitive reachability would
    combine the helper's failing exit with the caller's continuing edge."""
    from terms import variant_of
    body = env.body
    memo = body.__dict__.setdefault("_jump_threads", {})
    mk = (tuple(sorted((k, repr(v)) for k, v in env.args.items())), env.path)
    if mk in memo:
        return memo[mk]
    memo[mk] = {}
    live = body.live_blocks()
    threads = {}
    dsw = body.discr_switches()
    gd = None
    for (S, si, pk, variants) in dsw:
        if S not in live:
            continue
        chain, cur = [S], S
        while len(body.pred(cur)) == 1 and len(chain) < 8:
            p_ = body.pred(cur)[0]
            if len(body.succ(p_)) != 1 or p_ == S:
                break
            chain.append(p_)
            cur = p_
        M = cur
        preds = [p_ for p_ in body.pred(M) if p_ in live]
        if len(preds) < 2:
            continue
        term = body.blocks[S]["term"]
        names = dict(variants)
        by_name = {n: v for v, n in variants}
        tg = dict(term["targets"])
        for p_ in preds:
            try:
                e2 = Env(body, env.args, env.depth, env.caps, env.path)
                e2.pred_filter = (lambda a, b_, p_=p_, M=M: b_ != M or a == p_)
                v = ev.lookup(e2, pk, (S, si))
            except RecursionError:
                continue
            vn = variant_of(v, set(names.values()))
            if vn is None:
                # not decided by the value, but perhaps by an earlier test of the same place that this predecessor lies
                # behind (a `match` arm re-tested by drop elaboration)
                if gd is None:
                    gd = Guards(ev, body, env)
                for sw2, vals2 in gd.dominating_conditions(p_):
                    hit = [d for d in dsw if d[0] == sw2["block"] and d[2] == pk and d[0] != S]
                    if hit and len(vals2) == 1 and vals2[0] != "otherwise":
                        vn = dict(hit[0][3]).get(vals2[0])
            if vn is None or vn not in by_name:
                continue
            T = tg.get(by_name[vn], term["otherwise"])
            threads[(p_, M)] = (T, tuple(chain))
    memo[mk] = threads
    return threads


def reachable_threaded(body, start, avoid, threads, avoid_edges=(), edges_out=None):
    """Body.reachable with decided tests followed only along their decided edge; `edges_out` (a set) receives the edges
    taken, a thread contributing the decided edge of its test"""
    avoid = set(avoid)
    avoid_edges = set(avoid_edges)
    if start in avoid:
        return set()
    seen = {start}
    extra = set()      # blocks of decided tests passed on a thread (not explored from there in general)
    st = [start]
    while st:
        b = st.pop()
        for s_ in body.succ(b):
            if (b, s_) in avoid_edges:
                continue
            th = threads.get((b, s_))
            if th is not None:
                T, chain = th
                if any(c in avoid for c in chain) or (chain[0], T) in avoid_edges:
                    continue
                extra.update(chain)
                if edges_out is not None:
                    edges_out.add((chain[0], T))
                s_ = T
            elif edges_out is not None:
                edges_out.add((b, s_))
            if s_ in seen or s_ in avoid:
                continue
            seen.add(s_)
            st.append(s_)
    return seen | extra


def must_pass_threaded(body, frm, to_set, through, threads):
    return not (reachable_threaded(body, frm, through, threads) & set(to_set))


def chain_envs(e):
    """the environments of the inlining chain of an effect, root first (None where unknown)"""
    envs = []
    x = e.env
    while x is not None:
        envs.append(x)
        x = getattr(x, "parent", None)
    envs.reverse()
    if len(envs) != len(e.env.path) + 1:
        return [None] * len(e.env.path) + [e.env]
    return envs


def write_chain(cn, w):
    """the inlining chain of a write; for a column written element by element the chain ends at the driver of the
    element iteration (what happens inside that iteration is decided separately, see elementwise_column_writes)"""
    chain = chain_of(w.eff, cn.ev.facts)
    if chain is not None and w.kind == "colelems":
        chain = chain[:w.val[3]]
        chain[-1] = (chain[-1][0], w.val[4])
    return chain


def written_each_iteration(cn, w, iv, alts=()):
    """(ok, reason): the write `w` is executed in every iteration of the loop / driven closure that `iv`
    counts, on every path of that iteration that does not leave with a failure — also when the write
    sits in helpers called from the iteration body (each helper must write on all its success paths).
    `alts`: other writes of the same column of the same container (a fast path and its fallback): at every level
    the paths must pass through one of them"""
    F = cn.ev.facts
    e = w.eff
    chain = write_chain(cn, w)
    if chain is None or iv[0] != "iv":
        return False, "write site not resolved"
    alt_chains = [c for c in (write_chain(cn, a) for a in alts) if c]
    envs_ = chain_envs(e)

    def threads_at(level):
        env_ = envs_[level] if level < len(envs_) else None
        if env_ is None or env_.body is not chain[level][0]:
            return {}
        try:
            return jump_threads(cn.ev, env_)
        except RecursionError:
            return {}

    def blocks_at(level):
        """the blocks, in the body at `level` of the chain, of this write and of its alternatives that reach that body
        through the same calls"""
        out = {chain[level][1]}
        for c in alt_chains:
            if len(c) > level and all(c[i][0] is chain[i][0] or c[i][0].key == chain[i][0].key for i in range(level + 1)) \
                    and all(c[i][1] == chain[i][1] for i in range(level)):
                out.add(c[level][1])
        return out
    key = None
    for k, n in cn.keys.items():
        if n == iv[1]:
            key = k
    if key is not None and key[0] == "gen":
        # a block write performs all its columns at once: what remains is that helpers on the way to it perform it on
        # every success path
        for lv in range(1, len(chain)):
            body = chain[lv][0]
            if not must_pass_threaded(body, 0, success_returns(body), blocks_at(lv), threads_at(lv)):
                return False, "helper `%s` can return successfully without performing the write" % body.key[-60:]
        return True, ""
    if key is None or key[0] != "drv":
        return False, "the index is not the counter of a loop or of a driven closure"
    m = key[1]
    if m and m[0] == "next":
        # a loop: ("next", body key, block of the next() call, call path)
        _, bkey, nblk, path = m
        level = len(path)
        if level >= len(chain) or chain[level][0].key != bkey:
            return False, "the write is not inside the loop that the index counts"
        body, blk = chain[level]
        loops = [(h, blks) for h, blks in body.natural_loops().items() if nblk in blks]
        if not loops:
            return False, "loop not found"
        h, blks = min(loops, key=lambda x: len(x[1]))
        if blk not in blks:
            return False, "the write lies outside the loop"
        entry = None
        nt = body.blocks[nblk]["term"]
        for (sb, si, pk, variants) in body.discr_switches():
            if sb in blks and pk[0] == nt["dest"]["l"] and not pk[1]:
                yes, no = variant_edge(body, sb, "Some")
                if yes:
                    entry = yes[0][1]
        if entry is None:
            return False, "loop test not found"
        if h in reachable_threaded(body, entry, blocks_at(level), threads_at(level)):
            return False, "a path through the loop body returns to the loop header without performing the write"
    else:
        # a closure driven by an iterator adapter: (closure key, caller key, block, call path)
        clo_key, bkey, bi, path = m
        level = len(path) + 1
        if level >= len(chain) or chain[level][0].key != clo_key:
            return False, "the write is not inside the closure driven by the iteration"
        body, blk = chain[level]
        if not must_pass_threaded(body, 0, success_returns(body), blocks_at(level), threads_at(level)):
            return False, "a path through the per-element closure reports success without performing the write"
    # deeper levels: helpers must write on all their success paths
    for lv in range(level + 1, len(chain)):
        body = chain[lv][0]
        if not must_pass_threaded(body, 0, success_returns(body), blocks_at(lv), threads_at(lv)):
            return False, "helper `%s` can return successfully without performing the write" % body.key[-60:]
    return True, ""


def chain_relations(cn, e):
    """canonical size relations that hold whenever the effect `e` is executed: the guards dominating it in its own body,
    and those dominating, in every caller on the inlining chain, the call (or the driver of the closure) that leads to it"""
    rels = []
    envs = []
    x = e.env
    while x is not None:
        envs.append(x)
        x = getattr(x, "parent", None)
    envs.reverse()
    sites = [(e.env, e.block)]
    if len(envs) == len(e.env.path) + 1:
        sites += [(env, e.env.path[i][1]) for i, env in enumerate(envs[:-1])]
    for env, blk in sites:
        g = Guards(cn.ev, env.body, env)
        for r in g.relations_at(blk)[0]:
            if r[0] in ("Le", "Lt", "Eq"):
                rels.append((r[0], cn.norm_extent(cn.canon(r[1])), cn.norm_extent(cn.canon(r[2]))))
    return rels


def extent_covers(cn, w, iv, d):
    """the iteration counted by `iv` visits every index below `d`: its extent equals d, or is a minimum
    (lock-step iteration) of d and quantities that guards dominating the write show to be >= d"""
    e = cn.extent.get(iv[1]) if iv[0] == "iv" else None
    if e is None:
        return False
    d = cn.norm_extent(cn.canon(d))
    rels = []
    have = [False]

    def facts():
        if not have[0]:
            have[0] = True
            rels.extend(chain_relations(cn, w.eff))
        return rels

    def same(x, y):
        return x == y or ilin_eq(x, y) or provably_eq(x, y, facts())
    if e[0] != "min":
        return same(e, d)
    if not any(same(x, d) for x in e[1]):
        return False
    return all(same(x, d) or provably_le(d, x, facts()) for x in e[1])


def nlin(cn, t):
    """linear form of a usize term with its size atoms (nrows / ncols / len of containers) in canonical extent form"""
    d = ilin(cn.canon(t))
    if d is None:
        return None
    out = {}
    for a, c in d.items():
        if a is None:
            out[None] = out.get(None, 0) + c
            continue
        a2 = cn.norm_extent(a)
        sub = ilin(a2) if a2 != a else {a2: 1}
        if sub is None:
            sub = {a2: 1}
        for k2, c2 in sub.items():
            out[k2] = out.get(k2, 0) + c * c2
    return {k: v for k, v in out.items() if v != 0}
