"""Dependency-contract rules on the pinned levenberg-marquardt crate (as resolved by
/repo/Cargo.lock). varpro's properties C04/C08/C09 lean on four behaviours of the
optimizer; instead of only trusting them, the same fact extractor is run on the dependency
(RUSTC_WRAPPER) and these structural clauses are decided on its MIR:

  * a problem that returns None from residuals()/jacobian() makes the optimizer stop with
    TerminationReason::User, which is not `was_successful` (C09: failed fit => Err);
  * every trial evaluation is counted and the count is compared with
    max_fev = patience*(n+1) before another iteration is allowed; every cycle of minimize()
    passes through a trial evaluation (C04 evaluation budget, C08 termination of the loop);
  * before every terminal return after a trial step the parameters of the accepted point
    are re-applied unless the trial point itself was accepted (C04: the returned problem is
    at the reported parameters);
  * set_params is only ever called with the trial point or the accepted point, and the
    start point is the problem's own params() (C04/C18).
A dependency upgrade that changes any of these is reported."""
from core import *
from flow import consumers
from rules_panic import nosite
from rules_mbuilder import pruned

TRAIT_P = "problem::LeastSquaresProblem"
CFG = "dep"
REPO = "/repo"   # set by the runner to the tree being analysed (its Cargo.lock pins the dependency)


def lm_bodies(F):
    def one(suffix):
        m = [b for k, b in F.bodies.items() if k.endswith(suffix)]
        if len(m) != 1:
            raise AnchorMissing("levenberg-marquardt: `%s` resolves to %d bodies" % (suffix, len(m)))
        return m[0]
    return {
        "tri": one(">::trust_region_iteration"),
        "reset": one(">::reset_params_if"),
        "minimize": one("LevenbergMarquardt<F>>::minimize"),
        "new": one("LM<'a, F, N, M, O>>::new"),
        "jac": one("LM<'a, F, N, M, O>>::jacobian"),
        "succ": one("TerminationReason>::was_successful"),
    }


def trait_calls(b, name):
    return [(bi, t) for bi, t in b.calls() if "fn" in t and t["fn"].get("trait") == TRAIT_P and t["fn"]["name"] == name]


def term_sites(b, variants=None):
    out = []
    for bi, si, s in b.stmts():
        if s["k"] == "assign" and s["rv"]["k"] == "agg" and s["rv"].get("adt", "").endswith("TerminationReason"):
            if variants is None or s["rv"]["variant"] in variants:
                out.append((bi, si, s))
    return out


def rule_lm_contract(F_unused, ev_unused, R, config, rule="R-LM-CONTRACT", repo=None):
    import extract
    path, info = extract.extract_dep(repo or REPO)
    if path is None:
        R.bad(rule, CFG, "levenberg-marquardt", "extract", "cannot extract facts of the pinned levenberg-marquardt: %s" % (info.get("error") or "")[-400:])
        return
    F = Facts(path)
    ev = Eval(F)
    B = lm_bodies(F)
    tri, reset, mini, new, jac, succ = B["tri"], B["reset"], B["minimize"], B["new"], B["jac"], B["succ"]
    env = Env(tri)
    me = ("param", tri.key, 1)

    # 1. set_params call sites
    # bodies reachable from minimize() (the crate's numerical-differentiation utilities are not)
    reach = set()
    work = [mini.key]
    while work:
        k = work.pop()
        if k in reach or k not in F.bodies:
            continue
        reach.add(k)
        for bi, t in F.bodies[k].calls():
            if "fn" in t:
                kk = t["fn"].get("resolved_key") or t["fn"].get("key")
                if kk in F.bodies:
                    work.append(kk)
        for c in F.closures_of(k):
            work.append(c.key)
    sites = []
    for k in sorted(reach):
        b = F.bodies[k]
        for bi, t in trait_calls(b, "set_params"):
            sites.append((b, bi, t))
    where = sorted(set(b.key.rsplit("::", 1)[-1] for b, _, _ in sites))
    ok = where == ["reset_params_if", "trust_region_iteration"] and len(sites) == 2
    R.add(rule, CFG, "levenberg-marquardt", "set_params-only-for-trial-or-accepted-point", ok,
          "" if ok else "set_params is called from %s" % where)
    for b, bi, t in sites:
        e2 = Env(b)
        a0 = ev.operand(e2, t["args"][0], (bi, None))
        a1 = ev.operand(e2, t["args"][1], (bi, None))
        base1 = a1
        while base1[0] == "mutated":
            base1 = base1[1]
        want = "tmp" if b is tri else "x"
        okk = base1 == ("field", ("param", b.key, 1), want)
        R.add(rule, CFG, b.key, "set_params(target, self.%s)" % want, okk, "" if okk else "set_params argument is `%s`" % short(a1)[:80], t.get("span"))

    # 2. every trial evaluation is counted
    sp = trait_calls(tri, "set_params")
    incs = [(bi, si, s) for bi, si, s in tri.stmts() if s["k"] == "assign" and [e["name"] for e in s["place"]["proj"] if e["k"] == "field"][-1:] == ["number_of_evaluations"]]
    ok = False
    if len(sp) == 1 and len(incs) == 1:
        v = ev.rvalue(env, incs[0][2]["rv"], (incs[0][0], incs[0][1]))
        isinc = v[0] == "bin" and v[1] == "Add" and ("const", "usize", 1) in (v[2], v[3])
        ok = isinc and tri.must_pass(sp[0][0], tri.exits(), {incs[0][0]}) or (isinc and incs[0][0] == sp[0][1]["t"])
    R.add(rule, CFG, tri.key, "trial-evaluation-counted", ok, "" if ok else "a trial set_params is not followed by number_of_evaluations += 1 on every path", tri.j["span"])

    # 3. the count is compared with max_fev before the iteration may continue
    g = Guards(ev, tri, env)
    budget = None
    for sw in g.switches:
        r = canon_rel(sw["term"], True)
        if r and r[0] == "Le" and r[1] == ("field", me, "max_fev") and contains(r[2], lambda x: x == ("field", ("field", me, "report"), "number_of_evaluations")):
            budget = sw
    ok_sites = [bi for bi, si, s in tri.stmts() if s["k"] == "assign" and s["place"]["l"] == 0 and s["rv"]["k"] == "agg" and s["rv"].get("variant") == "Ok"]
    ok = False
    if budget is not None and ok_sites:
        cont = g.bool_edges(budget, False)
        ok = all(g.holds_on_all_paths_to(x, [cont]) for x in ok_sites)
    R.add(rule, CFG, tri.key, "continue-only-if-evaluations<max_fev", ok,
          "" if ok else "an iteration can continue (Ok(..)) without the check number_of_evaluations >= max_fev having failed", tri.j["span"])
    for bi, si, s in term_sites(tri, {"LostPatience"}):
        okk = budget is not None and g.holds_on_all_paths_to(bi, [g.bool_edges(budget, True)])
        R.add(rule, CFG, tri.key, "LostPatience-iff-budget-exhausted", okk, "" if okk else "LostPatience produced without the budget being exhausted", s.get("span"))
    # max_fev = patience * (n + 1)
    enew = Env(new)
    okm = False
    for bi, si, s in new.stmts():
        if s["k"] == "assign" and s["rv"]["k"] == "agg" and s["rv"].get("adt", "").endswith("lm::LM"):
            v = ev.rvalue(enew, s["rv"], (bi, si))
            mf = dict(v[3]).get("max_fev")
            if mf and mf[0] == "bin" and mf[1] == "Mul":
                fs = (mf[2], mf[3])
                okp = any(x[0] == "field" and x[2] == "patience" for x in fs)
                okn = any(x[0] == "bin" and x[1] == "Add" and ("const", "usize", 1) in (x[2], x[3]) for x in fs)
                okm = okp and okn
            # start point = the problem's own parameters
            x0 = dict(v[3]).get("x")
            okx = x0 is not None and x0[0] == "call" and x0[1] == TRAIT_P + "::params"
            R.add(rule, CFG, new.key, "start-point=problem.params()", okx, "" if okx else "x is initialised with `%s`" % short(x0)[:80], s.get("span"))
    R.add(rule, CFG, new.key, "max_fev=patience*(n+1)", okm, "" if okm else "evaluation budget is not patience·(n+1)", new.j["span"])

    # 4. every cycle of minimize() passes through a trial evaluation
    loops = mini.natural_loops()
    okl = bool(loops)
    for h, blk in loops.items():
        has = any("fn" in mini.blocks[x]["term"] and mini.blocks[x]["term"]["fn"].get("key", "").endswith("trust_region_iteration")
                  for x in blk if mini.blocks[x]["term"]["k"] == "call")
        okl = okl and has
    R.add(rule, CFG, mini.key, "every-cycle-runs-a-counted-trial", okl, "" if okl else "minimize() has a loop that does not pass through trust_region_iteration (unbounded)", mini.j["span"])
    # and a trial that continues has passed the increment
    ok = len(incs) == 1 and all(tri.must_pass(0, [x], {incs[0][0]}) for x in ok_sites)
    R.add(rule, CFG, tri.key, "continuing-trial-was-counted", ok, "" if ok else "an iteration can continue without having been counted", tri.j["span"])

    # 5. accepted point re-applied before terminal returns that follow a trial step
    swaps = [(bi, t) for bi, t in tri.calls() if "fn" in t and t["fn"]["name"] == "swap"]
    good = None
    if len(swaps) == 1:
        rels, raw = g.relations_at(swaps[0][0])
        cands = [(term, truth) for term, truth, sw in raw if isinstance(truth, bool) and truth]
        if cands:
            good = nosite(cands[-1][0])
        a = [ev.operand(env, x, (swaps[0][0], None)) for x in swaps[0][1]["args"]]
        base = [strip_all_mut(x) for x in a]
        oks = set(base) == {("field", me, "x"), ("field", me, "tmp")}
        R.add(rule, CFG, tri.key, "accept=swap(x,tmp)", oks, "" if oks else "accepting a step does not swap x and tmp", swaps[0][1].get("span"))
    resets = []
    for bi, t in tri.calls():
        if "fn" in t and t["fn"].get("key") == reset.key:
            arg = nosite(ev.operand(env, t["args"][1], (bi, None)))
            resets.append((bi, arg))
    want_arg = ("un", "Not", good) if good is not None else None
    for bi, si, s in term_sites(tri, {"ResidualsZero", "Converged", "LostPatience", "NoImprovementPossible"}):
        okk = any(tri.dominates(rb, bi) and arg == want_arg for rb, arg in resets)
        R.add(rule, CFG, tri.key, "accepted-point-reapplied-before:%s" % s["rv"]["variant"], okk,
              "" if okk else "termination %s can be returned with the problem left at a rejected trial point" % s["rv"]["variant"], s.get("span"))
    # reset_params_if(reset): set_params(target, x) exactly under reset
    er = Env(reset)
    gr = Guards(ev, reset, er)
    rs = trait_calls(reset, "set_params")
    okr = False
    if len(rs) == 1:
        rels, raw = gr.relations_at(rs[0][0])
        okr = any(term == ("param", reset.key, 2) and truth is True for term, truth, sw in raw)
    R.add(rule, CFG, reset.key, "reset⇒set_params(x)", okr, "" if okr else "reset_params_if does not re-apply x exactly when asked to", reset.j["span"])

    # 6. None from the problem => TerminationReason::User
    for b, name in ((tri, "residuals"), (new, "residuals"), (jac, "jacobian")):
        for bi, t in trait_calls(b, name):
            okk = False
            for c in consumers(b, t["dest"]["l"]):
                if c["kind"] == "discr" and b.blocks[c["block"]]["term"]["k"] == "switch":
                    yes, no = variant_edge(b, c["block"], "None")
                    if yes:
                        users = set(x[0] for x in term_sites(b, {"User"}))
                        tgt = yes[0][1]
                        okk = bool(users) and (tgt in users or b.must_pass(tgt, b.exits(), users))
            R.add(rule, CFG, b.key, "None-from-%s⇒User" % name, okk, "" if okk else "a missing %s does not lead to TerminationReason::User" % name, t.get("span"))
    # 7. was_successful table
    sw = None
    for bi in succ.rpo():
        if succ.blocks[bi]["term"]["k"] == "switch":
            sw = bi
            break
    variants, adt_, place = discr_variants(succ, sw) if sw is not None else (None, None, None)
    if not variants:
        R.bad(rule, CFG, succ.key, "was_successful-table", "no match on the termination reason", succ.j["span"])
    else:
        t = succ.blocks[sw]["term"]
        listed = dict((v, tg) for v, tg in t["targets"])
        table = {}
        for v, n in variants:
            pb = pruned(succ, sw, listed.get(v, t["otherwise"]))
            val = Eval(F).ret_val(Env(pb))
            table[n] = val
        must_false = ["User", "Numerical", "LostPatience", "NoImprovementPossible", "WrongDimensions", "NoParameters", "NoResiduals"]
        okk = all(table.get(n) == ("const", "bool", 0) for n in must_false if n in table) and "User" in table
        okt = all(table.get(n) == ("const", "bool", 1) for n in ("Converged", "ResidualsZero", "Orthogonal") if n in table)
        R.add(rule, CFG, succ.key, "failure-reasons-are-not-successful", okk, "" if okk else "was_successful() table: %s" % {k: short(v) for k, v in table.items()}, succ.j["span"])
        R.add(rule, CFG, succ.key, "convergence-reasons-are-successful", okt, "" if okt else "was_successful() table: %s" % {k: short(v) for k, v in table.items()}, succ.j["span"])
    R.floor(rule, CFG, 18, "dependency contract clauses on levenberg-marquardt")


def strip_all_mut(t):
    while t[0] == "mutated":
        t = t[1]
    return t


def rule_nalgebra_solve(F_unused, ev_unused, R, config, rule="R-NALGEBRA-SOLVE", repo=None):
    """Dependency contract of the pinned nalgebra for C01: `SVD::solve(b, eps)` returns
    Vᴴ·D⁺·Uᴴ·b where component i is divided by the singular value σ_i exactly when σ_i > eps and
    is set to zero when σ_i ≤ eps — "singular values at or below the threshold count as zero" and the
    minimum-norm solution in the rank-deficient case."""
    import extract
    import effects as fx
    import logic
    from rules_stats2 import base_alloc
    path, info = extract.extract_dep(repo or REPO, crate="nalgebra", pkg="nalgebra", body_filter="linalg::svd::SVD")
    if path is None:
        R.bad(rule, CFG, "nalgebra", "extract", "cannot extract facts of the pinned nalgebra: %s" % (info.get("error") or "")[-400:])
        return
    F = Facts(path)
    ev = Eval(F)
    bs = [b for k, b in F.bodies.items() if k.endswith("SVD<T, R, C>>::solve")]
    if len(bs) != 1:
        R.bad(rule, CFG, "nalgebra", "anchor-missing", "SVD::solve not found (%d)" % len(bs))
        return
    b = bs[0]
    env = Env(b)
    me, rhs, eps = ("param", b.key, 1), ("param", b.key, 2), ("param", b.key, 3)
    L = logic.Logic(ev)
    stores = [e for e in fx.iteration_effects(ev, env) if e.kind == "store"]
    utb = None
    seen = {"unscale": False, "zero": False}
    for e in stores:
        ptr, val = e.args
        if not (ptr[0] == "call" and ptr[1].endswith("IndexMut::index_mut")):
            continue
        col, idx = ptr[3]
        cb = base_alloc(col)
        if not (cb[0] == "call" and cb[1].rsplit("::", 1)[-1] == "column_mut"):
            continue
        M = base_alloc(cb[3][0])
        utb = M
        conds = L.conditions_at(e.body, e.env, e.block)
        sv_i = lambda t: t[0] == "call" and t[1].endswith("Index::index") and t[3][0] == ("field", me, "singular_values")
        if val[0] == "call" and val[1].endswith("::unscale"):
            ok = any(c[0] == "rel" and c[1] == "Lt" and c[2] == eps and sv_i(c[3]) for c in conds) and sv_i(val[3][1])
            seen["unscale"] = True
            R.add(rule, CFG, b.key, "divide-by-σ_i-only-if-σ_i>eps", ok, "" if ok else "the component is divided by the singular value without σ_i > eps: %s" % [logic.show_f(c)[:60] for c in conds], e.term.get("span"))
        elif val[0] == "call" and val[1].endswith("Zero::zero"):
            ok = any(c[0] == "rel" and c[1] == "Le" and sv_i(c[2]) and c[3] == eps for c in conds)
            seen["zero"] = True
            R.add(rule, CFG, b.key, "component-zeroed-iff-σ_i≤eps", ok, "" if ok else "the component is zeroed under %s" % [logic.show_f(c)[:60] for c in conds], e.term.get("span"))
        else:
            R.bad(rule, CFG, b.key, "unexpected-store", "component set to `%s`" % short(val)[:80], e.term.get("span"))
    for k, v in seen.items():
        if not v:
            R.bad(rule, CFG, b.key, "missing:" + k, "solve() has no `%s` store" % k, b.j["span"])
    oku = utb is not None and utb[0] == "call" and utb[1].endswith("ad_mul") and utb[3] == (("payload", ("field", me, "u"), "ok", "0"), rhs)
    R.add(rule, CFG, b.key, "works-on-Uᴴ·b", oku, "" if oku else "the scaled matrix is `%s`" % (short(utb)[:80] if utb else None), b.j["span"])
    v = ev.ret_val(env)
    alts = v[1] if v[0] == "phi" else (v,)
    oks = [a for a in alts if a[0] == "agg" and a[2] == "Ok"]
    okr = len(oks) == 1 and oks[0][3][0][1][0] == "call" and oks[0][3][0][1][1].endswith("ad_mul") and \
        oks[0][3][0][1][3][0] == ("payload", ("field", me, "v_t"), "ok", "0") and base_alloc(oks[0][3][0][1][3][1]) == utb
    R.add(rule, CFG, b.key, "result=Vᴴ·(D⁺·Uᴴ·b)", okr, "" if okr else "solve() returns `%s`" % short(v)[:160], b.j["span"])
    R.floor(rule, CFG, 4, "solve(): two stores, operand, result")
