"""Form-independent effect collection.

`iteration_effects(ev, env)` lists what a body does — external calls with evaluated
arguments and stores through pointers — looking through (a) inlined local callees,
(b) closures driven by iterator adapters (`map`, `for_each`, `all`, `find`, rayon twins, …)
and by Option/Result combinators. A closure's parameter is bound to `('elem', iterator)`
(resp. the payload), which is exactly the term a `for` loop over the same iterator produces
through `Iterator::next`. A closure-style pipeline and the equivalent `for` loop therefore
yield the same effect terms, so rules written against effects do not depend on which of
the two forms the code uses."""
from core import *

ITER_CLOSURE_ADAPTERS = {
    # name: index of the closure argument
    "map": 1, "for_each": 1, "filter": 1, "all": 1, "any": 1, "find": 1, "position": 1, "filter_map": 1,
    "try_for_each": 1, "inspect": 1, "take_while": 1, "skip_while": 1, "flat_map": 1, "find_map": 1, "map_while": 1,
    "map_init": 2,
}
OPTION_CLOSURE_ADAPTERS = {"map", "and_then", "filter", "ok_or_else", "map_err", "unwrap_or_else", "or_else", "is_some_and", "map_or_else", "inspect"}


def base_iter(t):
    """strip `mutated` wrappers and loop phis from an iterator term"""
    while True:
        if t[0] in ("mutated", "drv"):
            t = t[1]
            continue
        if t[0] == "phi":
            alts = []
            for a in t[1]:
                if a[0] == "loopback":
                    continue
                b = base_iter(a)
                if b[0] != "loopback" and b not in alts:
                    alts.append(b)
            if len(alts) == 1:
                t = alts[0]
                continue
        return t


def norm_elems(t):
    """normalise ('elem', it) sub-terms so that loop form and closure form coincide"""
    if not isinstance(t, tuple) or not t:
        return t
    if t[0] == "elem" and len(t) == 2:
        return ("elem", norm_elems(base_iter(t[1])))
    if t[0] == "call" and len(t) == 5:
        return ("call", t[1], t[2], tuple(norm_elems(a) for a in t[3]), t[4])
    if t[0] in ("mutated",) and len(t) == 4:
        return ("mutated", norm_elems(t[1]), t[2], t[3])
    return tuple(norm_elems(x) if isinstance(x, tuple) else x for x in t)


class Effect:
    __slots__ = ("kind", "cid", "head", "args", "term", "body", "block", "env", "raw")

    def __init__(self, kind, cid, head, args, term, body, block, env, raw=None):
        self.kind, self.cid, self.head, self.args = kind, cid, head, args
        self.term, self.body, self.block, self.env = term, body, block, env
        self.raw = raw if raw is not None else args   # arguments before loop/closure normalisation (loop identities kept)

    @property
    def name(self):
        return self.cid.rsplit("::", 1)[-1]


def iteration_effects(ev, env, depth=0, max_depth=6, seen=None, enters=False):
    body = env.body
    if seen is None:
        seen = set()
    if enters:
        # one record per inlined instance (body + environment with bound arguments): lets callers analyse
        # non-call sites (asserts, bounds checks) of helpers and closures in their calling context
        yield Effect("enter", "enter", None, [], None, body, 0, env)
    for bi in sorted(body.live_blocks()):
        bb = body.blocks[bi]
        # stores through pointers: (*p) = v
        for si, s in enumerate(bb["stmts"]):
            if s["k"] == "assign" and s["place"]["proj"] and s["place"]["proj"][0]["k"] == "deref" and len(s["place"]["proj"]) == 1:
                ptr = ev.lookup(env, (s["place"]["l"], ()), (bi, si))
                while ptr[0] == "update" and ptr[2] and ptr[2][0] == ("deref",):
                    ptr = ptr[1]
                val = ev.rvalue(env, s["rv"], (bi, si))
                yield Effect("store", "store", None, [norm_elems(ptr), norm_elems(val)], s, body, bi, env, [ptr, val])
        t = bb["term"]
        if t["k"] != "call":
            continue
        d = t["dest"]
        if d["proj"] and d["proj"][0]["k"] == "deref" and len(d["proj"]) == 1:
            ptr = ev.lookup(env, (d["l"], ()), (bi, None))
            val = ev.call_val(env, bi)
            yield Effect("store", "store", None, [norm_elems(ptr), norm_elems(val)], t, body, bi, env, [ptr, val])
        if "fn" not in t:
            continue
        fn = t["fn"]
        key = fn.get("resolved_key") or fn.get("key")
        args = [ev.operand(env, a, (bi, None)) for a in t["args"]]
        cid = callee_id(fn)
        name = fn["name"]
        if key and key in ev.facts.bodies and key not in ev.opaque and depth < max_depth:
            cb = ev.facts.bodies[key]
            sub = ev.inline_env(cb, {i + 1: x for i, x in enumerate(args)}, depth + 1, env.path + ((body.key, bi),))
            sub.parent = env
            for r in iteration_effects(ev, sub, depth + 1, max_depth, seen, enters):
                yield r
            continue
        if cid in ("std::ops::FnOnce::call_once", "std::ops::FnMut::call_mut", "std::ops::Fn::call") and len(args) == 2 and \
                args[0][0] in ("closure", "fnref") and args[1][0] == "tuple" and depth < max_depth:
            # a closure / function value called directly (`select(&x)`): its effects happen here
            f = args[0]
            fkey = f[1] if f[0] == "closure" else f[2]
            cb = ev.facts.bodies.get(fkey)
            if cb is not None and fkey not in ev.opaque:
                a = {1: f} if f[0] == "closure" else {}
                off = 2 if f[0] == "closure" else 1
                for i, x in enumerate(args[1][1]):
                    a[off + i] = x
                sub = ev.inline_env(cb, a, depth + 1, env.path + ((body.key, bi),))
                sub.parent = env
                for r in iteration_effects(ev, sub, depth + 1, max_depth, seen, enters):
                    yield r
                continue
        yield Effect("call", cid, fn.get("self_adt"), [norm_elems(a) for a in args], t, body, bi, env, list(args))
        # closures driven by adapters
        clo_idx = None
        param = None
        is_iter = cid.startswith("std::iter::") or cid.startswith("rayon::iter::") or "Iterator::" in cid
        if is_iter and name in ITER_CLOSURE_ADAPTERS:
            clo_idx = ITER_CLOSURE_ADAPTERS[name]
            if args:
                # the driving iterator keeps the identity of this iteration (closure + call path), so that two nested
                # iterations over equal iterator terms stay distinct (see tab.py); norm_elems drops it again
                param = ("elem", ("drv", base_iter(args[0]), (args[clo_idx][1] if len(args) > clo_idx and args[clo_idx][0] == "closure" else None, body.key, bi, env.path)))
        elif (cid.startswith("std::option::Option::") or cid.startswith("std::result::Result::")) and name in OPTION_CLOSURE_ADAPTERS:
            clo_idx = 1
            if args:
                o = ev.as_opt(args[0]) if args[0][0] != "none" else None
                param = o[1] if o else None
        gen_params = None
        if "nalgebra" in cid and name in ("from_fn", "from_fn_generic") and args and args[-1][0] == "closure":
            # generator closure (i, j) over the given dimensions
            dims = list(args[:-1]) + [("const", "usize", 1)]
            mk = lambda d, k: ("elem", ("drv", ("agg", "std::ops::Range", None, (("start", ("const", "usize", 0)), ("end", d))), (args[-1][1], body.key, bi, env.path, k)))
            gen_params = (len(args) - 1, [mk(dims[0], 0), mk(dims[1], 1)])
        elif "nalgebra" in cid and name in ("map", "map_with_location", "apply", "apply_into") and len(args) == 2 and args[1][0] == "closure":
            gen_params = (1, [("elem", ("drv", ("call", "nalgebra::Matrix::iter", None, (args[0],), None), (args[1][1], body.key, bi, env.path)))])
        if gen_params is not None and depth < max_depth:
            ci, ps = gen_params
            c = args[ci]
            cb = ev.facts.bodies.get(c[1])
            if cb is not None and (c[1], bi, body.key) not in seen:
                seen.add((c[1], bi, body.key))
                a = {1: c}
                for i, x in enumerate(ps):
                    a[2 + i] = x
                sub = ev.inline_env(cb, a, depth + 1, env.path + ((body.key, bi),))
                sub.parent = env
                for r in iteration_effects(ev, sub, depth + 1, max_depth, seen, enters):
                    yield r
        if clo_idx is not None and param is not None and len(args) > clo_idx and args[clo_idx][0] == "closure" and depth < max_depth:
            c = args[clo_idx]
            cb = ev.facts.bodies.get(c[1])
            if cb is not None and (c[1], bi, body.key) not in seen:
                seen.add((c[1], bi, body.key))
                a = {1: c}
                if name == "map_init":
                    a[2] = ("sym", "init")
                    a[3] = param
                else:
                    a[2] = param
                sub = ev.inline_env(cb, a, depth + 1, env.path + ((body.key, bi),))
                sub.parent = env
                for r in iteration_effects(ev, sub, depth + 1, max_depth, seen, enters):
                    yield r


def column_writes(effects):
    """full-column writes: [(matrix term M, column index term k | None, value term, effect)]
    for `col.copy_from(v)` with col an element of a column iteration over M, or
    `M.column_mut(k).copy_from(v)` / `set_column(k, v)`"""
    out = []
    for e in effects:
        if e.kind != "call":
            continue
        n = e.name
        if n in ("copy_from", "copy_from_slice", "tr_copy_from", "fill") and len(e.args) >= 2:
            recv, val = e.args[0], e.args[1]
            hit = column_of(recv)
            if hit:
                out.append((hit[0], hit[1], val, e))
        elif n == "set_column" and len(e.args) >= 3:
            out.append((strip_mut_t(e.args[0]), e.args[1], e.args[2], e))
    return out


def strip_mut_t(t):
    while t[0] == "mutated":
        t = t[1]
    return t


def column_of(recv):
    """(M, k) if recv denotes column k of matrix M"""
    r = recv
    while r[0] == "mutated":
        r = r[1]
    # M.column_mut(k)
    if r[0] == "call" and r[1].rsplit("::", 1)[-1] in ("column_mut", "column") and len(r[3]) == 2:
        return (strip_loop(r[3][0]), r[3][1])
    # element of a column iteration, possibly enumerated / zipped
    idx = None
    e = r
    path = []
    while e[0] == "field" and e[2] in ("0", "1"):
        path.append(e[2])
        e = e[1]
    if e[0] != "elem":
        return None
    it = base_iter(e[1])
    path.reverse()
    # walk the adapter chain following the tuple path
    k = None
    cur = it
    root = e
    consumed = []
    for comp in path:
        if cur[0] == "call" and cur[1].rsplit("::", 1)[-1] == "enumerate":
            if comp == "0":
                return None
            k = ("field", root_for(e, consumed), "0")
            consumed.append(comp)
            cur = base_iter(cur[3][0])
        elif cur[0] == "call" and cur[1].rsplit("::", 1)[-1] == "zip":
            consumed.append(comp)
            cur = base_iter(cur[3][int(comp)])
        else:
            return None
    while cur[0] == "call" and cur[1].rsplit("::", 1)[-1] in ("into_iter", "by_ref"):
        cur = base_iter(cur[3][0])
    if cur[0] == "call" and cur[1].rsplit("::", 1)[-1] in ("column_iter_mut", "par_column_iter_mut"):
        return (strip_loop(cur[3][0]), k)
    return None


def root_for(e, consumed):
    t = e
    for c in consumed:
        t = ("field", t, c)
    return t


def strip_loop(t):
    from rules_stats2 import base_alloc
    return base_alloc(t)


def covers_all_columns_simple(recv):
    """the receiver is an element of an unskipped, unfiltered column iteration (possibly
    enumerated): every column is visited"""
    r = recv
    while r[0] == "mutated":
        r = r[1]
    while r[0] == "field":
        r = r[1]
    if r[0] != "elem":
        return False
    it = base_iter(r[1])
    while it[0] == "call" and it[1].rsplit("::", 1)[-1] in ("enumerate", "into_iter", "by_ref"):
        it = base_iter(it[3][0])
    return it[0] == "call" and it[1].rsplit("::", 1)[-1] in ("column_iter_mut", "par_column_iter_mut")


def sequence_of(ev, env, term, effs=None):
    """A collection built element by element, in iteration order:
       collect(map(IT, f))                       -> ('seq', IT, f(elem IT))
       Vec::new()/with_capacity + push in a loop -> ('seq', IT, pushed value)
    IT is the (normalised) driving iterator; the value term mentions ('elem', IT). None if not recognised."""
    t = term
    while t[0] in ("mutated",):
        t = t[1]
    if t[0] == "payload" and t[2] == "ok":
        t = t[1]
    if t[0] == "opt":
        t = t[1]
    t0 = t
    while t0[0] == "mutated":
        t0 = t0[1]
    if t0[0] == "call" and t0[1].rsplit("::", 1)[-1] in ("collect", "from_iter"):
        m = base_iter(t0[3][0])
        if m[0] == "call" and m[1].rsplit("::", 1)[-1] == "map" and len(m[3]) == 2 and m[3][1][0] == "closure":
            it = base_iter(m[3][0])
            cb = ev.facts.bodies.get(m[3][1][1])
            if cb is not None:
                v = ev.ret_val(Env(cb, {1: m[3][1], 2: ("elem", it)}, env.depth + 1))
                return ("seq", norm_elems(it), norm_elems(v))
        return None
    # push form
    from rules_stats2 import base_alloc
    alloc = base_alloc(term)
    if alloc[0] == "call" and alloc[1].rsplit("::", 1)[-1] in ("new", "with_capacity") and "Vec" in alloc[1]:
        if effs is None:
            effs = list(iteration_effects(ev, env))
        pushes = [e for e in effs if e.kind == "call" and e.name == "push" and "Vec" in e.cid and base_alloc(e.args[0]) == alloc]
        if len(pushes) != 1:
            return None
        e = pushes[0]
        val = e.args[1]
        # the loop that contains the push
        b = e.body
        it = None
        for h, blk in b.natural_loops().items():
            if e.block in blk:
                for lb in sorted(blk):
                    tt = b.blocks[lb]["term"]
                    if tt["k"] == "call" and "fn" in tt and callee_id(tt["fn"]) == "std::iter::Iterator::next":
                        it = base_iter(ev.operand(e.env, tt["args"][0], (lb, None)))
        if it is None:
            return None
        # every iteration pushes exactly once or leaves the function without returning the vector: checked by callers via CFG if needed
        return ("seq", norm_elems(it), val)
    return None
