"""Build the driver if needed and (re)extract MIR facts from a checkout of varpro.

Checks never write into the analysed checkout: cargo runs --offline --locked with
CARGO_TARGET_DIR under /verif/.cache (dependency artefacts only) and the fact file
is written to /verif/.cache/facts/<sha256 of sources>-<config>.json."""
import fcntl
import glob
import hashlib
import json
import os
import shutil
import subprocess
import sys
import time

VERIF = os.path.dirname(os.path.dirname(os.path.abspath(__file__)))
CACHE = os.environ.get("VP_CACHE", os.path.join(VERIF, ".cache"))
DRIVER_DIR = os.path.join(VERIF, "driver")
DRIVER_TARGET = os.path.join(CACHE, "driver-target")
DRIVER_BIN = os.path.join(DRIVER_TARGET, "release", "vpfacts")

CONFIGS = {
    # name: (cargo feature args, extra rustflags)
    "default": ([], "-C overflow-checks=on -C debug-assertions=on"),
    "parallel": (["--features", "parallel"], "-C overflow-checks=on -C debug-assertions=on"),
    "release": ([], "-C overflow-checks=off -C debug-assertions=off"),
    "release-parallel": (["--features", "parallel"], "-C overflow-checks=off -C debug-assertions=off"),
}
BODY_FLOOR = {"default": 150, "parallel": 160, "release": 150, "release-parallel": 160}


def env_offline():
    e = dict(os.environ)
    e["CARGO_NET_OFFLINE"] = "true"
    return e


def sysroot():
    return subprocess.check_output(["rustc", "+nightly", "--print", "sysroot"], text=True).strip()


def driver_sources_hash():
    h = hashlib.sha256()
    for p in sorted(glob.glob(os.path.join(DRIVER_DIR, "src", "*.rs"))) + [os.path.join(DRIVER_DIR, "Cargo.toml")]:
        h.update(open(p, "rb").read())
    return h.hexdigest()


def ensure_driver():
    os.makedirs(CACHE, exist_ok=True)
    stamp = os.path.join(CACHE, "driver.stamp")
    want = driver_sources_hash()
    with open(os.path.join(CACHE, "driver.lock"), "w") as lk:
        fcntl.flock(lk, fcntl.LOCK_EX)
        if os.path.exists(DRIVER_BIN) and os.path.exists(stamp) and open(stamp).read() == want:
            return DRIVER_BIN
        e = env_offline()
        e["CARGO_TARGET_DIR"] = DRIVER_TARGET
        r = subprocess.run(
            ["cargo", "+nightly", "build", "--release", "--offline"],
            cwd=DRIVER_DIR, env=e, stdout=subprocess.PIPE, stderr=subprocess.STDOUT, text=True,
        )
        if r.returncode != 0 or not os.path.exists(DRIVER_BIN):
            sys.stderr.write(r.stdout)
            raise SystemExit("vpcheck: cannot build the fact extractor (driver)")
        with open(stamp, "w") as f:
            f.write(want)
    return DRIVER_BIN


def source_hash(repo):
    h = hashlib.sha256()
    files = []
    for root, dirs, fs in os.walk(os.path.join(repo, "src")):
        dirs.sort()
        for f in sorted(fs):
            files.append(os.path.join(root, f))
    for f in ("Cargo.toml", "Cargo.lock"):
        files.append(os.path.join(repo, f))
    for p in files:
        if os.path.exists(p):
            h.update(os.path.relpath(p, repo).encode())
            h.update(b"\0")
            h.update(open(p, "rb").read())
            h.update(b"\0")
    h.update(driver_sources_hash().encode())
    return h.hexdigest()[:24]


def facts_path(repo, config, shash=None):
    shash = shash or source_hash(repo)
    return os.path.join(CACHE, "facts", "%s-%s.json" % (shash, config))


def extract(repo, config, target_dir=None, force=False, quiet=True):
    """returns (path to fact file, info dict)."""
    t0 = time.time()
    drv = ensure_driver()
    shash = source_hash(repo)
    out = facts_path(repo, config, shash)
    os.makedirs(os.path.dirname(out), exist_ok=True)
    info = {"config": config, "source_hash": shash, "cached": False}
    feats, rflags = CONFIGS[config]
    tdir = target_dir or os.path.join(CACHE, "target-%s" % config)
    os.makedirs(tdir, exist_ok=True)
    with open(os.path.join(CACHE, "extract-%s.lock" % config), "w") as lk:
        fcntl.flock(lk, fcntl.LOCK_EX)
        if os.path.exists(out) and not force:
            info["cached"] = True
            try:
                os.utime(out, None)   # recently used: keeps it out of prune_cache's reach
            except OSError:
                pass
        else:
            # never let cargo's freshness cache skip the wrapper
            for fp in glob.glob(os.path.join(tdir, "debug", ".fingerprint", "varpro-*")):
                shutil.rmtree(fp, ignore_errors=True)
            for fp in glob.glob(os.path.join(tdir, "debug", "deps", "libvarpro-*")) + glob.glob(
                os.path.join(tdir, "debug", "deps", "varpro-*")
            ):
                try:
                    os.remove(fp)
                except OSError:
                    pass
            tmp_out = out + ".new"
            if os.path.exists(tmp_out):
                os.remove(tmp_out)
            e = env_offline()
            e.update(
                {
                    "VP_CONFIG": config,
                    "VP_CRATE": "varpro",
                    "VP_FACTS_OUT": tmp_out,
                    "LD_LIBRARY_PATH": sysroot() + "/lib",
                    "RUSTFLAGS": "-Zmir-opt-level=0 -Awarnings " + rflags,
                    "RUSTC_WORKSPACE_WRAPPER": drv,
                    "CARGO_TARGET_DIR": tdir,
                    "CARGO_INCREMENTAL": "0",
                }
            )
            cmd = ["cargo", "+nightly", "check", "--offline", "--locked", "--lib", "-p", "varpro"] + feats
            r = subprocess.run(cmd, cwd=repo, env=e, stdout=subprocess.PIPE, stderr=subprocess.STDOUT, text=True)
            info["cargo_rc"] = r.returncode
            if r.returncode != 0 or not os.path.exists(tmp_out):
                info["error"] = r.stdout[-4000:]
                if not quiet:
                    sys.stderr.write(r.stdout)
                return None, info
            os.replace(tmp_out, out)
    with open(out) as f:
        j = json.load(f)
    nb = len(j["bodies"])
    info["bodies"] = nb
    info["wall_s"] = round(time.time() - t0, 2)
    if j.get("crate") != "varpro" or j.get("config") != config or nb < BODY_FLOOR[config]:
        info["error"] = "fact file failed sanity check: crate=%s config=%s bodies=%d" % (j.get("crate"), j.get("config"), nb)
        return None, info
    return out, info


def extract_dep(repo, crate="levenberg_marquardt", pkg="levenberg-marquardt", quiet=True, body_filter=""):
    """facts of a *dependency* crate as pinned by the repo's Cargo.lock (RUSTC_WRAPPER wraps every
    crate; the driver dumps only the one named in VP_CRATE). Cached by Cargo.lock + driver hash."""
    t0 = time.time()
    drv = ensure_driver()
    h = hashlib.sha256()
    h.update(open(os.path.join(repo, "Cargo.lock"), "rb").read())
    h.update(open(os.path.join(repo, "Cargo.toml"), "rb").read())
    h.update(driver_sources_hash().encode())
    h.update(body_filter.encode())
    key = h.hexdigest()[:24]
    out = os.path.join(CACHE, "facts", "dep-%s-%s.json" % (crate, key))
    os.makedirs(os.path.dirname(out), exist_ok=True)
    info = {"crate": crate, "key": key, "cached": False}
    tdir = os.path.join(CACHE, "target-dep")
    os.makedirs(tdir, exist_ok=True)
    with open(os.path.join(CACHE, "extract-dep.lock"), "w") as lk:
        fcntl.flock(lk, fcntl.LOCK_EX)
        if os.path.exists(out):
            info["cached"] = True
            try:
                os.utime(out, None)
            except OSError:
                pass
        else:
            for fp in glob.glob(os.path.join(tdir, "debug", ".fingerprint", pkg + "-*")):
                shutil.rmtree(fp, ignore_errors=True)
            tmp_out = out + ".new"
            if os.path.exists(tmp_out):
                os.remove(tmp_out)
            e = env_offline()
            e.update({"VP_CONFIG": "dep", "VP_CRATE": crate, "VP_FACTS_OUT": tmp_out, "VP_FILTER": body_filter, "LD_LIBRARY_PATH": sysroot() + "/lib",
                      "RUSTFLAGS": "-Zmir-opt-level=0 -Awarnings", "RUSTC_WRAPPER": drv, "CARGO_TARGET_DIR": tdir, "CARGO_INCREMENTAL": "0"})
            r = subprocess.run(["cargo", "+nightly", "check", "--offline", "--locked", "--lib", "-p", "varpro"], cwd=repo, env=e,
                               stdout=subprocess.PIPE, stderr=subprocess.STDOUT, text=True)
            if r.returncode != 0 or not os.path.exists(tmp_out):
                info["error"] = r.stdout[-3000:]
                return None, info
            os.replace(tmp_out, out)
    info["wall_s"] = round(time.time() - t0, 2)
    return out, info


def prune_cache(keep=60, min_age=1800):
    """drop the least recently used fact files; never one used in the last half hour (another
    check may be reading it right now)"""
    import time
    d = os.path.join(CACHE, "facts")
    now = time.time()
    fs = []
    for f in glob.glob(os.path.join(d, "*.json")):
        try:
            fs.append((os.path.getmtime(f), f))
        except OSError:
            pass
    fs.sort()
    for mt, f in fs[:-keep]:
        if now - mt < min_age:
            continue
        try:
            os.remove(f)
        except OSError:
            pass


if __name__ == "__main__":
    repo = sys.argv[1] if len(sys.argv) > 1 else "/repo"
    for c in sys.argv[2:] or ["default", "parallel"]:
        p, info = extract(repo, c, quiet=False)
        print(p, info)
