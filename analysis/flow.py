"""Forward use tracing of a MIR local (who consumes a call result)."""
from terms import callee_id, place_key


def operands_of_rvalue(rv):
    k = rv["k"]
    if k == "use":
        return [rv["op"]]
    if k in ("bin",):
        return [rv["a"], rv["b"]]
    if k == "un":
        return [rv["a"]]
    if k == "cast":
        return [rv["op"]]
    if k == "agg":
        return list(rv["ops"])
    if k == "repeat":
        return [rv["op"]]
    return []


def places_read_by_rvalue(rv):
    ps = [o["place"] for o in operands_of_rvalue(rv) if o["k"] in ("copy", "move")]
    if rv["k"] in ("ref", "rawptr", "discr"):
        ps.append(rv["place"])
    return ps


def consumers(body, local, follow=True):
    """list of consumer records for the value held in `local` (and copies/borrows of it):
       {'kind': 'call', 'cid':..., 'arg': i, 'block': b, 'term': t}
       {'kind': 'discr', 'block': b}          (matched on)
       {'kind': 'return'}                    (moved into _0)
       {'kind': 'agg', 'block': b, 'stmt': s} (moved into an aggregate)
       {'kind': 'field', ...}                (a field/payload is read)
       {'kind': 'store', 'place': p}         (stored into a projected place)
    """
    out = []
    seen = set()
    work = [local]
    while work:
        l = work.pop()
        if l in seen:
            continue
        seen.add(l)
        for bi in sorted(body.live_blocks()):
            bb = body.blocks[bi]
            for si, s in enumerate(bb["stmts"]):
                if s["k"] != "assign":
                    continue
                rv = s["rv"]
                reads = [p for p in places_read_by_rvalue(rv) if p["l"] == l]
                if not reads:
                    continue
                dest = s["place"]
                whole = any(not p["proj"] for p in reads)
                if rv["k"] == "discr":
                    out.append({"kind": "discr", "block": bi, "stmt": si, "dest": dest["l"]})
                    continue
                if rv["k"] in ("use", "ref", "rawptr", "cast"):
                    if not whole and any(e["k"] in ("field", "downcast") for p in reads for e in p["proj"]):
                        out.append({"kind": "field", "block": bi, "stmt": si, "place": reads[0]})
                        continue
                    if dest["l"] == 0 and not dest["proj"]:
                        out.append({"kind": "return", "block": bi})
                    elif dest["proj"]:
                        out.append({"kind": "store", "block": bi, "stmt": si, "place": dest})
                    elif follow:
                        work.append(dest["l"])
                    continue
                if rv["k"] == "agg":
                    out.append({"kind": "agg", "block": bi, "stmt": si, "rv": rv, "dest": dest})
                    if follow and not dest["proj"] and rv["agg"] == "tuple":
                        work.append(dest["l"])
                    continue
                out.append({"kind": "other", "block": bi, "stmt": si, "rv": rv})
            t = bb["term"]
            if t["k"] == "call":
                for ai, a in enumerate(t["args"]):
                    if a["k"] in ("copy", "move") and a["place"]["l"] == l:
                        cid = callee_id(t["fn"]) if "fn" in t else "indirect"
                        out.append({"kind": "call", "cid": cid, "arg": ai, "block": bi, "term": t,
                                    "proj": bool(a["place"]["proj"])})
                if "fnop" in t and t["fnop"]["k"] in ("copy", "move") and t["fnop"]["place"]["l"] == l:
                    out.append({"kind": "call", "cid": "indirect-callee", "arg": -1, "block": bi, "term": t})
            elif t["k"] == "switch":
                o = t["op"]
                if o["k"] in ("copy", "move") and o["place"]["l"] == l:
                    out.append({"kind": "switch", "block": bi})
    return out
