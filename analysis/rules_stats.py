"""Statistics rules: degrees of freedom guard (C12/C14), error mapping, formulas."""
from core import *
from flow import consumers


def stats_ctor_bodies(F):
    """bodies that build a FitStatistics aggregate"""
    out = []
    for b in F.bodies.values():
        for bi, si, s in b.stmts():
            if s["k"] == "assign" and s["rv"]["k"] == "agg" and s["rv"].get("adt") == ADT_STATS:
                im = b.j.get("impl", {})
                if im.get("trait") == "std::clone::Clone":
                    continue
                out.append((b, bi, si, s))
    return out


def dof_role(F, ev):
    """the usize field of FitStatistics whose value reaches argument 1 of StudentsT::ppf"""
    hits = set()
    for b in F.bodies.values():
        for bi, t in b.calls():
            if "fn" in t and "StudentsT" in t["fn"]["path"] and t["fn"]["name"] == "ppf":
                env = Env(b)
                nu = ev.operand(env, t["args"][1], (bi, None))
                for x in walk(nu):
                    if x[0] == "field" and x[1][0] == "param":
                        hits.add(x[2])
    if not hits:
        # the quantile may be computed in a helper that receives the degrees of freedom as an argument: look at the
        # call through the methods of the statistics type (helpers inlined)
        from effects import iteration_effects
        for mb in inherent_methods(F, ADT_STATS):
            if not (mb.j.get("inputs") and ADT_STATS in mb.j["inputs"][0]):
                continue
            me = ("param", mb.key, 1)
            try:
                effs = list(iteration_effects(ev, Env(mb)))
            except RecursionError:
                continue
            for e in effs:
                if e.kind == "call" and "StudentsT" in e.cid and e.name == "ppf" and len(e.raw) >= 2:
                    for x in walk(e.raw[1]):
                        if x[0] == "field" and x[1] == me:
                            hits.add(x[2])
    if len(hits) != 1:
        raise AnchorMissing("degrees-of-freedom role: fields reaching StudentsT::ppf = %s" % sorted(hits))
    return hits.pop()


def is_model_count(t, name):
    return t[0] == "call" and t[1] == TRAIT_MODEL + "::" + name


def match_total(t):
    """M+P in either order -> model term"""
    if t[0] == "bin" and t[1] == "Add":
        a, b = t[2], t[3]
        for x, y in ((a, b), (b, a)):
            if is_model_count(x, "parameter_count") and is_model_count(y, "base_function_count") and x[3] == y[3]:
                return x[3][0]
    return None


def match_dof(t):
    """returns (N term, total term, form) if t is N - (M+P) in a recognised form"""
    if t[0] == "bin" and t[1] in ("Sub", "SubUnchecked"):
        n, tot = t[2], t[3]
        form = "sub"
    elif t[0] == "payload" and t[1][0] == "call" and t[1][1].endswith("checked_sub"):
        n, tot = t[1][3]
        form = "checked_sub"
    elif t[0] == "call" and (t[1].endswith("saturating_sub") or t[1].endswith("wrapping_sub")):
        n, tot = t[3]
        form = "saturating_sub"
    else:
        return None
    m = match_total(tot)
    if m is None:
        # N - M - P
        if n[0] == "bin" and n[1] == "Sub":
            return None
        return None
    if not (is_model_count(n, "output_len") and n[3][0] == m):
        return None
    return n, tot, form


def rule_dof_guard(F, ev, R, config, rule="R-DOF-GUARD", checked=True):
    try:
        role = dof_role(F, ev)
    except AnchorMissing as e:
        # no stored role: the degrees of freedom the constructor itself uses (the divisor of the reduced χ²), provided the
        # accessor derives its own from stored shapes (stats_roles checks that)
        role = None
        try:
            from rules_stats2 import stats_roles
            sr_ = stats_roles(F, ev)
        except AnchorMissing as e2:
            R.bad(rule, config, "-", "anchor-missing", str(e2))
            return
    ctors = stats_ctor_bodies(F)
    if not ctors:
        R.bad(rule, config, "-", "anchor-missing", "no constructor of FitStatistics found")
        return
    seen_under = set()
    for b, bi, si, s in ctors:
        ev.fresh_ctx()
        from rules_stats2 import lift_positional_ctor
        b, env, bi, agg, s = lift_positional_ctor(F, ev, b, bi, si, s)
        if role is not None:
            dof = dict(agg[3]).get(role)
        else:
            dof = None
            chi = dict(agg[3]).get(sr_["chi2"])
            for x in walk(chi) if chi else []:
                if x[0] == "call" and x[1].endswith("from_usize") and x[3] and match_dof(x[3][0]) is not None:
                    dof = x[3][0]
        md = match_dof(dof) if dof else None
        if md is None:
            R.bad(rule, config, b.key, "dof-term",
                  "degrees of freedom (field `%s`) is not N − (M+P) of the model counts: %s" % (role, short(dof) if dof else "?"),
                  s.get("span"))
            continue
        n, tot, form = md
        R.ok(rule, config, b.key, "dof-term", "dof = %s [%s]" % (short(dof), form), s.get("span"))
        g = Guards(ev, b, env)
        want = ("Lt", tot, n)
        rels, raw = g.relations_at(bi)
        if form == "checked_sub":
            # Some(N − total) only tells N ≥ total; N > total needs a positivity test of the difference
            okc = False
            for c in ev.ctx.assumed:
                if c[0] == "pred":
                    r = canon_rel(c[1], True)
                    if r and r[0] in ("Lt", "Ne") and ("const", "usize", 0) in (r[1], r[2]):
                        other = r[2] if r[1] == ("const", "usize", 0) else r[1]
                        if other == dof or (other[0] == "payload" and other == dof):
                            okc = True
                    if r and r[0] == "Le" and r[1] == ("const", "usize", 1) and r[2] == dof:
                        okc = True
            for r in rels:
                if r in (("Lt", ("const", "usize", 0), dof), ("Ne", ("const", "usize", 0), dof), ("Ne", dof, ("const", "usize", 0)), ("Le", ("const", "usize", 1), dof)):
                    okc = True
            for term, truth, sw in raw:
                # `Some(0)` pattern: integer switch on the difference, success on the non-zero edge
                if term == dof and truth is True:
                    okc = True
            okc = okc or want in rels
        else:
            okc = want in rels
        R.add(rule, config, b.key, "success-needs-N>M+P", okc,
              "" if okc else "the success value is built on a path where N > M+P is not established", s.get("span"))
        # overflow-checked subtraction sites
        if checked:
            for ab in sorted(b.live_blocks()):
                t = b.blocks[ab]["term"]
                if t["k"] == "assert" and t["msg"]["kind"] == "Overflow" and t["msg"]["op"] == "Sub":
                    a = ev.operand(env, t["msg"]["a"], (ab, None))
                    bb_ = ev.operand(env, t["msg"]["b"], (ab, None))
                    if a == n and bb_ == tot:
                        rels2, _ = g.relations_at(ab)
                        okk = ("Lt", tot, n) in rels2 or ("Le", tot, n) in rels2
                        R.add(rule, config, b.key, "sub-guarded", okk,
                              "" if okk else ("`%s - %s` (overflow-checked in this profile) is executed before/without the "
                                              "guard N > M+P: panics \"attempt to subtract with overflow\" when N < M+P"
                                              % (short(n), short(tot))), t.get("span"))
        # Err(Underdetermined) only under N <= M+P — in any of the recognised forms of that test
        def is_checked_sub(x):
            while x[0] in ("payload", "opt", "cf"):
                x = x[1]
            return x[0] == "call" and x[1].endswith("checked_sub") and x[3] == (n, tot)

        def defect_edges(g, xb):
            es = []
            for sw in g.switches:
                t = sw["term"]
                for truth in (True, False):
                    r = canon_rel(t, truth)
                    if r == ("Le", n, tot) or r == ("Lt", n, tot):
                        es.append(g.bool_edges(sw, truth))
                    # the difference is not positive
                    if r and is_checked_sub(r[1] if r[1][0] != "const" else r[2]):
                        p_, c_ = (r[1], r[2]) if r[2][0] == "const" else (r[2], r[1])
                        if (r[0] == "Eq" and c_ == ("const", "usize", 0)) or (r[0] == "Le" and r[1] == p_ and c_ == ("const", "usize", 0)) or \
                                (r[0] == "Lt" and r[1] == p_ and c_ == ("const", "usize", 1)):
                            es.append(g.bool_edges(sw, truth))
                if t[0] == "discr" and is_checked_sub(t[1]):
                    yes, no = variant_edge(xb, sw["block"], "None")
                    if yes:
                        es.append(yes)
                if t[0] == "payload" and is_checked_sub(t):
                    # integer switch on the difference: the value-0 edge
                    z = [(sw["block"], tg) for v, tg in sw["targets"] if v == 0]
                    if z:
                        es.append(z)
            return es

        # the mapping may live in the constructor or in a private helper it calls
        for xb, xenv in inlined_envs(ev, env):
            g2 = g if xb is b else Guards(ev, xb, xenv)
            for ebi, esi, es in xb.stmts():
                if es["k"] == "assign" and es["rv"]["k"] == "agg" and es["rv"].get("variant") == "Underdetermined":
                    seen_under.add((xb.key, ebi, esi))
                    edges = defect_edges(g2, xb)
                    okk = bool(edges) and g2.holds_on_all_paths_to(ebi, edges)
                    if not okk:
                        # Err(Underdetermined) as the `ok_or` alternative of the checked subtraction
                        cons = consumers(xb, es["place"]["l"])
                        if len(cons) == 1 and cons[0]["kind"] == "call" and cons[0]["cid"].rsplit("::", 1)[-1] in ("ok_or",):
                            recv = ev.operand(xenv, cons[0]["term"]["args"][0], (cons[0]["block"], None))
                            if contains(recv, lambda x: x[0] == "call" and x[1].endswith("checked_sub") and x[3] == (n, tot)):
                                okk = True
                        # … or of a value that is present exactly when N > M+P (`(n > total).then(..).ok_or(Underdetermined)`)
                        only_if = returned_only_if(ev, xb, xenv, es["place"]["l"]) if not es["place"]["proj"] else None
                        def same_sum(x, y):
                            if x == y:
                                return True
                            return x[0] == y[0] == "bin" and x[1] == y[1] == "Add" and sorted(map(repr, x[2:4])) == sorted(map(repr, y[2:4]))
                        for t_, tr in (only_if or []):
                            for t2, tr2 in expand_bool(t_, tr):
                                r_ = canon_rel(t2, tr2)
                                if r_ and r_[0] in ("Le", "Lt") and same_sum(r_[1], n) and same_sum(r_[2], tot):
                                    okk = True
                    R.add(rule, config, xb.key, "underdetermined-iff", okk,
                          "" if okk else "Err(Underdetermined) can be produced without N ≤ M+P", es.get("span"))
    # an Underdetermined error produced anywhere else in the crate is not covered by the analysis above
    for xb in F.bodies.values():
        if str(xb.j.get("impl", {}).get("trait", "")).startswith("std::"):
            continue   # derived Clone/PartialEq/... copy a variant, they do not decide it
        for ebi, esi, es in xb.stmts():
            if es["k"] == "assign" and es["rv"]["k"] == "agg" and es["rv"].get("variant") == "Underdetermined" and "statistics" in str(es["rv"].get("adt")):
                if (xb.key, ebi, esi) not in seen_under and (xb.key.split("::{closure")[0]) not in [k for k, _, _ in seen_under]:
                    R.bad(rule, config, xb.key, "underdetermined-iff", "Err(Underdetermined) is produced in code not reached from the statistics constructor (undetermined)", es.get("span"))
    R.floor(rule, config, 3, "dof term, success guard, Underdetermined mapping")


def rule_stats_err_map(F, ev, R, config, rule="R-STATS-ERR-MAP"):
    """fit_with_statistics: Ok only on successful report ∧ coefficients present ∧ try_calculate Ok;
    every other path returns Err(FitResult)"""
    bs = [b for b in inherent_methods(F, ADT_SOLVER) if b.j.get("output", "").startswith("std::result::Result<(") and ADT_STATS in b.j.get("output", "")]
    if len(bs) != 1:
        R.bad(rule, config, "-", "anchor-missing", "fit_with_statistics not identified (%d candidates)" % len(bs))
        return
    b = bs[0]
    env = Env(b)
    g = Guards(ev, b, env)
    ok_sites = []
    for bi, si, s in b.stmts():
        if s["k"] == "assign" and s["place"]["l"] == 0 and not s["place"]["proj"] and s["rv"]["k"] == "agg" and s["rv"].get("variant") == "Ok":
            ok_sites.append((bi, si, s))
    if not ok_sites:
        R.bad(rule, config, b.key, "anchor-missing", "no Ok(..) return")
        return
    for bi, si, s in ok_sites:
        rels, raw = g.relations_at(bi)
        have = {"successful": False, "coefficients": False, "statistics": False}
        for term, vals, sw in raw:
            # (1) was_successful(report) == true
            if contains(term, lambda x: x[0] == "call" and x[1].endswith("TerminationReason::was_successful")):
                t2, truth = term, vals
                neg = False
                while t2[0] == "un" and t2[1] == "Not":
                    t2 = t2[2]
                    neg = not neg
                if isinstance(vals, bool) and (vals != neg):
                    have["successful"] = True
            if term[0] == "discr":
                variants, _, _ = discr_variants(sw.get("body", b), sw["block"])
                names = dict(variants or [])
                vs = [names.get(v) for v in vals if v != "otherwise"] if isinstance(vals, tuple) else []
                inner = term[1]
                # (2) linear coefficients present
                if vs and all(v == "Some" for v in vs) and contains(inner, lambda x: x[0] == "field" and x[2] in ("linear_coefficients",) or (x[0] == "call" and "linear_coefficients" in x[1])):
                    have["coefficients"] = True
                if vs and all(v == "Some" for v in vs) and contains(inner, lambda x: x[0] == "field" and x[1][0] != "param"):
                    pass
                # (3) try_calculate returned Ok
                if vs and all(v in ("Ok", "Continue", "Some") for v in vs) and contains(inner, lambda x: x[0] == "agg" and x[1] == ADT_STATS or (x[0] == "call" and "try_calculate" in x[1])):
                    have["statistics"] = True
        for k2, v in have.items():
            R.add(rule, config, b.key, "ok-needs-" + k2, v, "" if v else "Ok((result, statistics)) is reachable without `%s`" % k2, s.get("span"))
    # the fit itself must be propagated: its Err is returned as Err
    # every return value is Ok(..) (checked above) or Err(FitResult)/residual of fit
    rv = ev.ret_val(Env(b))
    alts = rv[1] if rv[0] == "phi" else (rv,)
    for a in alts:
        if a[0] == "agg" and a[2] == "Ok":
            continue
        if a[0] == "agg" and a[2] == "Err":
            payload = a[3][0][1]
            okp = payload[0] == "agg" and payload[1] == ADT_FITRESULT
            R.add(rule, config, b.key, "err-carries-fitresult", okp, "" if okp else "Err payload is not the fit result: " + short(payload))
            continue
        if a[0] == "from_residual":
            R.ok(rule, config, b.key, "fit-error-propagated", "`?` on fit()")
            continue
        R.bad(rule, config, b.key, "return-shape", "unrecognised return value " + short(a))
    R.floor(rule, config, 3, "three success conditions")
