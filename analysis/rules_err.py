"""Error-discipline and absent-on-failure rules (C09, shared with C02/C03/C10)."""
from core import *
from flow import consumers

OPTION_OK_CONSUMERS = {
    # Option/Result combinators that keep "absent stays absent"
    "map", "and_then", "zip", "as_ref", "filter", "ok_or", "ok_or_else", "map_err", "as_deref", "cloned", "copied",
    "ok", "is_some", "is_none", "is_ok", "is_err", "transpose", "flatten", "zip_with", "xor", "or_else_none",
    "unzip",
}
FORBIDDEN = {
    "unwrap", "expect", "unwrap_or", "unwrap_or_else", "unwrap_or_default", "unwrap_unchecked", "expect_err",
    "unwrap_err", "or", "or_else", "get_or_insert", "get_or_insert_with", "insert", "unwrap_or_else_default",
    "map_or", "map_or_else", "is_some_and", "is_none_or", "is_ok_and", "is_err_and",
}


def cache_write_kind(ev, env, s, point):
    v = ev.rvalue(env, s["rv"], point)
    if v[0] == "none":
        return "none", v
    if v[0] == "opt":
        return "some", v
    return "other", v


def cache_writes(F, ev, body, roles):
    """[(block, stmt idx, kind, term)] for assignments to self.<cache role>"""
    env = Env(body)
    out = []
    for bi, si, s in body.stmts():
        if s["k"] != "assign":
            continue
        p = s["place"]
        fs = [e for e in p["proj"] if e["k"] == "field"]
        if fs and fs[0].get("owner") == ADT_PROBLEM and fs[0]["name"] == roles["cache"]:
            if len(fs) == 1 and not any(e["k"] == "downcast" for e in p["proj"]):
                kind, v = cache_write_kind(ev, env, s, (bi, si))
                if kind == "other" and v[0] == "phi" and all(a[0] == "opt" or is_absent_value(a) for a in v[1]):
                    # the value of a helper returning Option (early `?` returns and one Some(..)): one sink per alternative
                    if any(is_absent_value(a) for a in v[1]):
                        out.append((bi, si, "none", ("none",), s))
                    for a in v[1]:
                        if a[0] == "opt":
                            out.append((bi, si, "some", a, s))
                    continue
            else:
                kind, v = "partial", None
            out.append((bi, si, kind, v, s))
    return out


def classify_result_use(F, ev, body, call_block, R, rule, config, roles, depth=0):
    """classify what happens to the Result returned by the model call in `call_block`.
    returns (ok, how, msg)"""
    t = body.blocks[call_block]["term"]
    dest = t["dest"]
    if dest["proj"]:
        return False, "stored", "result stored into a projected place"
    cons = consumers(body, dest["l"])
    return classify_consumers(F, ev, body, call_block, dest["l"], cons, roles, depth)


ITER_DROPPERS = ("flat_map", "flat_map_iter", "filter_map", "flatten", "for_each", "inspect", "map_while", "take_while", "skip_while", "scan",
                 "filter", "any", "all", "position", "find", "find_map", "count", "last", "max_by", "min_by")
ITER_PASS = ("enumerate", "zip", "skip", "take", "rev", "peekable", "chain", "cloned", "copied", "by_ref", "into_iter", "iter", "with_min_len", "with_max_len")
ITER_COLLECT = ("collect", "from_iter", "from_par_iter", "try_for_each", "try_fold", "sum", "product", "collect_into_vec")


def closure_result_delivery(F, body, depth=0):
    """a Result/Option that a CLOSURE returns is delivered to whatever drives the closure. (ok, how, msg):
    an iterator adapter that discards or flattens it (`flat_map`, `filter_map`, `for_each`, …) loses the failure;
    `map` must end in a collector into Result/Option (`collect::<Result<_,_>>()`, `try_*`, `sum`); Option/Result
    combinators and direct calls keep it (their result is followed by the caller's own classification)"""
    parent = F.bodies.get(body.j.get("parent"))
    if parent is None or depth > 3:
        return True, "closure-result", ""
    made = [(bi, si, st) for bi, si, st in parent.stmts() if st["k"] == "assign" and st["rv"]["k"] == "agg" and st["rv"].get("agg") == "closure"
            and st["rv"].get("closure") == body.key and not st["place"]["proj"]]
    if len(made) != 1:
        return True, "closure-result", ""
    drivers = [c for c in consumers(parent, made[0][2]["place"]["l"]) if c["kind"] == "call"]
    if len(drivers) != 1:
        return True, "closure-result", ""
    c = drivers[0]
    cid = c["cid"]
    m = cid.rsplit("::", 1)[-1]
    is_iter = "iter::" in cid or "Iterator" in cid or cid.startswith("rayon::")
    if not is_iter:
        return True, "closure-result→" + m, ""
    if m in ITER_DROPPERS:
        return False, m, "the closure's Result/Option is handed to the iterator adapter `%s`, which discards failures: the error is silently dropped" % m
    if m in ("try_for_each", "try_fold", "try_for_each_with", "try_for_each_init"):
        # the driver stops at the first failure and returns it: that result must go on to `?`, a match or the caller
        d = c["term"]["dest"]
        nxt = [] if d["proj"] else consumers(parent, d["l"])
        if any(x["kind"] in ("discr", "return", "switch") or (x["kind"] == "call" and x["cid"].rsplit("::", 1)[-1] in ("branch", "map_err", "map", "and_then", "or_else", "ok", "is_err", "is_ok"))
               for x in nxt):
            return True, m, ""
        return False, m, "the Result of `%s` (the first failure of the closure) is not looked at" % m
    if m not in ("map", "map_with", "map_init"):
        return False, m, "the closure's Result/Option is handed to the iterator adapter `%s` (unmodelled, undetermined)" % m
    # follow the mapped iterator to its terminal
    cur = c["term"]["dest"]
    for _ in range(8):
        if cur["proj"]:
            return False, "stored", "mapped iterator stored (undetermined)"
        nxt = [x for x in consumers(parent, cur["l"]) if x["kind"] == "call"]
        if len(nxt) != 1:
            return False, "iter", "the iterator of Results is not consumed by one collector (undetermined)"
        n_ = nxt[0]["cid"].rsplit("::", 1)[-1]
        if n_ in ITER_PASS:
            cur = nxt[0]["term"]["dest"]
            continue
        if n_ in ITER_COLLECT:
            ty = parent.local_ty(nxt[0]["term"]["dest"]["l"]) or ""
            if n_ in ("try_for_each", "try_fold") or ty.startswith("std::result::Result<") or ty.startswith("std::option::Option<"):
                return True, "map→" + n_, ""
            return False, n_, "the Results are collected into `%s`, which cannot carry the failure" % ty[:60]
        if n_ in ITER_DROPPERS:
            return False, n_, "the iterator of Results is consumed by `%s`, which discards failures" % n_
        return False, n_, "the iterator of Results is consumed by `%s` (unmodelled, undetermined)" % n_
    return False, "iter", "adapter chain too long (undetermined)"


def classify_consumers(F, ev, body, call_block, local, cons, roles, depth):
    if body.kind == "Closure" and not cons and local is not None:
        # the call result is the closure's return value itself (`|k| model.eval_partial_deriv(k)`)
        t0 = body.blocks[call_block]["term"] if call_block is not None else None
        if t0 is not None and t0.get("dest", {}).get("l") == 0:
            ok, how, msg = closure_result_delivery(F, body)
            return (ok, "returned→" + how, msg)
    if not cons:
        return False, "discarded", "the Result is discarded (no consumer)"
    hows = []
    for c in cons:
        k = c["kind"]
        if k == "call":
            cid = c["cid"]
            m = cid.rsplit("::", 1)[-1]
            if cid == "std::ops::Try::branch":
                hows.append("?")
                continue
            if cid.startswith("std::result::Result::") or cid.startswith("std::option::Option::"):
                if m in FORBIDDEN:
                    return False, m, "failure is turned into a panic or a substitute value by `%s`" % m
                if m in ("is_err", "is_ok", "is_some", "is_none"):
                    ok, msg = check_branch_absent(F, ev, body, c, roles)
                    if not ok:
                        return False, "branch", msg
                    hows.append("branch-absent")
                    continue
                if m in OPTION_OK_CONSUMERS:
                    # follow the produced Option/Result
                    d = c["term"]["dest"]
                    if d["proj"]:
                        return False, "stored", "converted result stored into a projected place"
                    if d["l"] == 0:
                        if body.kind == "Closure":
                            ok, how, msg = closure_result_delivery(F, body)
                            if not ok:
                                return False, how, msg
                        hows.append(m + "→returned")   # handed to the caller as an absent value
                        continue
                    sub = consumers(body, d["l"])
                    if m == "unzip":
                        # Option<(A, B)> -> (Option<A>, Option<B>): both components are absent when the pair is; each
                        # component read out of the tuple is followed like the original
                        parts_ = []
                        for c2 in sub:
                            if c2["kind"] == "field" and "stmt" in c2:
                                st2 = body.blocks[c2["block"]]["stmts"][c2["stmt"]]
                                if st2["k"] == "assign" and not st2["place"]["proj"]:
                                    parts_.append(st2["place"]["l"])
                                    continue
                            parts_ = None
                            break
                        if not parts_:
                            return False, m, "the pair of Options produced by `unzip` is not taken apart into its components (undetermined)"
                        for pl in parts_:
                            ok, how, msg = classify_consumers(F, ev, body, call_block, pl, consumers(body, pl), roles, depth + 1)
                            if not ok:
                                return ok, how, msg
                            hows.append("unzip→" + how)
                        continue
                    ok, how, msg = classify_consumers(F, ev, body, call_block, d["l"], sub, roles, depth + 1)
                    if not ok:
                        return ok, how, msg
                    hows.append(m + "→" + how)
                    continue
                return False, m, "unmodelled Result/Option consumer `%s` (undetermined)" % m
            if cid in ("std::ops::FromResidual::from_residual",):
                hows.append("?")
                continue
            if cid == "std::clone::Clone::clone":
                # a copy of the Option/Result is absent exactly when the original is: follow it like the original
                d = c["term"]["dest"]
                if d["proj"]:
                    return False, "stored", "copied result stored into a projected place"
                sub = consumers(body, d["l"])
                ok, how, msg = classify_consumers(F, ev, body, call_block, d["l"], sub, roles, depth + 1)
                if not ok:
                    return ok, how, msg
                hows.append("clone→" + how)
                continue
            if cid.endswith("::collect") or cid.endswith("FromIterator::from_iter"):
                hows.append("collected")
                continue
            return False, cid, "Result passed to unmodelled callee %s (undetermined)" % cid
        if k == "discr" and body.blocks[c["block"]]["term"]["k"] != "switch":
            continue  # drop-elaboration re-read of the discriminant, not a test
        if k in ("discr", "switch") and is_cleanup_region(body, c["block"], c.get("stmt")):
            continue  # drop ladder at the end of the function
        if k == "discr" and feasible_variants(body, c["block"]) is not None:
            continue  # re-test (drop elaboration) on an arm of an earlier test of the same value: covered by that test
        if k in ("discr", "switch"):
            ok, msg = check_match_absent(F, ev, body, c, local, roles)
            if not ok:
                return False, "match", msg
            hows.append("match-absent")
            continue
        if k == "return":
            if body.kind == "Closure":
                ok, how, msg = closure_result_delivery(F, body)
                if not ok:
                    return False, how, msg
            hows.append("returned")
            continue
        if k == "field":
            # payload read: fine only under a discriminant test, which is a separate consumer
            hows.append("payload")
            continue
        if k == "agg":
            rv = c["rv"]
            if rv["agg"] == "tuple":
                hows.append("tupled")
                continue
            return False, "agg", "Result moved into an aggregate (undetermined)"
        if k == "store" and roles is not None and "stmt" in c:
            # `self.cache = r.ok().zip(..).map(..)`: the derived Option is stored as the cache itself. Accepted when the
            # stored value is present only if this model call succeeded (its success is among the presence conditions)
            fs = [e for e in c["place"]["proj"] if e["k"] == "field"]
            whole = len(fs) == 1 and fs[0].get("owner") == ADT_PROBLEM and fs[0]["name"] == roles["cache"] and \
                not any(e["k"] == "downcast" for e in c["place"]["proj"])
            if whole:
                from rules_panic import nosite
                env = Env(body)
                st = body.blocks[c["block"]]["stmts"][c["stmt"]]
                try:
                    v = ev.rvalue(env, st["rv"], (c["block"], c["stmt"]))
                    callv = nosite(ev.call_val(env, call_block))
                except RecursionError:
                    v, callv = None, None
                alts = v[1] if v is not None and v[0] == "phi" else (v,)
                good = v is not None and all(
                    a is not None and (a[0] == "none" or is_absent_value(a) or
                                       (a[0] == "opt" and any(x[0] == "is_ok" and nosite(x[1]) == callv for x in a[2]))) for a in alts)
                if good:
                    hows.append("stored-as-cache(present⇒success)")
                    continue
                return False, "store", "the derived value `%s` is stored as the cache, but its presence does not imply that the model call succeeded" % short(v)[:120]
        return False, k, "unmodelled use of the Result (%s)" % k
    if all(h == "payload" for h in hows):
        return False, "payload", "payload read without test"
    return True, "+".join(sorted(set(hows))), ""


def check_branch_absent(F, ev, body, c, roles):
    """`if r.is_err() {..}`-style test: from the failure edge every path to return must
    leave the cache role None and must not write Some"""
    t = c["term"]
    m = c["cid"].rsplit("::", 1)[-1]
    d = t["dest"]
    if d["proj"]:
        return False, "test result stored"
    # find the switch on the bool
    sw_blocks = []
    for bi in sorted(body.live_blocks()):
        tt = body.blocks[bi]["term"]
        if tt["k"] == "switch" and tt["op"]["k"] in ("copy", "move") and tt["op"]["place"]["l"] == d["l"]:
            sw_blocks.append(bi)
    if not sw_blocks:
        return False, "result of `%s` is not branched on (undetermined)" % m
    fail_truth = m in ("is_err", "is_none")
    for sb in sw_blocks:
        tt = body.blocks[sb]["term"]
        zero = [tg for v, tg in tt["targets"] if v == 0]
        nonzero = [tg for v, tg in tt["targets"] if v != 0] or [tt["otherwise"]]
        fail_targets = nonzero if fail_truth else zero
        ok_targets = zero if fail_truth else nonzero
        for ft in fail_targets:
            ok, msg = failure_edge_is_absent(F, ev, body, sb, ft, ok_targets, roles)
            if not ok:
                return False, msg
    return True, ""


def check_match_absent(F, ev, body, c, local, roles):
    bi = c["block"]
    # the discriminant is switched on in the same block (MIR building) or via a temp
    tt = body.blocks[bi]["term"]
    if tt["k"] != "switch":
        return False, "discriminant read without a switch (undetermined)"
    variants, adt_, place = discr_variants(body, bi)
    if not variants:
        return False, "no variant table"
    names = dict(variants)
    feas = feasible_variants(body, bi)
    fail_vals = [v for v, n in variants if n in ("Err", "None") and (feas is None or n in feas)]
    listed = dict((v, tg) for v, tg in tt["targets"])
    for v in fail_vals:
        ft = listed.get(v, tt["otherwise"])
        oks = [listed.get(v2, tt["otherwise"]) for v2, n in variants if n not in ("Err", "None")]
        ok, msg = failure_edge_is_absent(F, ev, body, bi, ft, oks, roles)
        if not ok:
            return False, msg
    return True, ""


def failure_edge_is_absent(F, ev, body, sw_block, fail_target, ok_targets, roles):
    """from the failure edge: (a) in a method writing the cache role: no `Some` write is
    reachable and every path to return passes a `None` write; (b) otherwise every path to
    return yields an absent value (None / Err) in _0"""
    if fail_target in ok_targets:
        return False, "failure and success edges coincide"
    reach = body.reachable(fail_target)
    if roles is not None:
        cw = cache_writes(F, ev, body, roles)
    else:
        cw = []
    if cw:
        # what each write stores ON PATHS THROUGH THE FAILURE EDGE (a single `cache = match r { Ok => compute(), Err => None }`
        # stores None there although the statement also stores Some on other paths)
        region0 = reach
        env_f = Env(body)
        env_f.pred_filter = lambda p, b, region=region0: not (b in region and p not in region and (p, b) != (sw_block, fail_target))
        ev_f = Eval(F, opaque=ev.opaque)
        kinds = {}
        for (b, si, kind, v, s) in cw:
            if b not in reach or kind == "partial":
                continue
            if (b, si) in kinds:
                continue
            try:
                vf = ev_f.rvalue(env_f, s["rv"], (b, si))
            except RecursionError:
                vf = v
            kinds[(b, si)] = "none" if (vf is not None and (vf[0] == "none" or is_absent_value(vf))) else "some"
        some_blocks = [b for (b, si, kind, v, s) in cw if (kinds.get((b, si)) == "some") or (b not in reach and kind != "none")]
        none_blocks = [b for (b, si, kind, v, s) in cw if kinds.get((b, si)) == "none" or (b not in reach and kind == "none")]
        bad = [b for b in some_blocks if b in reach]
        if bad:
            s = [x for x in cw if x[0] == bad[0]][0][4]
            return False, ("after the model reports an error (edge bb%d→bb%d) execution can still reach the write "
                           "`cache = Some(..)` at %s: stale or mis-attributed state" % (sw_block, fail_target, loc_of(s["span"])))
        exits = [e for e in body.exits() if e in reach]
        r2 = body.reachable(fail_target, avoid=set(none_blocks))
        if fail_target not in none_blocks and any(e in r2 for e in exits):
            # no None write AFTER the failure — the cache may have been emptied BEFORE the model call ("invalidate first,
            # then early returns"): what counts is the value of the cache at the returns reached through the failure edge
            from terms import place_key
            pk = place_key(cw[0][4]["place"])
            try:
                vals = [ev_f.lookup(env_f, pk, (e, None)) for e in exits]
            except RecursionError:
                vals = [None]
            if vals and all(v is not None and (v[0] == "none" or is_absent_value(v) or
                                               (v[0] == "phi" and all(a[0] == "none" or is_absent_value(a) for a in v[1]))) for v in vals):
                return True, ""
            return False, "a path from the failure edge reaches return without emptying the cache"
        return True, ""
    # (b) the function has no cache to empty: on every path *through the failure edge* it must
    # return an absent value. Path restriction: the backward walk may enter the region reachable
    # from the failure target only through the failure edge itself.
    region = body.reachable(fail_target)
    exits = [e for e in body.exits() if e in region]
    if not exits:
        return True, ""   # the failure edge diverges / never returns normally
    env2 = Env(body)
    env2.pred_filter = lambda p, b, region=region: not (b in region and p not in region and (p, b) != (sw_block, fail_target))
    env2.exit_filter = lambda e, region=region: e in region
    ev2 = Eval(F, opaque=ev.opaque)
    v = ev2.ret_val(env2)
    if is_absent_value(v):
        return True, ""
    return False, "on the failure edge the function returns `%s`, not an absent value" % short(v)[:120]


def rule_err_discipline(F, ev, R, config, rule="R-ERR-DISCIPLINE", scope=None):
    scope_keys = None
    if scope == "statistics":
        from rules_panic import stats_scope
        scope_keys = stats_scope(F)
    try:
        roles = problem_roles(F)
    except AnchorMissing as e:
        R.bad(rule, config, "-", "anchor-missing", str(e))
        return
    n = 0
    per_method = {}
    for b in sorted(F.bodies.values(), key=lambda b: b.key):
        if scope_keys is not None and b.key not in scope_keys:
            continue
        for bi, t in b.calls():
            if not is_model_call(t):
                continue
            name = t["fn"]["name"]
            if name not in ("set_params", "eval", "eval_partial_deriv"):
                continue
            # model's own impl calling itself is out of scope (SeparableModel internals)
            n += 1
            per_method[name] = per_method.get(name, 0) + 1
            idx = per_method[name]
            root = b.j.get("root", b.key)
            has_cache = any(x.j.get("impl", {}).get("self_adt") == ADT_PROBLEM for x in [F.bodies.get(root, b)])
            ok, how, msg = classify_result_use(F, ev, b, bi, R, rule, config, roles if has_cache else None)
            inst = "%s#%d" % (name, sum(1 for i in R.instances if i["rule"] == rule and i["config"] == config and i["fn"] == b.key and i["inst"].startswith(name + "#")) + 1)
            loc = t.get("span")
            if ok:
                R.ok(rule, config, b.key, inst, "model error handled by: " + how, loc)
            else:
                R.bad(rule, config, b.key, inst, "Model::%s result: %s" % (name, msg), loc, {"how": how})
    return n


def rule_jac_absent(F, ev, R, config, rule="R-JAC-ABSENT"):
    """`Some(J)` is returned only through the Ok edge of the collected per-column results,
    and None if the cache is empty"""
    try:
        roles = problem_roles(F)
    except AnchorMissing as e:
        R.bad(rule, config, "-", "anchor-missing", str(e))
        return
    for self_ty, methods in sorted(lsp_impls(F).items()):
        b = methods.get("jacobian")
        if b is None:
            R.bad(rule, config, self_ty, "anchor-missing", "no jacobian() in LeastSquaresProblem impl")
            continue
        fl = flavour_of(self_ty)
        # success returns: assignments _0 = Some(..)
        some_sites = []
        for bi, si, s in b.stmts():
            if s["k"] == "assign" and s["place"]["l"] == 0 and not s["place"]["proj"]:
                rv = s["rv"]
                if rv["k"] == "agg" and rv.get("variant") == "Some":
                    some_sites.append((bi, si, s))
        if not some_sites:
            R.bad(rule, config, b.key, "anchor-missing", "no `Some(..)` return found in jacobian()")
            continue
        # fallible per-column results: calls to closures/loops that evaluate derivatives.
        # Find every call in this body (not closures) whose result type is a Result and
        # whose evaluation involves a model derivative call.
        deriv_sites = []
        for cb in body_and_closures(F, b):
            for bi, t in cb.calls():
                if is_model_call(t, "eval_partial_deriv") or calls_model_transitively(F, t, "eval_partial_deriv"):
                    deriv_sites.append((cb, bi, t))
        if not deriv_sites:
            R.bad(rule, config, b.key, "anchor-missing", "jacobian() evaluates no partial derivative")
            continue
        for cb, dbi, dt in deriv_sites:
            if cb is b:
                # direct call in the body: the Err edge must not reach a Some return
                ok = True
                msg = ""
                cons = consumers(b, dt["dest"]["l"])
                if not any(c["kind"] == "call" and c["cid"] == "std::ops::Try::branch" for c in cons):
                    ok, how, msg = classify_result_use(F, ev, b, dbi, R, rule, config, None)
                R.add(rule, config, b.key, "deriv-direct@%s" % fl, ok, msg or "derivative error leaves via ?", dt.get("span"))
                continue
            # derivative evaluated inside a closure: find the local of b that holds the
            # collected Result (a Result-typed local produced by a call taking the closure chain)
            res_locals = []
            for bi, t in b.calls():
                d = t["dest"]
                ty = b.local_ty(d["l"])
                if not d["proj"] and (ty.startswith("std::result::Result<") or ty.startswith("std::option::Option<")) and "fn" in t:
                    cid = callee_id(t["fn"])
                    if cid.endswith("::collect") or cid.endswith("::try_for_each") or cid.endswith("::try_fold") or cid.endswith("from_iter"):
                        # (an Option-valued closure — `eval_partial_deriv(k).ok()?; …; Some(())` — makes try_for_each an Option)
                        res_locals.append((bi, d["l"], cid))
            if not res_locals:
                R.bad(rule, config, b.key, "collected@%s" % fl,
                      "derivatives are evaluated in a closure but no collected Result was found (undetermined)", dt.get("span"))
                continue
            for rbi, rl, cid in res_locals:
                # the Some return must be reachable only through the Ok edge of a test on rl
                ok, msg = some_only_via_ok(F, ev, b, rl, rbi, [x[0] for x in some_sites])
                R.add(rule, config, b.key, "collected@%s" % fl, ok,
                      msg or "Some(J) reachable only through the Ok edge of the collected result", b.blocks[rbi]["term"].get("span"))
        # cache empty => None: every Some site is dominated by a Some-edge on the cache role
        g = Guards(ev, b)
        for (bi, si, s) in some_sites:
            rels, raw = g.relations_at(bi)
            found = False
            for term, vals, sw in raw:
                if term[0] == "discr":
                    inner = term[1]
                    if contains(inner, lambda x: x[0] == "field" and x[2] == roles["cache"]):
                        variants, _, _ = discr_variants(sw.get("body", b), sw["block"])
                        names = dict(variants or [])
                        if isinstance(vals, tuple) and all(names.get(v) in ("Some", "Continue", "Ok") for v in vals if v != "otherwise") and vals:
                            found = True   # `if let Some(c) = cache`, `match`, or `let c = cache.as_ref()?` (Continue edge of `?`)
            R.add(rule, config, b.key, "needs-cache@%s" % fl, found,
                  "" if found else "Some(J) is not dominated by a test that the cache is present", s.get("span"))


def calls_model_transitively(F, t, name, depth=0):
    """the call `t` targets a local fallible helper that (transitively) performs Model::<name>;
    the helper's own handling of the model call's result is a separate R-ERR-DISCIPLINE instance"""
    if t["k"] != "call" or "fn" not in t or depth > 4:
        return False
    k = t["fn"].get("resolved_key") or t["fn"].get("key")
    cb = F.bodies.get(k)
    if cb is None:
        return False
    out = cb.j.get("output", "")
    if not (out.startswith("std::result::Result<") or out.startswith("std::option::Option<")):
        return False
    for x in body_and_closures(F, cb):
        for bi, t2 in x.calls():
            if is_model_call(t2, name) or calls_model_transitively(F, t2, name, depth + 1):
                return True
    return False


def some_only_via_ok(F, ev, b, res_local, res_block, some_blocks):
    """every path from the definition of res_local to a Some-return passes the Ok/Some edge
    of a test of res_local (via `.ok()?`, `?`, `is_err` + early return, match)"""
    ok_edges = []
    # follow conversions: res_local -> .ok() -> Try::branch -> switch(Continue)
    frontier = [(res_local, "result")]
    seen = set()
    while frontier:
        l, kind = frontier.pop()
        if l in seen:
            continue
        seen.add(l)
        for c in consumers(b, l, follow=True):
            if c["kind"] == "call":
                cid = c["cid"]
                m = cid.rsplit("::", 1)[-1]
                d = c["term"]["dest"]
                if cid == "std::ops::Try::branch":
                    # switch on discriminant of the ControlFlow
                    for c2 in consumers(b, d["l"]):
                        if c2["kind"] in ("discr",):
                            yes, no = variant_edge(b, c2["block"], "Continue")
                            if yes:
                                ok_edges.append(yes)
                elif (cid.startswith("std::result::Result::") or cid.startswith("std::option::Option::")) and m in ("ok", "as_ref", "map", "map_err", "ok_or", "ok_or_else"):
                    if not d["proj"]:
                        frontier.append((d["l"], "opt"))
                elif m in ("is_ok", "is_some", "is_err", "is_none") and not d["proj"]:
                    for bi in sorted(b.live_blocks()):
                        tt = b.blocks[bi]["term"]
                        if tt["k"] == "switch" and tt["op"]["k"] in ("copy", "move") and tt["op"]["place"]["l"] == d["l"]:
                            zero = [(bi, tg) for v, tg in tt["targets"] if v == 0]
                            nonzero = [(bi, tg) for v, tg in tt["targets"] if v != 0] or [(bi, tt["otherwise"])]
                            ok_edges.append(nonzero if m in ("is_ok", "is_some") else zero)
            elif c["kind"] == "discr":
                for vn in ("Ok", "Some"):
                    yes, no = variant_edge(b, c["block"], vn)
                    if yes:
                        ok_edges.append(yes)
    if not ok_edges:
        return False, ("the collected per-column Result is never tested before `Some(jacobian)` is returned: "
                       "a failed derivative yields a partially written matrix")
    # removing ALL ok-edges of at least one test must disconnect res_block from every Some block
    for edges in ok_edges:
        r = b.reachable(res_block, avoid_edges=set(edges))
        if not any(sb in r for sb in some_blocks):
            return True, ""
    return False, "a path from the collected Result to `Some(jacobian)` bypasses the Ok edge"
