#!/usr/bin/env python3
"""E6 — checker self-validation: apply a seeded patch (mutant or benign rewrite) to a scratch
copy of /repo's current tree, re-extract facts and run the rules of the given properties.

  mutants.py run <patch.diff> <Cxx> [<Cyy> ...]     -> prints violated instance keys
  mutants.py corpus [<Cxx>]                          -> replays /verif/seeded/*/ against their properties

A patch that no longer applies to the current tree is reported `skipped`; this tool
never produces a VIOLATION line for the property itself (it measures the checker)."""
import json
import os
import shutil
import subprocess
import sys
import tempfile

HERE = os.path.dirname(os.path.abspath(__file__))
VERIF = os.path.dirname(HERE)
sys.path.insert(0, HERE)
import extract  # noqa
import props  # noqa
from core import Report, Facts, AnchorMissing  # noqa


def scratch_copy(repo):
    d = tempfile.mkdtemp(prefix="vpm-")
    for name in ("src", "Cargo.toml", "Cargo.lock", "shared_test_code", "benches", "tests", "README.md"):
        s = os.path.join(repo, name)
        if os.path.isdir(s):
            shutil.copytree(s, os.path.join(d, name), ignore=shutil.ignore_patterns("target"))
        elif os.path.exists(s):
            shutil.copy2(s, os.path.join(d, name))
    return d


def apply_patch(d, patch):
    r = subprocess.run(["git", "apply", "--whitespace=nowarn", "-p1", os.path.abspath(patch)], cwd=d,
                       stdout=subprocess.PIPE, stderr=subprocess.STDOUT, text=True)
    if r.returncode != 0:
        r2 = subprocess.run(["patch", "-p1", "-s", "-f", "-i", os.path.abspath(patch)], cwd=d,
                            stdout=subprocess.PIPE, stderr=subprocess.STDOUT, text=True)
        if r2.returncode != 0:
            return False, r.stdout + r2.stdout
    return True, ""


def run_props(repo, prop_ids, configs=None):
    """returns {prop: [violated instance dicts]} plus build errors"""
    out = {}
    facts_cache = {}
    import rules_lm
    rules_lm.REPO = repo
    for pid in prop_ids:
        spec = props.PROPS[pid]
        R = Report(pid)
        for c in (configs or spec["configs"]):
            if c not in facts_cache:
                path, info = extract.extract(repo, c)
                facts_cache[c] = (Facts(path) if path else None, info)
            F, info = facts_cache[c]
            if F is None:
                R.bad("E1-EXTRACT", c, "-", "build", "does not compile: " + (info.get("error") or "")[-600:])
                continue
            for rule_name, fn, kwargs in spec["rules"]:
                only = kwargs.get("configs")
                if only and c not in only:
                    continue
                kw = {k: v for k, v in kwargs.items() if k != "configs"}
                try:
                    fn(F, props.make_eval(F), R, c, **kw)
                except AnchorMissing as e:
                    R.bad(rule_name, c, "-", "anchor-missing", str(e))
                except RecursionError:
                    R.bad(rule_name, c, "-", "engine", "recursion limit")
                except Exception as e:
                    R.bad(rule_name, c, "-", "engine", "rule crashed: %s: %s" % (type(e).__name__, e))
        R.finish_floors()
        out[pid] = R.violations()
    return out


def run_patch(patch, prop_ids, repo="/repo", keep=False):
    d = scratch_copy(repo)
    try:
        ok, msg = apply_patch(d, patch)
        if not ok:
            return {"status": "skipped", "reason": "patch does not apply to the current tree: " + msg[-300:]}
        res = run_props(d, prop_ids)
        return {"status": "ran", "violations": res}
    finally:
        if not keep:
            shutil.rmtree(d, ignore_errors=True)


def _corpus_entry(job):
    name, pid, kind, check_props, patch, repo = job
    from terms import run_with_big_stack
    r = run_with_big_stack(run_patch, patch, check_props, repo)
    if r["status"] == "skipped":
        return (name, pid, kind, "skipped", r["reason"])
    nv = sum(len(v) for v in r["violations"].values())
    first = next((v[0] for v in r["violations"].values() if v), None)
    if kind == "mutant":
        return (name, pid, kind, "caught" if nv else "MISSED", first["key"] if first else "")
    rules = sorted(set(v["rule"] for vs in r["violations"].values() for v in vs))
    if kind == "review":
        # a behaviour-preserving change that is reported BY DESIGN (re-implementation of a library call, numerical
        # identity, value-dependent fast path, new interior mutability / call site): recorded so that the boundary of
        # the approach is part of the corpus; becoming silent later is an improvement, not an error
        return (name, pid, kind, "reported" if nv else "accepted", ",".join(rules))
    return (name, pid, kind, "silent" if not nv else "FALSE-ALARM", ",".join(rules))


def corpus(only=None, repo="/repo", jobs=None, names=None):
    root = os.path.join(VERIF, "seeded")
    todo = []
    for name in sorted(os.listdir(root)) if os.path.isdir(root) else []:
        mp = os.path.join(root, name, "meta.json")
        if not os.path.exists(mp):
            continue
        if names and not any(name.startswith(n) for n in names):
            continue
        meta = json.load(open(mp))
        pid = meta.get("property")
        kind = meta.get("kind", "mutant")
        check_props = meta.get("check_with", [pid])
        if only and (only not in check_props):
            continue
        if only:
            check_props = [only]
        patch = os.path.join(root, name, "patch.diff")
        todo.append((name, pid, kind, [p for p in check_props if p in props.PROPS], patch, repo))
    jobs = jobs or int(os.environ.get("VP_JOBS", "0")) or min(12, os.cpu_count() or 1)
    if jobs <= 1 or len(todo) <= 1:
        return [_corpus_entry(j) for j in todo]
    import concurrent.futures
    with concurrent.futures.ProcessPoolExecutor(max_workers=jobs) as ex:
        return list(ex.map(_corpus_entry, todo))


if __name__ == "__main__":
    if len(sys.argv) >= 4 and sys.argv[1] == "run":
        from terms import run_with_big_stack
        r = run_with_big_stack(run_patch, sys.argv[2], sys.argv[3:])
        if r["status"] != "ran":
            print(r)
            sys.exit(2)
        for pid, vs in r["violations"].items():
            print("%s: %d violated instance(s)" % (pid, len(vs)))
            for v in vs[:12]:
                print("   %s\n       %s: %s" % (v["key"], v["loc"], v["msg"][:300]))
    elif len(sys.argv) >= 2 and sys.argv[1] == "corpus":
        # corpus [Cxx] [--only NAMEPREFIX,...]
        args = sys.argv[2:]
        names = None
        if "--only" in args:
            i = args.index("--only")
            names = args[i + 1].split(",")
            args = args[:i] + args[i + 2:]
        for row in corpus(args[0] if args else None, names=names):
            print("%-28s %-4s %-7s %-11s %s" % row)
    else:
        print(__doc__)
