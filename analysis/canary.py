"""Positive control for rules whose expected violation count is zero: the rules of a
property are also run on a scratch copy of /repo with /verif/fixtures/canary.diff applied
(one violating construct per such rule) and must report those constructs. A rule that stays
silent on the canary is broken (vacuous) and the check fails closed. If the canary patch
no longer applies to the current tree the control is skipped and reported as such."""
import os, shutil
import extract, mutants, props
from core import Facts

VERIF = os.path.dirname(os.path.dirname(os.path.abspath(__file__)))
PATCH = os.path.join(VERIF, "fixtures", "canary.diff")

EXPECT = {
    # property: [(rule, substring of instance key, configs or None)]
    "C02": [("R-WHO-WRITES", "no-mut-escape", None), ("R-WHO-WRITES", "mut-borrow:", None), ("R-PURE-PROJECTION", "residuals=vec", None)],
    "C07": [("R-NO-CONST-PARAM-USE", "const-generics-not-inspected", None)],
    "C08": [("R-PANIC-SITES", "unwrap", None), ("R-LOOPS-BOUNDED", "loop@", None)],
    "C09": [("R-ERR-DISCIPLINE", "set_params#1", None)],
    "C10": [("R-NO-HISTORY", "no-read-of-old-cache", None), ("R-WHO-WRITES", "mut-borrow:", None), ("R-DEF-INIT", "unsafe-block", None), ("R-DEF-INIT", "raw:zeroed", None)],
    "C11": [("R-PAR-PURE", "rayon:sum", ("parallel",)), ("R-NO-CONST-PARAM-USE", "const-generics-not-inspected", ("parallel",))],
}


def run(repo, prop, R):
    exp = EXPECT.get(prop)
    if not exp:
        return {"status": "none"}
    d = mutants.scratch_copy(repo)
    try:
        ok, msg = mutants.apply_patch(d, PATCH)
        if not ok:
            return {"status": "skipped", "reason": "canary patch does not apply to the current tree"}
        res = mutants.run_props(d, [prop])
        viol = res[prop]
        built = not any(v["rule"] == "E1-EXTRACT" for v in viol)
        if not built:
            return {"status": "skipped", "reason": "canary does not compile on the current tree"}
        fired = []
        for rule, sub, cfgs in exp:
            hit = [v for v in viol if v["rule"] == rule and sub in v["key"] and (cfgs is None or v["config"] in cfgs)]
            if hit:
                fired.append("%s:%s" % (rule, sub))
                R.ok("CANARY", hit[0]["config"], rule, sub, "fires on the canary: " + hit[0]["key"][-80:])
            else:
                R.bad("CANARY", "-", rule, sub, "rule %s did not report the canary construct `%s`: the rule is vacuous/broken" % (rule, sub))
        return {"status": "ran", "fired": fired}
    finally:
        shutil.rmtree(d, ignore_errors=True)
