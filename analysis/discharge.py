"""Discharging panic-capable sites: in-bounds indices and unreachable assertion failures.

A site that is not in the reviewed table can still be shown harmless from the shape of the code:

  * `M[(i, j)]`, `v[i]`, a slice/array bounds check: every index component is, in canonical access form
    (tab.py), `iv + offset` with `iv` the counter of an iteration of known extent; the site is in bounds when
    `extent + offset <= dimension` follows by linear arithmetic from
       - the extents themselves (a `min(a, b)` extent is below each member),
       - comparisons / asserts that dominate the site — in its own body and, for helpers and closures, at
         every call site along the inlining chain that leads to it,
       - type invariants (facts about fields that hold for every value of a type because all its
         constructors establish them and the fields are private): square covariance.
    A constant index below a constant array length is in bounds.
  * an explicit `assert!`/`panic!`: one of the conditions under which its block is reached is refuted by the
    same facts (`assert!(cov.is_square())` with the squareness invariant).

Every calling context in which the site can execute (found by effects.iteration_effects from the
functions of the cone that can be entered from outside) must discharge it; a site never reached by that
traversal is analysed in its own body with symbolic parameters."""
from core import *
import tab
from tab import ilin, ilin_sub, provably_le, provably_eq


CALL_NOW = ("then", "map", "map_or", "map_or_else", "and_then", "or_else", "unwrap_or_else", "ok_or_else", "map_err", "is_some_and", "is_ok_and", "filter", "inspect")


class Discharger:
    def __init__(self, F, ev, cone_keys):
        self.F, self.ev = F, ev
        self.cone = cone_keys
        self._ctx = None
        self.inv_cache = {}

    # ---- calling contexts -------------------------------------------------------------------
    def contexts(self, key):
        if self._ctx is None:
            from effects import iteration_effects
            from rules_problem2 import is_entry
            self._ctx = {}
            for k in sorted(self.cone):
                b = self.F.bodies[k]
                if b.kind == "Closure" or not is_entry(self.F, b):
                    continue
                try:
                    for e in iteration_effects(self.ev, Env(b), enters=True):
                        if e.kind == "enter":
                            self._ctx.setdefault(e.body.key, []).append(e.env)
                except RecursionError:
                    pass
        got = self._ctx.get(key)
        if got:
            # bound the work: identical argument bindings are analysed once
            out, seen = [], set()
            for env in got:
                sig = repr(sorted((k, nosite_(v)) for k, v in env.args.items()))
                if sig not in seen:
                    seen.add(sig)
                    out.append(env)
            return out[:12]
        b = self.F.bodies[key]
        if b.kind == "Closure" and b.j.get("parent") in self.F.bodies and not getattr(self, "_in_closure_ctx", False):
            # a closure that is called on the spot by an Option/Result/bool combinator (`cond.then(|| a - b)`,
            # `x.map_or_else(.., |v| ..)`): one instance per context of its creator, captures resolved, so that the
            # conditions on the way to the combinator call — and the combinator's own condition — are facts inside it
            self._in_closure_ctx = True
            try:
                outc = []
                pk = b.j["parent"]
                for penv in self.contexts(pk):
                    pb = penv.body
                    ct = closure_terms_in(self.ev, penv).get(key)
                    if ct is None:
                        continue
                    for cbi, t in pb.calls():
                        if "fn" not in t or t["fn"]["name"] not in CALL_NOW:
                            continue
                        for ai, a in enumerate(t["args"]):
                            v = self.ev.operand(penv, a, (cbi, None))
                            if v[0] == "closure" and v[1] == key:
                                cenv = Env(b, {1: v}, penv.depth + 1, path=penv.path + ((pb.key, cbi),))
                                cenv.parent = penv
                                outc.append(cenv)
                if outc:
                    return outc[:12]
            except RecursionError:
                pass
            finally:
                self._in_closure_ctx = False
        return [Env(b)]

    # ---- facts ---------------------------------------------------------------------------------
    def invariants(self, cn, env):
        """type invariants instantiated for the root function of env"""
        root = env
        while getattr(root, "parent", None) is not None:
            root = root.parent
        rb = self.F.bodies.get(root.body.j.get("root", root.body.key), root.body)
        sa = rb.j.get("impl", {}).get("self_adt")
        out = []
        if sa == ADT_STATS and rb.j.get("inputs") and ADT_STATS in rb.j["inputs"][0]:
            me = ("param", rb.key, 1)
            for f in self.stats_square_fields():
                M = ("field", me, f)
                out.append(("Eq", ("nrows", M), ("ncols", M)))
            # more observations than parameters: every FitStatistics value is built under N > M+P (R-DOF-GUARD's
            # success-needs-N>M+P), its residuals have N rows and its covariance M+P (shapes of the constructor's values)
            for (rf, cf) in self.stats_more_rows_than_params():
                Rv, Cv = ("field", me, rf), ("field", me, cf)
                out.append(("Lt", ("nrows", Cv), ("nrows", Rv)))
                out.append(("Lt", ("ncols", Cv), ("nrows", Rv)))
        return out

    def stats_more_rows_than_params(self):
        if "gt" not in self.inv_cache:
            self.inv_cache["gt"] = []
            try:
                from shapes import S_, B_, P_, ONE, dadd
                from rules_stats2 import ctor_fields, stats_roles, stats_field_shapes
                from rules_stats import match_dof
                F, ev = self.F, self.ev
                sr = stats_roles(F, ev)
                shapes_, model = stats_field_shapes(F, ev, sr)
                b, env, f, s, sbi = ctor_fields(F, ev)
                # the constructor's aggregate is dominated by N > M+P
                g = Guards(ev, b, env)
                rels, raw = g.relations_at(sbi)
                guarded = False
                for r in rels:
                    if r[0] == "Lt":
                        md = match_dof(("bin", "Sub", r[2], r[1]))
                        if md is not None:
                            guarded = True
                if guarded and model is not None:
                    Sd, tot = ("sym", S_, model), dadd(("sym", B_, model), ("sym", P_, model))
                    rf, cf = sr["wres"], sr["cov"]
                    if shapes_.get(rf) and shapes_.get(cf) and shapes_[rf][0] == Sd and shapes_[rf][1] == ONE and shapes_[cf][0] == tot and shapes_[cf][1] == tot:
                        self.inv_cache["gt"].append((rf, cf))
            except Exception:
                pass
        return self.inv_cache["gt"]

    def stats_square_fields(self):
        if "sq" not in self.inv_cache:
            self.inv_cache["sq"] = []
            try:
                from shapes import Shapes, S_, B_, P_, ONE
                from rules_stats2 import ctor_fields, args_by_type, stats_roles
                F, ev = self.F, self.ev
                # the invariant needs private fields and a single constructor
                fs = struct_fields(F, ADT_STATS)
                if all(f["vis"] != "pub" for f in fs):
                    b, env, f, s, sbi = ctor_fields(F, ev)
                    a = args_by_type(b)
                    model = a["model"]
                    Sd, Bd = ("sym", S_, model), ("sym", B_, model)
                    ax = {("wsize", a["weights"]): Sd}
                    sr = stats_roles(F, ev)
                    coef = None
                    for x in walk(f[sr["wres"]]):
                        if x[0] == "call" and x[1] == "std::ops::Mul::mul" and x[3][1] in a.get("mats", []):
                            coef = x[3][1]
                    for m in a.get("mats", []):
                        ax[m] = (Bd, ONE) if m == coef else (Sd, ONE)
                    shp = Shapes(F, ev, ax)
                    for name, term in f.items():
                        try:
                            sh = shp.shape(term)
                        except Exception:
                            continue
                        if sh and sh[0] == sh[1] and sh[0] != ONE:
                            self.inv_cache["sq"].append(name)
            except Exception:
                pass
        return self.inv_cache["sq"]

    def facts(self, cn, body, env, block):
        """[(rel, a, b)] in canonical extent form that hold whenever `block` of this instance executes"""
        out = []
        levels = []
        x, blk, bd = env, block, body
        while x is not None:
            levels.append((bd, x, blk))
            par = getattr(x, "parent", None)
            if par is None or not x.path:
                break
            blk = x.path[-1][1]
            x, bd = par, par.body
        for li, (bd, x, blk) in enumerate(levels):
            try:
                g = Guards(self.ev, bd, x)
                rels, raw = g.relations_at(blk)
                if li > 0:
                    # the level below is called from this block: `cond.then(closure)` runs the closure only when cond holds
                    t = bd.blocks[blk]["term"] if blk < len(bd.blocks) else None
                    if t is not None and t["k"] == "call" and "fn" in t and t["fn"]["name"] == "then" and "bool" in callee_id(t["fn"]) and len(t["args"]) == 2:
                        c = self.ev.operand(x, t["args"][0], (blk, None))
                        for c2, t2 in expand_bool(c, True):
                            raw = list(raw) + [(c2, t2, None)]
                            r = canon_rel(c2, t2)
                            if r:
                                rels = list(rels) + [r]
            except RecursionError:
                continue
            for r in rels:
                if r[0] in ("Le", "Lt", "Eq"):
                    out.append((r[0], cn.norm_extent(cn.canon(r[1])), cn.norm_extent(cn.canon(r[2]))))
            for term, truth, sw in raw:
                if isinstance(truth, bool):
                    f = bool_fact(cn, term, truth)
                    if f:
                        out.append(f)
        out.extend(self.invariants(cn, env))
        return out

    # ---- obligations ---------------------------------------------------------------------------
    def idx_below(self, cn, idx, dim, facts):
        """idx < dim"""
        idx = cn.canon(idx)
        dim = cn.norm_extent(cn.canon(dim))
        # an index FOUND in a range — `(0..n).find(p)` / `.position(p)` / `.rfind(p)` unwrapped — lies below the range's end
        j = idx
        if j[0] == "payload" and j[2] == "ok" and j[1][0] == "call" and j[1][1].rsplit("::", 1)[-1] in ("find", "rfind", "position", "min", "max", "last", "next") and j[1][3]:
            src = j[1][3][0]
            while src[0] in ("mutated", "drv"):
                src = src[1]
            if src[0] == "agg" and src[1].endswith("ops::Range") and j[1][1].rsplit("::", 1)[-1] != "position":
                end = dict(src[3]).get("end")
                if end is not None and provably_le(cn.norm_extent(cn.canon(end)), dim, facts):
                    return True
        li = ilin(idx)
        if li is None:
            return False
        ivs = [a for a in li if a is not None and a[0] == "iv"]
        if any(li[a] != 1 for a in ivs) or len(ivs) > 1:
            return False
        if not ivs:
            # no loop counter: idx + 1 <= dim
            return provably_le(("bin", "Add", idx, ("const", "usize", 1)), dim, facts)
        iv = ivs[0]
        e = cn.extent.get(iv[1])
        if e is None:
            return False
        rest = dict(li)
        del rest[iv]
        members = e[1] if e[0] == "min" else (e,)
        for m in members:
            # (m - 1) + rest < dim   <=>   m + rest <= dim
            ub = from_lin(add_lin(ilin(m), rest)) if ilin(m) is not None else None
            if ub is not None and provably_le(ub, dim, facts):
                return True
        return False

    def dims_of(self, cn, M, n_idx):
        """dimension terms of the container for an access with n_idx components"""
        if n_idx == 2:
            return [cn.norm_extent(("nrows", M)), cn.norm_extent(("ncols", M))]
        if cn.is_column_vector(M) :
            return [cn.norm_extent(("nrows", M))]
        return [cn.norm_extent(("len", M))]


def nosite_(t):
    from rules_panic import nosite
    return nosite(t)


def add_lin(a, b):
    out = dict(a)
    for k, v in b.items():
        out[k] = out.get(k, 0) + v
        if out[k] == 0:
            del out[k]
    return out


def from_lin(d):
    """a term whose linear form is d"""
    t = None
    for k, v in sorted(d.items(), key=repr):
        atom = ("const", "usize", abs(v)) if k is None else k
        if k is not None and abs(v) != 1:
            return None
        if t is None:
            t = atom if v > 0 else ("bin", "Sub", ("const", "usize", 0), atom)
        else:
            t = ("bin", "Add" if v > 0 else "Sub", t, atom)
    return t if t is not None else ("const", "usize", 0)


def bool_fact(cn, term, truth):
    """facts carried by boolean conditions that are not comparisons"""
    t = term
    while t[0] == "un" and t[1] == "Not":
        t, truth = t[2], not truth
    if t[0] == "call" and t[1].endswith("::is_square") and t[3] and truth:
        M = cn.container(t[3][0])
        return ("Eq", cn.norm_extent(("nrows", M)), cn.norm_extent(("ncols", M)))
    if t[0] == "call" and t[1].endswith("::is_empty") and t[3] and not truth:
        M = cn.container(t[3][0])
        return ("Lt", ("const", "usize", 0), cn.norm_extent(("len", M)))
    return None


def shape_source(x):
    """the matrix whose shape x has by construction: nalgebra's element-wise sum / difference / negation / copy of A has
    the shape of A (the operation itself asserts that the other operand fits)"""
    while x[0] == "call" and len(x) >= 4 and x[3]:
        n = x[1].rsplit("::", 1)[-1]
        if x[1] in ("std::ops::Sub::sub", "std::ops::Add::add", "std::ops::Neg::neg") and (x[2] or "").startswith("nalgebra::Matrix"):
            x = x[3][0]
        elif n in ("clone", "clone_owned", "into_owned", "abs", "component_mul", "component_div", "map", "scale", "unscale") and ("nalgebra" in x[1] or n == "clone"):
            x = x[3][0]
        else:
            break
    return x


def refuted(cn, term, truth, facts):
    """the condition `term == truth` contradicts the facts"""
    t = term
    while t[0] == "un" and t[1] == "Not":
        t, truth = t[2], not truth
    if t[0] == "call" and t[1] in ("std::cmp::PartialEq::eq", "std::cmp::PartialEq::ne") and len(t[3]) == 2:
        a, b = t[3]
        if all(x[0] == "call" and x[1].rsplit("::", 1)[-1] in ("shape", "shape_generic", "nrows", "ncols", "len") and "nalgebra" in x[1] and len(x[3]) == 1 for x in (a, b)) \
                and a[1] == b[1]:
            from rules_panic import nosite
            same = nosite(shape_source(a[3][0])) == nosite(shape_source(b[3][0]))
            if same and truth == (t[1].endswith("::ne")):
                return True      # `shape(A − B) == shape(A)` cannot be false
    if t[0] == "call" and t[1].endswith("::is_square") and t[3] and not truth:
        M = cn.container(t[3][0])
        return provably_eq(cn.norm_extent(("nrows", M)), cn.norm_extent(("ncols", M)), facts)
    r = canon_rel(term, truth if term is t else (truth))
    r = canon_rel(t, truth)
    if r:
        a, b = cn.norm_extent(cn.canon(r[1])), cn.norm_extent(cn.canon(r[2]))
        if r[0] == "Ne":
            return provably_eq(a, b, facts)
        if r[0] == "Lt":      # a < b refuted by b <= a
            return provably_le(b, a, facts)
        if r[0] == "Le":      # a <= b refuted by b < a, i.e. b + 1 <= a
            return provably_le(("bin", "Add", b, ("const", "usize", 1)), a, facts)
    return False
