"""C08 clauses 2 and 3: panic-site discipline on the no-panic cone and bounded iteration."""
from core import *
from flow import consumers
from rules_mbuilder import ADT_FNBUILDER, ADT_UNFINISHED

TRAIT_BF = "basis_function::BasisFunction"
DERIVED = ("std::fmt::Debug", "std::fmt::Display", "std::clone::Clone", "std::cmp::PartialEq", "std::cmp::Eq", "std::error::Error", "std::default::Default")

PANIC_PATH_PREFIX = ("core::panicking::", "std::panicking::", "std::rt::", "core::option::expect_failed", "core::option::unwrap_failed",
                     "core::result::unwrap_failed", "std::process::abort", "std::process::exit", "core::slice::index::slice_", "core::str::slice_error")
PANIC_METHODS = {"unwrap", "expect", "unwrap_err", "expect_err", "unwrap_unchecked", "unreachable", "unimplemented", "todo"}
PURE_FOR_GUARDS = ("::value", "::len", "::nrows", "::ncols", "::output_len", "::parameter_count", "::base_function_count", "::size")


def nosite(t):
    if isinstance(t, frozenset):
        return frozenset(nosite(x) for x in t)
    if not isinstance(t, tuple):
        return t
    if t and t[0] == "call" and len(t) == 5:
        return ("call", t[1], t[2], tuple(nosite(a) for a in t[3]), None)
    if t and t[0] == "drv" and len(t) == 3 and isinstance(t[2], tuple):
        # iteration identity: keep which loop / closure, drop the call path it was inlined through
        return ("drv", nosite(t[1]), tuple(x for x in t[2][:3]))
    return tuple(nosite(x) if isinstance(x, (tuple, frozenset)) else x for x in t)


def stats_scope(F):
    """keys of the code that computes and serves the fit statistics: FitStatistics' methods, the free functions of its
    module reached from them, and the solver entry that builds them"""
    seeds = [b.key for b in F.bodies.values() if b.kind != "Closure" and
             (b.j.get("impl", {}).get("self_adt") == ADT_STATS or (b.j.get("impl", {}).get("self_adt") == ADT_SOLVER and ADT_STATS in (b.j.get("output", "") or "")))]
    seen, work = set(), list(seeds)
    while work:
        k = work.pop()
        if k in seen or k not in F.bodies:
            continue
        seen.add(k)
        b = F.bodies[k]
        for bi, t in b.calls():
            if "fn" in t:
                key = t["fn"].get("resolved_key") or t["fn"].get("key")
                cb = F.bodies.get(key)
                # follow into private / crate-private helpers, not into the public API of other types (the problem, the model)
                if cb is not None and (cb.j.get("impl", {}).get("self_adt") in (None, ADT_STATS) and "trait" not in cb.j.get("impl", {})):
                    work.append(key)
        for c in F.closures_of(k):
            work.append(c.key)
    return seen


def cone(F, model_only=False):
    """bodies reachable from the API entry points of C08 in the local call graph (`model_only`: from the builder-made model's
    methods and the wrapped user callables only — the part C17 speaks about)"""
    entries = []
    for b in F.bodies.values():
        im = b.j.get("impl", {})
        sa = im.get("self_adt")
        tr = im.get("trait")
        if tr in DERIVED:
            continue
        if sa in (ADT_PROBLEM, ADT_SOLVER, ADT_STATS, ADT_FITRESULT):
            if not model_only:
                entries.append(b.key)
        elif sa == ADT_PBUILDER:
            if not model_only:
                entries.append(b.key)
        elif tr == TRAIT_MODEL and sa == ADT_SEPMODEL:
            entries.append(b.key)
        elif sa == ADT_SEPMODEL:
            entries.append(b.key)
        elif tr == "statistics::numeric_traits::CastF64":
            if not model_only:
                entries.append(b.key)
    # user callables stored in a built model are reached through dyn Fn: the wrapper closures and the arity dispatch
    # = every closure that is boxed as a `dyn Fn` basis function (found by the type it is coerced to, not by the name
    #   of the function that creates it)
    boxing_roots = set(b.key for b in F.bodies.values() if b.kind != "Closure" and "dyn for<'a, 'b> std::ops::Fn" in (b.j.get("output", "") or ""))
    for b in F.bodies.values():
        if b.kind == "Closure" and (b.j.get("root", "") in boxing_roots or b.j.get("root", "").endswith("create_wrapped_basis_function") or b.j.get("root", "").endswith("parameter_independent")):
            entries.append(b.key)
        if b.j.get("impl", {}).get("trait") == TRAIT_BF:
            entries.append(b.key)
    seen = set()
    work = list(entries)
    edges = {}
    while work:
        k = work.pop()
        if k in seen or k not in F.bodies:
            continue
        seen.add(k)
        b = F.bodies[k]
        outs = set()
        for bi, t in b.calls():
            if "fn" not in t:
                continue
            fn = t["fn"]
            key = fn.get("resolved_key") or fn.get("key")
            if key in F.bodies:
                outs.add(key)
            elif fn.get("trait") in (TRAIT_BF, TRAIT_MODEL) and fn.get("local"):
                for x in F.bodies.values():
                    if x.j.get("impl", {}).get("trait") == fn["trait"] and x.name == fn["name"]:
                        outs.add(x.key)
        for c in F.closures_of(k):
            outs.add(c.key)
        edges[k] = outs
        work.extend(outs)
    return seen, edges


# reviewed panic sites on the cone: (function key substring, kind) -> (max count, reason)
SANITY_REASON = ("sanity check |index mapping| ≠ |derivatives| behind the loop that found every mapped index among the keys: the keys are only ever "
                 "inserted under the model index of a listed function parameter (R-DERIV-KEY), a second derivative for the same parameter turns the "
                 "result into Err (R-FN-RESULT-STICKY), and the listed parameters are unique (checked before) — so the two sets coincide")
TABLE = [
    ("<&util::DiagMatrix<", "assert_failed", 1, "dimension assert of the row scaling: the weight length is validated against the data rows in build() (C18) and the model contract fixes the rows of every weighted matrix"),
    ("FitStatistics<Model>>::confidence_band_radius", "panic_fmt", 1, "documented precondition panic for probabilities outside (0,1), required by C14"),
    ("FitStatistics<Model>>::confidence_band_radius", "expect", 1, "f64::from_usize is total (FromPrimitive for f64 never returns None)"),
    ("statistics::extract_range", "panic", 2, "internal range asserts: called only with [0,|B|) and [|B|,|B|+|P|) on the diagonal of the (|B|+|P|)-square covariance (R-VAR-SLICES)"),
    ("statistics::extract_range", "index-call", 1, "idx + start < end ≤ nrows by the two preceding assertions"),
    ("statistics::calc_correlation_matrix", "assert_failed", 1, "squareness assert: the covariance is an inverse of HᵀH, square by construction"),
    ("statistics::calc_correlation_matrix", "index-call", 5, "indices are loop variables of 0..nrows/0..ncols of a matrix allocated with the covariance's shape (R-CORRELATION)"),
    ("statistics::concat_colwise", "assert_failed", 1, "row-count assert: both blocks have |S| rows for a model honouring the shape contract (allocation checked by R-MODEL-JAC)"),
    ("FitStatistics<Model>>::try_calculate", "assert_failed", 2, "debug shape asserts on arguments produced by this crate (single-rhs problem: one column by R-OBS-RESHAPE; rows = output_len by build())"),
    ("FitResult<Model, false>>::linear_coefficients", "assert_failed", 1, "debug assert: single-rhs coefficient matrix has one column (solve() of an N×1 right-hand side)"),
    ("LevMarProblem<Model, false, PAR>>::linear_coefficients::{closure#0}", "assert_failed", 1, "debug assert: single-rhs coefficient matrix has one column"),
    ("LevMarProblem<Model, false, PAR>>::weighted_data", "assert_failed", 1, "debug assert: single-rhs data matrix has one column (R-OBS-RESHAPE)"),
    (" as basis_function::BasisFunction<", "panic_fmt", 1, "arity mismatch panic: the wrapper passes exactly index_mapping.len() == ARGUMENT_COUNT arguments (check_parameter_count at build, R-BUILD-GUARDS)"),
    ("create_wrapped_basis_function::{closure#0}", "bounds-check", 1, "params[mapping[f]]: mapping holds positions in the model parameter list and SeparableModel::eval guards len(params) == |names| (R-MODEL-GUARDS)"),
    # the same reviewed sites, addressed independently of the names of private helpers:
    #   via:<s>   the site sits in a private helper and every function with a stable (pub / pub(crate) / trait) name
    #             from which that helper is reached contains <s>
    #   role:<r>  the site sits in a function with that structural role
    ("via:_variance", "panic", 2, "internal range asserts of the helper behind the two variance accessors: called only with [0,|B|) and [|B|,|B|+|P|) on the diagonal of the (|B|+|P|)-square covariance (R-VAR-SLICES)"),
    ("via:_variance", "index-call", 1, "idx + start < end ≤ nrows by the two preceding assertions", "needs-2-asserts"),
    ("via:correlation_matrix", "assert_failed", 1, "squareness assert: the covariance is an inverse of HᵀH, square by construction"),
    ("via:correlation_matrix", "index-call", 5, "indices are loop variables of 0..nrows/0..ncols of a matrix allocated with the covariance's shape (R-CORRELATION)", "needs-1-asserts"),
    ("via:FitStatistics<Model>>::try_calculate", "assert_failed", 1, "row-count assert of the column concatenation: both blocks have |S| rows for a model honouring the shape contract (allocation checked by R-MODEL-JAC)"),
    ("role:boxed-callable", "bounds-check", 1, "params[mapping[f]] in the closure boxed as the model's basis function: mapping holds positions in the model parameter list and SeparableModel::eval guards len(params) == |names| (R-MODEL-GUARDS)"),
]


def roles_of(F, k):
    b = F.bodies[k]
    roles = set()
    if b.kind == "Closure":
        root = F.bodies.get(b.j.get("root", ""), None)
        if root is not None and "dyn for<'a, 'b> std::ops::Fn" in (root.j.get("output", "") or ""):
            roles.add("boxed-callable")
    return roles


def site_kind(t):
    """panic-capable call terminator -> kind or None"""
    if t["k"] != "call" or "fn" not in t:
        return None
    fn = t["fn"]
    p = fn["path"]
    if any(p.startswith(x) for x in PANIC_PATH_PREFIX):
        return fn["name"]
    if fn["name"] in PANIC_METHODS and (p.startswith("std::option::Option") or p.startswith("std::result::Result") or p.startswith("core::")):
        return fn["name"]
    cid = callee_id(fn)
    if cid in ("std::ops::Index::index", "std::ops::IndexMut::index_mut"):
        return "index-call"
    if fn["name"] in ("swap_remove", "remove", "split_at", "split_off", "copy_from_slice", "swap") and p.startswith("std::vec::Vec"):
        return "vec-" + fn["name"]
    return None


def model_builder_scope(F):
    """the model builder and the function builder with everything local they reach (C15: a defective specification is
    reported by build() as an error — a panic in a builder method pre-empts that)"""
    from rules_mbuilder import ADT_MBUILDER, ADT_FNBUILDER
    seen, work = set(), [b.key for b in F.bodies.values() if b.kind != "Closure" and b.j.get("impl", {}).get("self_adt") in (ADT_MBUILDER, ADT_FNBUILDER)
                         and b.j.get("impl", {}).get("trait") not in DERIVED]
    while work:
        k = work.pop()
        if k in seen or k not in F.bodies:
            continue
        seen.add(k)
        for bi, t in F.bodies[k].calls():
            if "fn" in t:
                key = t["fn"].get("resolved_key") or t["fn"].get("key")
                if key in F.bodies:
                    work.append(key)
        for c in F.closures_of(k):
            work.append(c.key)
    return seen


def rule_panic_sites(F, ev, R, config, rule="R-PANIC-SITES", scope=None):
    cn, edges = cone(F)
    if scope == "statistics":
        sc = stats_scope(F)
        cn = set(k for k in cn if k in sc)
    elif scope == "model-builder":
        cn = model_builder_scope(F)
    elif scope == "model":
        cn, edges = cone(F, model_only=True)
    counts = {}
    dis = None
    inventory = {"explicit": 0, "sub": 0, "bounds": 0, "addmul": 0, "index": 0}
    for k in sorted(cn):
        b = F.bodies[k]
        env = Env(b)
        g = None
        for bi in sorted(b.live_blocks()):
            t = b.blocks[bi]["term"]
            kind = None
            guarded = False
            why = ""
            if t["k"] == "call":
                kind = site_kind(t)
                if kind is None:
                    continue
                if kind == "index-call":
                    inventory["index"] += 1
                    if (t["fn"].get("gargs") or [None])[-1] == "std::ops::RangeFull":
                        R.ok(rule, config, k, "index-call@guarded", "`x[..]`: the full range is in bounds for every length", t.get("span"))
                        continue
                else:
                    inventory["explicit"] += 1
            elif t["k"] == "assert":
                m = t["msg"]
                mk = m["kind"]
                if mk == "Overflow":
                    if m["op"] in ("Add", "Mul"):
                        inventory["addmul"] += 1
                        continue  # sums/products of in-memory counts: inventoried, not alarmed
                    kind = "overflow-" + m["op"].lower()
                    inventory["sub"] += 1
                    if m["op"] == "Sub":
                        if g is None:
                            g = Guards(ev, b, env)
                        a = nosite(ev.operand(env, m["a"], (bi, None)))
                        c = nosite(ev.operand(env, m["b"], (bi, None)))
                        rels, raw = g.relations_at(bi)
                        for r in rels:
                            if r[0] in ("Le", "Lt") and nosite(r[1]) == c and nosite(r[2]) == a:
                                guarded = True
                                why = "dominated by the edge %s ≤ %s" % (short(c)[:40], short(a)[:40])
                elif mk == "BoundsCheck":
                    kind = "bounds-check"
                    inventory["bounds"] += 1
                    if g is None:
                        g = Guards(ev, b, env)
                    idx = ev.operand(env, m["index"], (bi, None))
                    # constant index below a guarded slice length
                    if idx[0] == "const":
                        rels, raw = g.relations_at(bi)
                        for r in rels:
                            if r[0] == "Eq":
                                for x, y in ((r[1], r[2]), (r[2], r[1])):
                                    if x[0] == "const" and isinstance(x[2], int) and idx[2] < x[2] and y[0] == "call" and y[1].endswith("::len"):
                                        guarded = True
                                        why = "index %d < guarded length %d" % (idx[2], x[2])
                elif mk in ("DivisionByZero", "RemainderByZero", "OverflowNeg"):
                    kind = mk
                    inventory["sub"] += 1
                else:
                    continue
            else:
                continue
            if not guarded and kind == "panic_fmt" and scope == "model-builder":
                # the function builder's sanity check: reached only when the number of mapped parameter indices differs from the
                # number of stored derivatives — recognised by its dominating condition, wherever the check has moved or however
                # its function is called
                if g is None:
                    g = Guards(ev, b, env)
                rels, raw = g.relations_at(bi)
                for r in rels:
                    if r[0] == "Ne" and all(x[0] == "call" and x[1].rsplit("::", 1)[-1] == "len" for x in r[1:3]) and \
                            sum(1 for x in r[1:3] if "HashMap" in x[1]) == 1:
                        guarded = True
                        why = SANITY_REASON
            if guarded:
                R.ok(rule, config, k, "%s@guarded" % kind, why, t.get("span"))
                continue
            # tabled?
            hit = None
            for ent in TABLE:
                sub, tk, mx, reason = ent[:4]
                if tk != kind or sub.startswith("via:") or sub.startswith("role:"):
                    continue
                if sub in k:
                    hit = (sub, tk, mx, reason)
                    break
            if hit is None:
                rb_ = F.bodies.get(F.bodies[k].j.get("root", k), F.bodies[k])
                anc = None
                for ent in TABLE:
                    sub, tk, mx, reason = ent[:4]
                    if tk != kind:
                        continue
                    if len(ent) > 4 and ent[4].startswith("needs-"):
                        # the justification of this entry rests on assertions in the same function: they must be there
                        need = int(ent[4].split("-")[1])
                        have_ = sum(1 for bb_ in F.bodies[k].blocks if bb_["term"]["k"] == "call" and "fn" in bb_["term"] and
                                    bb_["term"]["fn"]["path"].startswith("core::panicking") and bb_["term"].get("t") is None)
                        if have_ < need:
                            continue
                    if sub.startswith("role:") and sub[5:] in roles_of(F, k):
                        hit = (sub, tk, mx, reason)
                        break
                    if sub.startswith("via:") and not stable_name(rb_):
                        if anc is None:
                            anc = stable_ancestors(F, k, cn)
                        if anc and all(sub[4:] in a for a in anc):
                            hit = (sub, tk, mx, reason)
                            break
            if hit is None and F.bodies[k].kind != "Closure":
                # a reviewed site moved into a private helper: covered when EVERY function that calls the helper
                # (on the cone) is covered by one and the same table entry for this kind of site
                from rules_problem2 import local_callers
                callers = set(c for c in local_callers(F).get(k, ()) if c in cn and c != k)
                if callers and F.bodies[k].j.get("vis") != "pub":
                    for ent in TABLE:
                        sub, tk, mx, reason = ent[:4]
                        if tk == kind and all(sub in c for c in callers):
                            hit = (sub, tk, mx, reason + " [site moved into the helper `%s`, called only from such functions]" % k.rsplit("::", 1)[-1])
                            break
            ck = (k, kind)
            counts[ck] = counts.get(ck, 0) + 1
            if hit and counts[ck] <= hit[2]:
                R.ok(rule, config, k, "%s#%d@reviewed" % (kind, counts[ck]), hit[3], t.get("span"))
                continue
            # neither guarded in its own body nor reviewed: try to discharge it in every calling context
            if dis is None:
                import discharge
                dis = discharge.Discharger(F, ev, cn)
            okd, whyd = discharge_site(dis, b, bi, t, kind)
            if okd:
                counts[ck] -= 1
                R.ok(rule, config, k, "%s@discharged" % kind, whyd, t.get("span"))
                continue
            if True:
                what = callee_name(t) if t["k"] == "call" else t["msg"]["kind"]
                R.bad(rule, config, k, "%s#%d" % (kind, counts[ck]),
                      "panic-capable site `%s` on the no-panic cone is neither dominated by a guard establishing its condition nor in the reviewed table%s"
                      % (what[:100], " (more sites of this kind than reviewed)" if hit else ""), t.get("span"))
    R.notes.append(inventory)
    R.floor(rule, config, 50 if scope is None else (1 if scope == "model-builder" else (3 if scope == "model" else 8)), "pinned tree: 23 explicit + 2 Sub + 56 bounds checks + index calls = 85 (whole cone); the floor is a vacuity guard, not a census")
    return inventory


def discharge_site(dis, b, bi, t, kind):
    """(ok, why): the site cannot panic in any calling context (see discharge.py)"""
    import tab
    import discharge
    ev = dis.ev
    envs = dis.contexts(b.key)
    whys = []
    for env in envs:
        body = env.body
        if bi >= len(body.blocks) or bi not in body.live_blocks():
            continue   # pruned in this specialised instance: unreachable there
        tt = body.blocks[bi]["term"]
        cn = tab.Canon(ev)
        try:
            if kind == "index-call":
                args = [ev.operand(env, a, (bi, None)) for a in tt["args"]]
                acc = cn.canon(("call", callee_id(tt["fn"]), None, tuple(args), None))
                if acc[0] != "at":
                    return False, ""
                idx = acc[2:]
                dims = dis.dims_of(cn, acc[1], len(idx))
                facts = dis.facts(cn, body, env, bi)
                if len(dims) != len(idx) or not all(dis.idx_below(cn, i, d, facts) for i, d in zip(idx, dims)):
                    return False, ""
                whys.append("%s within %s" % (", ".join(short(i)[:30] for i in idx), ", ".join(short(d)[:40] for d in dims)))
            elif kind == "bounds-check":
                m = tt["msg"]
                idx = ev.operand(env, m["index"], (bi, None))
                ln = ev.operand(env, m["len"], (bi, None))
                ci, cl = cn.canon(idx), cn.canon(ln)
                if ci[0] == "const" and cl[0] == "const" and isinstance(ci[2], int) and isinstance(cl[2], int) and ci[2] < cl[2]:
                    whys.append("constant index %d < constant length %d" % (ci[2], cl[2]))
                    continue
                facts = dis.facts(cn, body, env, bi)
                if not dis.idx_below(cn, idx, ln, facts):
                    return False, ""
                whys.append("%s < %s" % (short(ci)[:30], short(cl)[:40]))
            elif kind == "overflow-sub" and tt["k"] == "assert":
                # a − b cannot wrap when b ≤ a follows from the facts (guards on the way, type invariants)
                m = tt["msg"]
                a_ = cn.norm_extent(cn.canon(ev.operand(env, m["a"], (bi, None))))
                b_ = cn.norm_extent(cn.canon(ev.operand(env, m["b"], (bi, None))))
                facts = dis.facts(cn, body, env, bi)
                if not tab.provably_le(b_, a_, facts):
                    return False, ""
                whys.append("%s ≤ %s" % (short(b_)[:40], short(a_)[:40]))
            elif tt["k"] == "call" and tt.get("t") is None or kind in ("panic", "panic_fmt", "assert_failed", "panic_explicit", "unreachable_display"):
                # an explicit panic: reached only under conditions the facts refute
                g = Guards(ev, body, env)
                rels, raw = g.relations_at(bi)
                facts = [f for f in dis.facts(cn, body, env, bi)]
                # the facts used for refutation must not include the very conditions that lead here: invariants and
                # facts of the callers only, plus conditions of OTHER dominating tests
                inv = dis.invariants(cn, env)
                okr = False
                for term, truth, sw in raw:
                    if isinstance(truth, bool) and discharge.refuted(cn, term, truth, inv):
                        okr = True
                        whys.append("its condition `%s` is excluded by a type invariant" % short(term)[:60])
                        break
                if not okr:
                    return False, ""
            else:
                return False, ""
        except RecursionError:
            return False, ""
    if not whys:
        return False, ""
    return True, "; ".join(sorted(set(whys)))[:300]


FINITE_SOURCES = ("core::slice::iter", "core::slice::iter_mut", "nalgebra::Matrix::iter", "nalgebra::Matrix::iter_mut", "nalgebra::Matrix::column_iter",
                  "nalgebra::Matrix::column_iter_mut", "nalgebra::Matrix::row_iter", "nalgebra::Matrix::row_iter_mut", "std::vec::Vec::iter", "std::vec::Vec::iter_mut",
                  "std::collections::HashMap::iter", "std::collections::HashMap::keys", "std::collections::HashMap::values", "std::vec::Vec::into_iter", "std::vec::Vec::drain")
FINITE_ADAPTERS = ("enumerate", "zip", "map", "filter", "rev", "skip", "take", "cloned", "copied", "peekable", "into_iter", "chain", "step_by", "by_ref", "filter_map", "flat_map", "inspect", "map_init", "map_with")
INFINITE = ("repeat", "cycle", "repeat_with", "from_fn", "successors", "RangeFrom", "iterate")


def finite_iter(t, depth=0):
    """True if the iterator term is a finite std/nalgebra iterator pipeline"""
    if depth > 12:
        return False
    while t[0] == "mutated":
        t = t[1]
    if t[0] == "phi":
        return all(finite_iter(a, depth + 1) for a in t[1] if a[0] != "loopback")
    if t[0] == "agg" and t[1].endswith("ops::Range"):
        return True
    if t[0] == "agg" and t[1].endswith("ops::RangeInclusive"):
        return True
    if t[0] == "call":
        last = t[1].rsplit("::", 1)[-1]
        if any(x in t[1] for x in INFINITE) or last in INFINITE:
            return False
        if t[1] in FINITE_SOURCES or last in ("iter", "iter_mut", "column_iter", "column_iter_mut", "row_iter", "row_iter_mut", "keys", "values", "drain", "chars", "bytes", "lines", "split",
                                              "par_column_iter", "par_column_iter_mut", "par_iter", "par_iter_mut", "into_par_iter"):
            return True
        if last in FINITE_ADAPTERS and t[3]:
            if last in ("zip", "chain"):
                return finite_iter(t[3][0], depth + 1) or (last == "zip" and finite_iter(t[3][1], depth + 1))
            return finite_iter(t[3][0], depth + 1)
        if last == "new" and "RangeInclusive" in t[1]:
            return True
    if t[0] in ("field", "param", "payload"):
        # an owned collection iterated by value (Vec / slice / &collection)
        return True
    return False


def rule_loops_bounded(F, ev, R, config, rule="R-LOOPS-BOUNDED"):
    cn, edges = cone(F)
    n = 0
    for k in sorted(cn):
        b = F.bodies[k]
        loops = b.natural_loops()
        if not loops:
            continue
        env = Env(b)
        for h, blocks in sorted(loops.items()):
            n += 1
            nxt = None
            for lb in sorted(blocks):
                t = b.blocks[lb]["term"]
                if t["k"] == "call" and "fn" in t and callee_id(t["fn"]) == "std::iter::Iterator::next":
                    nxt = (lb, t)
                    break
            if nxt is None:
                R.bad(rule, config, k, "loop@bb%d" % h, "loop without an iterator driving it (`loop`/`while` with a data condition): termination not established", b.blocks[h]["term"].get("span") or b.j["span"])
                continue
            lb, t = nxt
            it = ev.operand(env, t["args"][0], (lb, None))
            okf = finite_iter(it)
            # the None edge leaves the loop
            exits_ok = False
            for c in consumers(b, t["dest"]["l"]):
                if c["kind"] == "discr" and b.blocks[c["block"]]["term"]["k"] == "switch":
                    yes, no = variant_edge(b, c["block"], "None")
                    if yes and all(tg not in blocks or tg == h and False for _, tg in yes):
                        exits_ok = True
            ok = okf and exits_ok
            R.add(rule, config, k, "loop@bb%d" % h, ok,
                  "for-loop over %s" % short(it)[:100] if ok else ("loop iterator `%s` is not a recognised finite iterator" % short(it)[:120] if not okf else "the exhausted-iterator edge does not leave the loop"),
                  t.get("span"))
    # iterator pipelines driven to completion (`.for_each`, `.collect`, `.all`, …) are loops too: their source must be finite
    DRIVERS = ("for_each", "try_for_each", "collect", "fold", "sum", "count", "all", "any", "find", "position", "try_fold", "last", "max", "min",
               "product", "find_map", "reduce", "max_by", "min_by", "collect_into_vec", "reduce_with")
    for k in sorted(cn):
        b = F.bodies[k]
        env = Env(b)
        for bi, t in b.calls():
            if "fn" not in t or t["fn"]["name"] not in DRIVERS or not t["args"]:
                continue
            cid = callee_id(t["fn"])
            if not ("iter::" in cid or "Iterator::" in cid):
                continue
            n += 1
            it = ev.operand(env, t["args"][0], (bi, None))
            okf = finite_iter(it)
            R.add(rule, config, k, "pipeline@bb%d" % bi, okf,
                  "%s over %s" % (t["fn"]["name"], short(it)[:100]) if okf else "the iterator `%s` driven by `%s` is not a recognised finite iterator: may not terminate" % (short(it)[:120], t["fn"]["name"]),
                  t.get("span"))
    # recursion: only the model builder's bounded self-delegation (outside this cone) — no cycle on the cone
    color = {}
    cyc = []

    def dfs(u, stack):
        color[u] = 1
        for v in edges.get(u, ()):
            if color.get(v) == 1:
                cyc.append((u, v))
            elif v not in color:
                dfs(v, stack + [v])
        color[u] = 2

    for k in sorted(cn):
        if k not in color:
            dfs(k, [k])
    R.add(rule, config, "-", "no-recursion-on-cone", not cyc, "" if not cyc else "recursive call cycle on the no-panic cone: %s" % [(a[-40:], c[-40:]) for a, c in cyc[:2]])
    R.floor(rule, config, 10, "loops and driven iterator pipelines on the cone (pinned tree: 9 loops + 5/7 pipelines)")
    return n
