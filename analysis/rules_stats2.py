"""fit() mapping (C04) and the statistics formulas (C12b, C13, C14)."""
from core import *
from flow import consumers
import nf as nfmod
from rules_problem import is_call, ok_of, strip_mut, wmul_parts, flatten_arg
from rules_stats import stats_ctor_bodies, dof_role, match_dof


def base_alloc(t):
    """underlying value of a matrix that is filled in place in loops"""
    while True:
        if t[0] == "mutated":
            t = t[1]
            continue
        if t[0] == "phi":
            bases = []
            for a in t[1]:
                if a[0] == "loopback":
                    continue
                b = base_alloc(a)
                if b[0] == "loopback":
                    continue
                if b not in bases:
                    bases.append(b)
            if len(bases) == 1:
                t = bases[0]
                continue
        return t


def container_id(t):
    """identity of a container for comparisons: the allocation, with in-place mutation wrappers and loop-carried joins
    removed at every depth (the dimensions of an allocation may mention other matrices that are filled in loops; how
    often the evaluator unrolled such a loop must not matter) and call sites dropped"""
    if not isinstance(t, tuple) or not t:
        return t
    t = base_alloc(t)
    if t[0] == "call" and len(t) == 5:
        return ("call", t[1], t[2], tuple(container_id(x) for x in t[3]), None)
    return tuple(container_id(x) if isinstance(x, tuple) else x for x in t)


def dimval(t):
    """strip Dyn{..}/Dim::from_usize/Dim::value wrappers around a usize term"""
    while True:
        if t[0] == "agg" and t[1].endswith("Dyn") and t[3]:
            t = t[3][0][1]
        elif t[0] == "call" and t[1].rsplit("::", 1)[-1] in ("from_usize", "value") and "Dim" in t[1] and t[3]:
            t = t[3][0]
        elif t[0] == "field" and t[2] in ("0", "1") and t[1][0] == "call" and len(t[1]) == 5 and t[1][3] and \
                t[1][1].rsplit("::", 1)[-1] in ("shape_generic", "shape") and "nalgebra" in t[1][1]:
            # `let (r, c) = m.shape_generic()`: the components are the row and column counts
            t = ("call", "nalgebra::Matrix::" + ("nrows" if t[2] == "0" else "ncols"), None, (t[1][3][0],), None)
        elif t[0] == "bin":
            return ("bin", t[1], dimval(t[2]), dimval(t[3]))
        else:
            return t


# --------------------------------------------------------------------------- #
# C04
# --------------------------------------------------------------------------- #
def fit_body(F):
    bs = [b for b in inherent_methods(F, ADT_SOLVER) if b.j.get("output", "").startswith("std::result::Result<" + ADT_FITRESULT)]
    if len(bs) != 1:
        raise AnchorMissing("LevMarSolver::fit (%d candidates)" % len(bs))
    return bs[0]


def rule_fit_map(F, ev, R, config, rule="R-FIT-MAP"):
    b = fit_body(F)
    env = Env(b)
    ev.fresh_ctx()
    v = ev.ret_val(env)
    alts = v[1] if v[0] == "phi" else (v,)
    oks = [a for a in alts if a[0] == "agg" and a[2] == "Ok"]
    errs = [a for a in alts if a[0] == "agg" and a[2] == "Err"]
    shape = len(oks) == 1 and len(errs) == 1 and len(alts) == 2
    R.add(rule, config, b.key, "returns-Ok-or-Err", shape, "" if shape else "fit() returns `%s`" % short(v)[:200], b.j["span"])
    if not shape:
        return
    fr_ok, fr_err = oks[0][3][0][1], errs[0][3][0][1]
    same = fr_ok == fr_err
    R.add(rule, config, b.key, "both-carry-the-same-result", same, "" if same else "Ok and Err carry different values", b.j["span"])
    fr = fr_ok
    solver_f = [f["name"] for f in struct_fields(F, ADT_SOLVER)]
    mins = [x for x in walk(fr) if x[0] == "call" and x[1].endswith("LevenbergMarquardt::minimize")]
    ok = bool(mins) and all(m == mins[0] for m in mins)
    msg = "no call of LevenbergMarquardt::minimize feeds the result"
    if ok:
        m = mins[0]
        ok = len(solver_f) == 1 and m[3][0] == ("field", ("param", b.key, 1), solver_f[0]) and m[3][1] == ("param", b.key, 2)
        msg = "minimize is called as `%s`: not the caller's configured solver on the caller's problem" % short(m)[:160]
    R.add(rule, config, b.key, "minimize(configured-solver, callers-problem)", ok, "" if ok else msg, b.j["span"])
    if not ok:
        return
    m = mins[0]
    fs = dict(fr[3]) if fr[0] == "agg" and fr[1] == ADT_FITRESULT else {}
    frf = struct_fields(F, ADT_FITRESULT)
    pf = [f["name"] for f in frf if f.get("adt") == ADT_PROBLEM][0]
    rf = [f["name"] for f in frf if f.get("adt") == "levenberg_marquardt::MinimizationReport"][0]
    okp = False
    p = fs.get(pf)
    if p and p[0] == "agg" and p[1] == ADT_PROBLEM:
        okp = all(t == ("field", ("field", m, "0"), f) for f, t in p[3]) and len(p[3]) == len(struct_fields(F, ADT_PROBLEM))
    elif p == ("field", m, "0"):
        okp = True
    R.add(rule, config, b.key, "problem=final-state-unchanged", okp, "" if okp else "returned problem is `%s`, not the optimizer's final problem" % short(p)[:200], b.j["span"])
    okr = fs.get(rf) == ("field", m, "1")
    R.add(rule, config, b.key, "report=optimizer-report", okr, "" if okr else "returned report is `%s`" % short(fs.get(rf))[:120], b.j["span"])
    # decision: Ok ⇔ was_successful(report.termination) — on the body with private helpers spliced in (the branch may sit
    # in a helper such as `FitResult::into_result(self) -> Result<Self, Self>`)
    from rules_panic import nosite
    bm = merged(F, b)
    envm = Env(bm)
    g = Guards(ev, bm, envm)
    want = None
    term_want = nosite(("field", ("field", m, "1"), "termination"))
    for sw in g.switches:
        t = sw["term"]
        neg = False
        while t[0] == "un" and t[1] == "Not":
            t, neg = t[2], not neg
        if t[0] == "call" and t[1].endswith("TerminationReason::was_successful") and nosite(t[3][0]) == term_want:
            want = (sw, neg)
    if want is None:
        R.bad(rule, config, b.key, "Ok-iff-successful", "no branch on the optimizer's termination reason", b.j["span"])
        return
    sw, neg = want
    b = bm

    def result_site(s, variant):
        if s["k"] != "assign" or s["rv"]["k"] != "agg" or s["rv"].get("variant") != variant or s["place"]["proj"]:
            return False
        ty = b.local_ty(s["place"]["l"]) or ""
        return s["place"]["l"] == 0 or (ty.startswith("std::result::Result<") and ADT_FITRESULT in ty)
    ok_sites = [bi for bi, si, s in b.stmts() if result_site(s, "Ok")]
    err_sites = [bi for bi, si, s in b.stmts() if result_site(s, "Err")]
    t_edges = g.bool_edges(sw, not neg)
    f_edges = g.bool_edges(sw, neg)
    ok1 = all(g.holds_on_all_paths_to(x, [t_edges]) for x in ok_sites) and bool(t_edges)
    ok2 = all(g.holds_on_all_paths_to(x, [f_edges]) for x in err_sites) and bool(f_edges)
    R.add(rule, config, b.key, "Ok-only-if-successful", ok1, "" if ok1 else "Ok(result) is reachable when the termination reason is not successful", b.j["span"])
    R.add(rule, config, b.key, "Err-only-if-unsuccessful", ok2, "" if ok2 else "Err(result) is reachable although the termination reason is successful", b.j["span"])
    R.floor(rule, config, 7, "seven clauses of fit()")


# --------------------------------------------------------------------------- #
# statistics: roles by use
# --------------------------------------------------------------------------- #
def stats_field_shapes(F, ev, roles):
    """{field: (rows, cols)} symbolic shapes (shapes.py) of the values the single constructor stores, plus the model term;
    {} if they cannot be established (public fields, several constructors, …)"""
    try:
        from shapes import Shapes, S_, B_, P_, ONE
        fs = struct_fields(F, ADT_STATS)
        if not all(f["vis"] != "pub" for f in fs):
            return {}, None
        b, env, f, s, sbi = ctor_fields(F, ev)
        a = args_by_type(b)
        model = a["model"]
        Sd, Bd = ("sym", S_, model), ("sym", B_, model)
        ax = {("wsize", a["weights"]): Sd}
        coef = None
        for x in walk(f[roles["wres"]]):
            if x[0] == "call" and x[1] == "std::ops::Mul::mul" and x[3][1] in a.get("mats", []):
                coef = x[3][1]
        for m in a.get("mats", []):
            ax[m] = (Bd, ONE) if m == coef else (Sd, ONE)
        shp = Shapes(F, ev, ax)
        out = {}
        for name, term in f.items():
            try:
                out[name] = shp.shape(term)
            except Exception:
                continue
        return out, model
    except Exception:
        return {}, None


def derived_dof(F, ev, roles):
    """the degrees of freedom are not stored but derived in the accessor as `len(residuals) − dim(covariance)`: returns
    the ν term pattern (field of the residuals, field of the covariance) if the constructor's shapes make that N − (M+P)"""
    from effects import iteration_effects
    from shapes import S_, B_, P_, ONE, dadd
    hits = []
    for mb in inherent_methods(F, ADT_STATS):
        if not (mb.j.get("inputs") and ADT_STATS in mb.j["inputs"][0]):
            continue
        me = ("param", mb.key, 1)
        try:
            effs = list(iteration_effects(ev, Env(mb)))
        except RecursionError:
            continue
        for e in effs:
            if e.kind == "call" and "StudentsT" in e.cid and e.name == "ppf" and len(e.raw) >= 2:
                t = e.raw[1]
                while True:
                    if t[0] == "call" and t[1].rsplit("::", 1)[-1] in ("expect", "unwrap", "from_usize") and t[3]:
                        t = t[3][0]
                    elif t[0] == "payload" and t[2] == "ok":
                        t = t[1]
                    elif t[0] == "cast":
                        t = t[2]
                    else:
                        break
                if t[0] == "bin" and t[1] in ("Sub", "SubUnchecked"):
                    A, B = t[2], t[3]
                    if A[0] == "call" and B[0] == "call" and A[3] and B[3] and A[3][0][0] == "field" and B[3][0][0] == "field" \
                            and A[3][0][1] == me and B[3][0][1] == me:
                        hits.append((A[1].rsplit("::", 1)[-1], A[3][0][2], B[1].rsplit("::", 1)[-1], B[3][0][2]))
    if len(set(hits)) != 1:
        return None
    an, fa, bn, fb = hits[0]
    shapes_, model = stats_field_shapes(F, ev, roles)
    sa, sb = shapes_.get(fa), shapes_.get(fb)
    if sa is None or sb is None or model is None:
        return None
    Sd, Bd, Pd = ("sym", S_, model), ("sym", B_, model), ("sym", P_, model)
    okA = (an == "nrows" and sa[0] == Sd) or (an == "len" and sa[0] == Sd and sa[1] == ONE)
    tot = dadd(Bd, Pd)
    okB = (bn == "nrows" and sb[0] == tot) or (bn == "ncols" and sb[1] == tot)
    if okA and okB:
        return {"n": (an, fa), "k": (bn, fb)}
    return None


def stats_roles(F, ev):
    try:
        roles = {"dof": dof_role(F, ev)}
    except AnchorMissing:
        roles = {"dof": None}

    def ret_field(name):
        bs = inherent_methods(F, ADT_STATS, name)
        if len(bs) != 1:
            raise AnchorMissing("FitStatistics::%s" % name)
        ev.fresh_ctx()
        v = ev.ret_val(Env(bs[0]))
        fs = set(x[2] for x in walk(v) if x[0] == "field" and x[1][0] == "param")
        if len(fs) != 1:
            raise AnchorMissing("FitStatistics::%s reads %s" % (name, sorted(fs)))
        return fs.pop(), v, bs[0]

    roles["cov"], _, _ = ret_field("covariance_matrix")
    roles["wres"], _, _ = ret_field("weighted_residuals")
    roles["chi2"], _, _ = ret_field("reduced_chi2")
    # linear count = the only count used by linear_coefficients_variance
    roles["nlin"] = None
    bs = inherent_methods(F, ADT_STATS, "linear_coefficients_variance")
    if len(bs) == 1:
        ev.fresh_ctx()
        v = ev.ret_val(Env(bs[0]))
        fs = set(x[2] for x in walk(v) if x[0] == "field" and x[1][0] == "param") - {roles["cov"]}
        if len(fs) == 1:
            roles["lin"] = fs.pop()
    bs = inherent_methods(F, ADT_STATS, "nonlinear_parameters_variance")
    if len(bs) == 1 and "lin" in roles:
        ev.fresh_ctx()
        v = ev.ret_val(Env(bs[0]))
        fs = set(x[2] for x in walk(v) if x[0] == "field" and x[1][0] == "param") - {roles["cov"], roles["lin"]}
        if len(fs) == 1:
            roles["nonlin"] = fs.pop()
    bs = inherent_methods(F, ADT_STATS, "confidence_band_radius")
    if len(bs) == 1:
        env = Env(bs[0])
        fs = set()
        for cid, head, args, t, body, bi in effect_calls(ev, env):
            for a in args:
                for x in walk(a):
                    if x[0] == "field" and x[1] == ("param", bs[0].key, 1):
                        fs.add(x[2])
        fs -= {roles["dof"]}
        if len(fs) == 1:
            roles["sigma"] = fs.pop()
    if roles["dof"] is None:
        # no stored degrees of freedom: accepted only when the accessor derives them from the shapes of stored values
        d = derived_dof(F, ev, roles)
        if d is None:
            raise AnchorMissing("degrees-of-freedom role: no field reaches StudentsT::ppf and the quantile's degrees of freedom are not "
                                "`len(weighted residuals) − dim(covariance)` of stored values with shapes N and M+P")
        roles["dof_derived"] = d
        if "sigma" not in roles:
            # the band accessor now also reads the residuals and the covariance (for their sizes)
            bs = inherent_methods(F, ADT_STATS, "confidence_band_radius")
            if len(bs) == 1:
                fs = set()
                for cid, head, args, t, body, bi in effect_calls(ev, Env(bs[0])):
                    if last_seg(cid) in ("len", "nrows", "ncols", "shape"):
                        continue
                    for a in args:
                        for x in walk(a):
                            if x[0] == "field" and x[1] == ("param", bs[0].key, 1):
                                fs.add(x[2])
                fs -= {d["n"][1], d["k"][1]}
                if len(fs) == 1:
                    roles["sigma"] = fs.pop()
    for k in ("lin", "nonlin", "sigma"):
        if k not in roles:
            raise AnchorMissing("FitStatistics role `%s` cannot be resolved by use" % k)
    return roles


def last_seg(cid):
    return cid.rsplit("::", 1)[-1]


def lift_positional_ctor(F, ev, b, bi, si, s):
    """(body, env, block, aggregate term, statement) of a struct construction site — lifted to the only caller when the
    site is a private positional constructor (`fn from_parts(a, b, ..) -> Self { Self { a, b, .. } }`): the values are
    computed in that caller and are judged there, with the helper inlined"""
    env = Env(b)
    agg = ev.rvalue(env, s["rv"], (bi, si))
    if b.j.get("vis") != "pub" and not b.j.get("impl", {}).get("trait") and all(t[0] == "param" for _f, t in agg[3]):
        sites = [(c, cbi, t) for c in F.bodies.values() if c.kind != "Closure" for cbi, t in c.calls()
                 if "fn" in t and (t["fn"].get("resolved_key") or t["fn"].get("key")) == b.key]
        if len(sites) == 1:
            c, cbi, t = sites[0]
            cenv = Env(c)
            v = ev.call_val(cenv, cbi)
            while v[0] in ("payload", "opt") and len(v) > 1 and isinstance(v[1], tuple):
                v = v[1]
            if v[0] == "agg" and v[1] == agg[1]:
                return c, cenv, cbi, v, {"span": t.get("span"), "k": "call"}
    return b, env, bi, agg, s


def ctor_fields(F, ev):
    ctors = stats_ctor_bodies(F)
    if len(ctors) != 1:
        raise AnchorMissing("FitStatistics constructor sites: %d" % len(ctors))
    b, bi, si, s = ctors[0]
    ev.fresh_ctx()
    b, env, bi, agg, s = lift_positional_ctor(F, ev, b, bi, si, s)
    return b, env, dict(agg[3]), s, bi


def model_of(b):
    """the `model: &Model` argument of try_calculate = the arg whose type is &Model"""
    for i, ty in enumerate(b.j.get("inputs", [])):
        if ty.replace(" ", "") in ("&Model", "&'_Model") or ty.endswith("Model") and ty.startswith("&"):
            return ("param", b.key, i + 1)
    raise AnchorMissing("model argument of the statistics constructor")


def args_by_type(b):
    out = {}
    for i, ty in enumerate(b.j.get("inputs", [])):
        if ty.startswith("&") and ty.endswith("Model"):
            out["model"] = ("param", b.key, i + 1)
        elif ADT_WEIGHTS in ty:
            out["weights"] = ("param", b.key, i + 1)
        elif "nalgebra::Matrix" in ty:
            out.setdefault("mats", []).append(("param", b.key, i + 1))
    return out


def residual_operands(F, ev):
    """(data parameter, coefficient parameter) of the statistics constructor, told apart by use: the weighted residuals
    are `data − W·Φ·coefficients` (R-CHI2 decides that form); None when the form is not recognised"""
    sr = stats_roles(F, ev)
    b, env, f, s, bi = ctor_fields(F, ev)
    a = args_by_type(b)
    n = nfmod.NF().nf(f[sr["wres"]])
    pos = [m for m, c in n.items() if c == 1]
    neg = [m for m, c in n.items() if c == -1]
    if len(n) == 2 and len(pos) == 1 and len(neg) == 1:
        (sp, fp), (sn, fn_) = pos[0], neg[0]
        if not sp and not sn and len(fp) == 1 and len(fn_) == 3:
            y, c = fp[0][0], fn_[2][0]
            if y in a.get("mats", []) and c in a.get("mats", []) and y != c:
                return y, c
    return None


def rule_stats_args(F, ev, R, config, rule="R-STATS-ARGS"):
    """the statistics are computed from the state of the very problem the fit ended with: at every call of the statistics
    constructor the model, the weighted data, the weights and the coefficients are the corresponding roles of ONE problem
    value (accessors are inlined, views and copies are transparent), the coefficients being those of its cache. Together
    with R-CHI2 (r_w = data − W·Φ(model)·c) and R-RESID-TERM (the cache's residuals are Y_w − W·Φ·c with the cached c)
    this is what makes the reported weighted residuals those of the fit."""
    from rules_problem import resolve_cache_roles_by_use
    from rules_panic import nosite
    b, env, f, s, bi = ctor_fields(F, ev)
    a = args_by_type(b)
    yc = residual_operands(F, ev)
    if yc is None or "model" not in a or "weights" not in a:
        R.bad(rule, config, b.key, "anchor-missing", "operands of the statistics constructor not identified (see R-CHI2)")
        return
    pr = problem_roles(F)
    cuse = resolve_cache_roles_by_use(F, ev)
    want = {a["model"][2]: ("model", pr["model"]), yc[0][2]: ("data", pr["data"]), a["weights"][2]: ("weights", pr["weights"]), yc[1][2]: ("coefficients", None)}
    # whole-value views and copies; `column(0)` is the whole coefficient matrix of a single-right-hand-side problem (the only
    # kind statistics are offered for, witness W-…): any other sub-view (a row range, another column) is NOT the value
    VIEWS = ("as_view", "clone", "clone_owned", "into_owned", "as_ref", "deref", "borrow")

    def strip(t):
        while t[0] == "call" and t[3]:
            n_ = t[1].rsplit("::", 1)[-1]
            if n_ in VIEWS:
                t = t[3][0]
            elif n_ == "column" and len(t[3]) == 2 and t[3][1] == ("const", "usize", 0):
                t = t[3][0]
            else:
                break
        return t
    # call sites in the terms of the function that owns them (the call may sit in a closure: `coeffs.and_then(|c| Stats::new(…, c))`)
    from effects import iteration_effects
    evw = Eval(F, opaque=set(ev.opaque) | {b.key})
    cid = strip_generics(b.j["path"])
    roots = set()
    for cb in F.bodies.values():
        for ci, t in cb.calls():
            if "fn" in t and (t["fn"].get("resolved_key") or t["fn"].get("key")) == b.key:
                roots.add(cb.j.get("root", cb.key) if cb.kind == "Closure" else cb.key)
    for rk in sorted(roots):
        cb = F.bodies[rk]
        sites = [e for e in iteration_effects(evw, Env(cb)) if e.kind == "call" and e.cid == cid]
        if not sites:
            R.bad(rule, config, cb.key, "anchor-missing", "the call of the statistics constructor is not reached through modelled adapters (undetermined)", cb.j["span"])
        for e in sites:
            t = e.term
            bases = {}
            for i, op in enumerate(e.raw):
                role, fld = want.get(i + 1, (None, None))
                if role is None:
                    continue
                v = strip(op)
                ok, base = False, None
                if role == "coefficients":
                    # payload(field(P, cache)).coefficient role
                    if v[0] == "field" and v[2] == cuse["coeff"] and v[1][0] == "payload" and v[1][2] == "ok":
                        c = v[1][1]
                        if c[0] == "field" and c[2] == pr["cache"]:
                            ok, base = True, c[1]
                elif v[0] == "field" and v[2] == fld:
                    ok, base = True, v[1]
                if ok:
                    bases[role] = nosite(base)
                R.add(rule, config, cb.key, "statistics-of-%s" % role, ok,
                      "" if ok else "the %s handed to the statistics is `%s`, not the %s of the fitted problem" % (role, short(v)[:120], role), t.get("span"))
            same = len(bases) == 4 and len(set(map(repr, bases.values()))) == 1
            R.add(rule, config, cb.key, "statistics-of-one-problem", same,
                  "" if same else "the statistics' inputs are taken from different problem values: %s" % {k: short(v)[:60] for k, v in bases.items()}, t.get("span"))
    R.floor(rule, config, 5, "four inputs + one problem at the statistics call site")


def rule_chi2(F, ev, R, config, rule="R-CHI2"):
    sr = stats_roles(F, ev)
    b, env, f, s, bi = ctor_fields(F, ev)
    a = args_by_type(b)
    model, W = a["model"], a["weights"]
    # weighted residuals = Y_w − W·Φ·c
    wres = f[sr["wres"]]
    N = nfmod.NF()
    n = N.nf(wres)
    evl = ("payload", ("call", TRAIT_MODEL + "::eval", None, (model,), None), "ok", "0")
    ok = False
    msg = "weighted residuals have normal form %s" % nfmod.show(n, short)[:300]
    if len(n) == 2:
        pos = [m for m, c in n.items() if c == 1]
        neg = [m for m, c in n.items() if c == -1]
        if len(pos) == 1 and len(neg) == 1:
            (sp, fp), (sn, fn_) = pos[0], neg[0]
            if not sp and not sn and len(fp) == 1 and len(fn_) == 3:
                y, (w, phi, c) = fp[0], fn_
                okw = w == (("W", W), False)
                okphi = phi[0][0] == "payload" and phi[0][1][0] == "call" and phi[0][1][1] == TRAIT_MODEL + "::eval" and phi[0][1][3] == (model,) and not phi[1]
                oky = y[0] in a.get("mats", []) and c[0] in a.get("mats", []) and y[0] != c[0] and not y[1] and not c[1]
                ok = okw and okphi and oky
                if ok:
                    msg = "r_w = %s" % nfmod.show(n, short)[:200]
    R.add(rule, config, b.key, "weighted_residuals=Yw−W·Φ·c", ok, msg, s.get("span"))
    # reduced chi2 = normsq(wres)/from_usize(dof)
    chi = f[sr["chi2"]]
    ok = False
    msg = "reduced chi² is `%s`" % short(chi)[:200]
    if chi[0] == "call" and chi[1] == "std::ops::Div::div":
        num, den = chi[3]
        d = ok_of(den)
        okn = num[0] == "call" and num[1].endswith("norm_squared") and num[3][0] == wres
        if sr["dof"] is not None:
            okd = d is not None and d[0] == "call" and d[1].endswith("from_usize") and d[3][0] == f[sr["dof"]]
        else:
            okd = d is not None and d[0] == "call" and d[1].endswith("from_usize") and match_dof(d[3][0]) is not None
        ok = okn and okd
        if not okn:
            msg = "numerator `%s` is not the squared norm of the weighted residuals" % short(num)[:120]
        elif not okd:
            msg = "denominator `%s` is not the degrees of freedom" % short(den)[:120]
    R.add(rule, config, b.key, "reduced_chi2=‖r_w‖²/dof", ok, "" if ok else msg, s.get("span"))
    # regression standard error = sqrt(reduced chi2)
    for sb in inherent_methods(F, ADT_STATS, "regression_standard_error"):
        ev.fresh_ctx()
        v = ev.ret_val(Env(sb))
        ok = v[0] == "call" and v[1].endswith("::sqrt") and v[3][0] == ("field", ("param", sb.key, 1), sr["chi2"])
        if not ok and v[0] == "field" and v[1] == ("param", sb.key, 1) and v[2] in f:
            # the value is kept next to the χ² it is derived from: the constructor must store exactly sqrt(χ²_red) there
            # (the statistics are sealed — R-STATS-SEALED — so the stored value is the one read here)
            st = f[v[2]]
            ok = st[0] == "call" and st[1].endswith("::sqrt") and len(st[3]) == 1 and st[3][0] == chi
        R.add(rule, config, sb.key, "std-error=sqrt(chi2)", ok, "" if ok else "returns `%s`" % short(v)[:120], sb.j["span"])
    R.floor(rule, config, 3, "residuals, chi2, standard error")


def is_scalar_term(t):
    if t[0] == "call":
        last = t[1].rsplit("::", 1)[-1]
        if last in ("sqrt", "norm_squared", "norm", "from_usize", "dot", "powi", "abs"):
            return True
        if t[1] in ("std::ops::Div::div", "std::ops::Mul::mul") and all(is_scalar_term(a) for a in t[3]):
            return True
    if t[0] == "payload" and t[2] == "ok":
        return is_scalar_term(t[1])
    return False


def find_model_jacobian(F, ev, b, env, model):
    """the unweighted model-function Jacobian term J used by the statistics: the value whose
    rows feed the confidence sigma closure; returns (J term, helper bodies)"""
    # J = payload of a local Result-returning fn taking the model: find its call in b
    cands = []
    for bi, t in b.calls():
        if "fn" in t and t["fn"].get("key") in F.bodies:
            cb = F.bodies[t["fn"]["key"]]
            if any(is_model_call(tt, "eval_partial_deriv") for _, tt in cb.calls()):
                cands.append((bi, t, cb))
    return cands


def column_source(val):
    """(SRC matrix, column index term) if val denotes one column of SRC: `SRC.column(k)` or an
    element of `SRC.column_iter()[.enumerate()]`"""
    import effects as fx
    v = val
    while v[0] == "mutated":
        v = v[1]
    if v[0] == "call" and v[1].rsplit("::", 1)[-1] == "column" and len(v[3]) == 2:
        return base_alloc(v[3][0]), v[3][1]
    comp = iter_component(v)
    if comp:
        it, path, e = comp
        if path == ("1",) and it[0] == "call" and it[1].rsplit("::", 1)[-1] == "enumerate":
            src = fx.base_iter(it[3][0])
            if src[0] == "call" and src[1].rsplit("::", 1)[-1] in ("column_iter", "column_iter_mut"):
                return base_alloc(src[3][0]), ("field", e, "0")
    return None


def full_index_over(k, M, ev=None):
    """k enumerates all columns of M: loop variable of 0..ncols(M) or the enumerate index of M's column iteration"""
    import effects as fx
    if k is None:
        return False
    if k[0] == "elem":
        it = fx.base_iter(k[1])
        if it[0] == "agg" and it[1].endswith("ops::Range") and dict(it[3]).get("start") == ("const", "usize", 0):
            end = dimval(dict(it[3]).get("end"))
            return end[0] == "call" and end[1].endswith("Matrix::ncols") and base_alloc(end[3][0]) == M
    if k[0] == "field" and k[2] == "0" and k[1][0] == "elem":
        it = fx.base_iter(k[1][1])
        if it[0] == "call" and it[1].rsplit("::", 1)[-1] == "enumerate":
            src = fx.base_iter(it[3][0])
            return src[0] == "call" and src[1].rsplit("::", 1)[-1] in ("column_iter", "column_iter_mut") and base_alloc(src[3][0]) == M
    return False


def stats_jacobian(F, ev):
    """the unweighted model-function Jacobian J the statistics are built from: the matrix that the weights multiply
    inside the inverted normal matrix of the covariance. Returns (ctor body, env, fields, stmt, args, J term)."""
    from rules_panic import nosite
    sr = stats_roles(F, ev)
    b, env, f, s, sbi = ctor_fields(F, ev)
    a = args_by_type(b)
    cov = f[sr["cov"]]
    invs = [x for x in walk(cov) if x[0] == "call" and len(x) == 5 and x[1].rsplit("::", 1)[-1] in ("try_inverse", "pseudo_inverse", "cholesky", "lu", "qr", "try_inverse_mut")]
    Js = []
    for inv in invs[:1]:
        for x in walk(inv[3][0]):
            if x[0] == "call" and len(x) == 5 and x[1] == "std::ops::Mul::mul" and x[2] == ADT_WEIGHTS and len(x[3]) == 2 and x[3][0] == a.get("weights"):
                if not any(nosite(x[3][1]) == nosite(y) for y in Js):
                    Js.append(x[3][1])
    if len(Js) != 1:
        raise AnchorMissing("model-function Jacobian not identified: %d different matrices are weighted inside the inverted normal matrix" % len(Js))
    return b, env, f, s, a, Js[0]


def rule_model_jac(F, ev, R, config, rule="R-MODEL-JAC"):
    """J = [Φ | (∂_idx Φ · c)_idx]: left block copied to columns idx, right block to idx + |left| — decided on the
    canonical column writes (tab.py) of the constructor with all helpers inlined: where the code lives (one helper,
    several, none) and whether it loops by index, by iterator or by enumerate does not matter"""
    import effects as fx
    import tab
    from rules_panic import nosite
    try:
        b, env, f, s, a, J = stats_jacobian(F, ev)
    except AnchorMissing as ex:
        R.bad(rule, config, "-", "anchor-missing", str(ex))
        return
    model = a["model"]
    cn = tab.Canon(ev)
    effs = list(fx.iteration_effects(ev, env))
    writes = tab.column_writes(cn, effs)
    CAT = container_id(cn.container(J))
    evl = lambda t: t[0] == "payload" and is_call(t[1], TRAIT_MODEL + "::eval") and t[1][3] == (model,)
    cat_w = [w for w in writes if container_id(w.D) == CAT]
    left = right = None
    for w in cat_w:
        v = w.val
        if v[0] != "col":
            continue
        k, sk = w.idx[0], v[2]
        if sk[0] != "iv":
            continue
        if k == sk:
            left = (w, v[1], sk)
        else:
            off = tab.nlin(cn, ("bin", "Sub", k, sk))
            if off is not None and sk not in off:
                right = (w, v[1], sk, off)
    nl_ok = left_ok = right_ok = False
    nl_alloc = left_src = right_src = None
    if left:
        w, SRC, sk = left
        left_src = SRC
        left_ok = tab.extent_covers(cn, w, sk, ("ncols", SRC)) and tab.written_each_iteration(cn, w, sk)[0]
    if right and left_src is not None:
        w, SRC, sk, off = right
        right_src = SRC
        want = tab.nlin(cn, ("ncols", left_src))
        right_ok = off == want and tab.extent_covers(cn, w, sk, ("ncols", SRC)) and tab.written_each_iteration(cn, w, sk)[0]
    # the nonlinear block: column idx ← ∂_idx Φ · c, for every idx below |P|
    cvec = None
    if right_src is not None:
        for w in writes:
            if container_id(w.D) != container_id(right_src):
                continue
            v = w.val
            if v[0] == "call" and v[1] == "std::ops::Mul::mul" and len(v[3]) == 2:
                d, c = v[3]
                d0 = ok_of(d)
                if d0 is not None and is_call(d0, TRAIT_MODEL + "::eval_partial_deriv"):
                    nl_alloc = w.D
                    cvec = c
                    k = w.idx[0]
                    nl_ok = d0[3][0] == model and d0[3][1] == k and k[0] == "iv" and tab.extent_covers(cn, w, k, ("ncols", w.D))
    okargs = cvec is not None and cvec in a.get("mats", [])
    R.add(rule, config, b.key, "J(model, coefficients)", okargs, "" if okargs else "the derivative block is multiplied by `%s`, not by the linear coefficients argument" % (short(cvec)[:60] if cvec else None), s.get("span"))
    R.add(rule, config, b.key, "nonlinear-block: col idx ← ∂_idx Φ · c", nl_ok,
          "" if nl_ok else "the derivative block is not filled with eval_partial_deriv(model, idx)·c at column idx for every idx", s.get("span"))
    okalloc = False
    dims = tab.alloc_dims(nl_alloc) if nl_alloc is not None else None
    if dims is not None and dims[1] is not None:
        okalloc = is_call(dims[0], TRAIT_MODEL + "::output_len") and is_call(dims[1], TRAIT_MODEL + "::parameter_count")
    R.add(rule, config, b.key, "nonlinear-block: |S|×|P|", okalloc, "" if okalloc else "derivative block allocated as `%s`" % (short(nl_alloc)[:120] if nl_alloc else None), s.get("span"))
    R.add(rule, config, b.key, "concat: left block at columns idx", left_ok, "" if left_ok else "left block is not copied column idx → column idx (all columns)", s.get("span"))
    R.add(rule, config, b.key, "concat: right block at columns idx+|left|", right_ok, "" if right_ok else "right block is not copied column idx → column idx + ncols(left) (all columns)", s.get("span"))
    okorder = (left_src is not None and right_src is not None and nl_alloc is not None and evl(left_src) and container_id(right_src) == container_id(nl_alloc))
    R.add(rule, config, b.key, "order: [Φ | derivatives]", okorder,
          "" if okorder else "the concatenation is not [eval(model) | derivative block]: left=%s right=%s" % (short(left_src)[:60] if left_src else None, short(right_src)[:60] if right_src else None), s.get("span"))
    okcat = False
    cd = tab.alloc_dims(cn.container(J))
    if cd is not None and cd[1] is not None and left_src is not None and right_src is not None:
        okcat = tab.nlin(cn, cd[1]) == tab.nlin(cn, ("bin", "Add", ("ncols", left_src), ("ncols", right_src)))
    R.add(rule, config, b.key, "concat: |left|+|right| columns", okcat, "" if okcat else "concatenation allocated as `%s`" % short(cn.container(J))[:120], s.get("span"))
    R.floor(rule, config, 7, "seven clauses of the model-function Jacobian")


def rule_covariance(F, ev_unused, R, config, rule="R-COVARIANCE"):
    """cov = χ²_red · inv((W·J)ᵀ(W·J)) — decided once per variant of the weights (the constructor, or a helper it hands the
    weights to, may distinguish the variants itself: `match weights { Unit => borrow J, Diagonal(_) => weights * J.clone() }`):
    for Diagonal the normal form is exactly (W·J)ᵀ(W·J); for Unit, where W·X is X, it is that form or JᵀJ."""
    from rules_panic import nosite
    from rules_problem2 import weight_variants
    ev = Eval(F, opaque=[k for k in F.bodies if " as std::ops::Mul<" in k])
    sr0 = stats_roles(F, ev)
    try:
        b, env, f, s, a, J = stats_jacobian(F, ev)
    except AnchorMissing as ex:
        R.bad(rule, config, "-", "anchor-missing", str(ex))
        return
    Jn = nosite(J)
    # J is one symbol in the normal form, however it was built (R-MODEL-JAC decides what it is)
    atomJ = ("atomJ",)
    W = a["weights"]
    sbi, ssi = None, None
    for bi_, si_, st_ in b.stmts():
        if st_ is s:
            sbi, ssi = bi_, si_

    def sub(t, unit):
        if isinstance(t, tuple):
            if nosite(t) == Jn:
                return atomJ
            if unit and t and t[0] == "call" and len(t) == 5 and t[1] == "std::ops::Mul::mul" and t[2] == ADT_WEIGHTS and len(t[3]) == 2 and t[3][0] == W:
                return sub(t[3][1], unit)     # W·X = X for unit weights (R-ROW-SCALING)
            return tuple(sub(x, unit) if isinstance(x, tuple) else x for x in t)
        return t

    def check(fv, unit):
        cov = fv[sr0["cov"]]
        N = nfmod.NF(is_scalar=is_scalar_term)
        n = N.nf(sub(cov, unit))
        msg = "covariance has normal form %s" % nfmod.show(n, short)[:300]
        if len(n) != 1:
            return False, msg, n
        (sc, fac), c = list(n.items())[0]
        chi = fv[sr0["chi2"]]
        okc = c == 1 and sc == (("atom", sub(chi, unit)),)
        inv = fac[0][0] if len(fac) == 1 else None
        oki = False
        if inv and inv[0] == "payload" and inv[1][0] == "call" and inv[1][1].endswith("try_inverse"):
            X = inv[1][3][0]
            nx = nfmod.NF().nf(X)
            if len(nx) == 1:
                (s2, f2), c2 = list(nx.items())[0]
                if c2 == 1 and not s2 and len(f2) == 4 and not unit:
                    (j1, t1), (w1, _), (w2, _), (j2, t2) = f2
                    Wt = ("W", W)
                    oki = j1 == j2 == atomJ and t1 and not t2 and w1 == Wt and w2 == Wt
                if c2 == 1 and not s2 and len(f2) == 2 and unit:
                    (j1, t1), (j2, t2) = f2
                    oki = j1 == j2 == atomJ and t1 and not t2
            if not oki:
                msg = "the inverted matrix is `%s`, expected (W·J)ᵀ(W·J)" % nfmod.show(nx, short)[:300]
        elif inv:
            msg = "covariance is not built from an inverse: %s" % short(inv)[:120]
        if okc and oki:
            return True, "covariance = %s" % nfmod.show(n, short)[:200], n
        if not okc:
            msg = "covariance scale is `%s`, expected the reduced χ² (σ²)" % [short(x[1])[:80] for x in sc]
        return False, msg, n

    ok, msg = True, ""
    for var in weight_variants(F):
        with ev.assuming(W, var):
            env_v = ev.inline_env(b, {}, 0)
            agg = ev.rvalue(env_v, s["rv"], (sbi, ssi)) if sbi is not None else None
        fv = dict(agg[3]) if agg is not None and agg[0] == "agg" else f
        okv, msgv, _n = check(fv, var == "Unit")
        if okv:
            msg = msg or msgv
        else:
            ok, msg = False, "for %s weights: %s" % (var, msgv)
            break
    R.add(rule, config, b.key, "cov=χ²_red·inv((W·J)ᵀ(W·J))", ok, msg, s.get("span"))
    # an in-place inversion (`try_inverse_mut`) reports success through its flag only: the statistics may be built only
    # where that flag is known to be true (the evaluator takes the matrix for its inverse after the call)
    if sbi is not None:
        g = Guards(ev, b, env)
        rels, raw = g.relations_at(sbi)
        held = [nosite(t_) for t_, tr, sw in raw if tr is True]
        for xb, xenv in inlined_envs(ev, env):
            for cbi, ct in xb.calls():
                if "fn" in ct and ct["fn"]["name"] == "try_inverse_mut":
                    flag = nosite(ev.call_val(xenv, cbi))
                    okf = flag in held
                    R.add(rule, config, xb.key, "in-place-inverse-used-only-on-success", okf,
                          "" if okf else "the statistics are built on a path where `try_inverse_mut` is not known to have succeeded: on failure the matrix is not an inverse",
                          ct.get("span"))
    R.floor(rule, config, 1, "covariance formula")


def iter_component(t):
    """decompose `field(field(elem(IT), a), b)…` into (base iterator IT, path tuple) or None"""
    import effects as fx
    path = []
    while t[0] == "field" and t[2] in ("0", "1"):
        path.append(t[2])
        t = t[1]
    if t[0] != "elem":
        return None
    return fx.base_iter(t[1]), tuple(reversed(path)), t


def enumerated_index_of(ptr):
    """for an element `x` taken from `enumerate(IT)` (path …,'1') return the matching index term (…,'0')"""
    if ptr[0] == "field" and ptr[2] == "1":
        return ("field", ptr[1], "0")
    return None


def rule_var_slices(F, ev_unused, R, config, rule="R-VAR-SLICES"):
    """variance accessors = the diagonal segments [0,|B|) and [|B|,|B|+|P|) of the covariance —
    decided on the canonical tabulation of the returned vector (tab.py): element k of the result is
    cov[k+start, k+start] for every k below the segment length, whatever helpers, loop forms,
    generators or intermediate diagonal vectors the accessor uses"""
    import effects as fx
    import tab
    ev0 = Eval(F, opaque=[k for k in F.bodies if " as std::ops::Mul<" in k])
    sr = stats_roles(F, ev0)
    lin = inherent_methods(F, ADT_STATS, "linear_coefficients_variance")[0]
    non = inherent_methods(F, ADT_STATS, "nonlinear_parameters_variance")[0]
    for b, which in ((lin, "lin"), (non, "non")):
        me = ("param", b.key, 1)
        L, P = ("field", me, sr["lin"]), ("field", me, sr["nonlin"])
        cov = ("field", me, sr["cov"])
        env = Env(b)
        cn = tab.Canon(ev0)
        effs = list(fx.iteration_effects(ev0, env))
        ev0.fresh_ctx()
        rv = ev0.ret_val(env)
        T, why = tab.tab_of(cn, effs, rv)
        ok = False
        msg = "the returned vector is not recognised as filled element by element: " + why
        if T is not None and len(T["ivs"]) == 1:
            k = T["ivs"][0]
            v = T["val"]
            if not (v[0] == "at" and v[1] == cov and len(v) == 4):
                msg = "element k of the result is `%s`, not an element of the covariance matrix" % short(v)[:120]
            elif v[2] != v[3]:
                msg = "element k of the result is cov[%s, %s]: not a diagonal element" % (short(v[2])[:50], short(v[3])[:50])
            else:
                off = tab.ilin(v[2])
                if off is None or off.get(k) != 1:
                    msg = "element k of the result is cov[%s, ·]: not k + start" % short(v[2])[:60]
                else:
                    start = {a: c for a, c in off.items() if a != k}
                    n = tab.ilin(T["dims"][0]) if T["dims"] else None
                    want_start, want_n, seg = ({}, {L: 1}, "linear [0,|B|)") if which == "lin" else ({L: 1}, {P: 1}, "nonlinear [|B|,|B|+|P|)")
                    if start != want_start or n != want_n:
                        msg = "the result has length `%s` and starts at offset `%s`: not the %s segment of the diagonal" % (
                            short(T["dims"][0])[:60] if T["dims"] else None, " + ".join("%s·%s" % (c, short(a) if a else "1") for a, c in start.items()) or "0", seg)
                    elif not T["complete"]:
                        msg = "not every element of the result is written (loop bounds `%s` vs length `%s`, or a conditional store)" % (
                            short(cn.extent.get(k[1]))[:60] if cn.extent.get(k[1]) else None, short(T["dims"][0])[:60])
                    else:
                        ok = True
        R.add(rule, config, b.key, "diag-segment", ok, "" if ok else msg, b.j["span"])
        R.add(rule, config, b.key, "returns-the-filled-vector", T is not None, "" if T is not None else "the accessor does not return a vector it fills: " + why, b.j["span"])
    # count roles initialised from the matching model count
    b, env, f, s, _ = ctor_fields(F, ev0)
    a = args_by_type(b)
    ok = f[sr["lin"]][0] == "call" and f[sr["lin"]][1] == TRAIT_MODEL + "::base_function_count" and f[sr["lin"]][3] == (a["model"],)
    R.add(rule, config, b.key, "linear-count=base_function_count", ok, "" if ok else "linear coefficient count initialised with `%s`" % short(f[sr["lin"]])[:100], s.get("span"))
    ok = f[sr["nonlin"]][0] == "call" and f[sr["nonlin"]][1] == TRAIT_MODEL + "::parameter_count" and f[sr["nonlin"]][3] == (a["model"],)
    R.add(rule, config, b.key, "nonlinear-count=parameter_count", ok, "" if ok else "nonlinear parameter count initialised with `%s`" % short(f[sr["nonlin"]])[:100], s.get("span"))
    R.floor(rule, config, 6, "two accessors × (segment, return) + two counts")


def resolve_collected(t, ev):
    """`x` taken from `enumerate(iter(collect(map(0..n, f))))` is f(index): rewrite such an element
    to the closure applied to the matching index (a Vec built by mapping over a 0-based range)"""
    import effects as fx
    if t[0] == "field" and t[2] == "1" and t[1][0] == "elem":
        it = fx.base_iter(t[1][1])
        if it[0] == "call" and it[1].rsplit("::", 1)[-1] == "enumerate":
            src = fx.base_iter(it[3][0])
            while src[0] == "call" and src[1].rsplit("::", 1)[-1] in ("iter", "into_iter"):
                src = fx.base_iter(src[3][0])
            if src[0] == "call" and src[1].rsplit("::", 1)[-1] == "collect":
                m = fx.base_iter(src[3][0])
                if m[0] == "call" and m[1].rsplit("::", 1)[-1] == "map" and m[3][1][0] == "closure":
                    rng = fx.base_iter(m[3][0])
                    if rng[0] == "agg" and rng[1].endswith("ops::Range") and dict(rng[3]).get("start") == ("const", "usize", 0):
                        cb = ev.facts.bodies.get(m[3][1][1])
                        if cb is not None:
                            idx = ("field", t[1], "0")
                            v = ev.ret_val(Env(cb, {1: m[3][1], 2: idx}, 2))
                            return v, dict(rng[3]).get("end")
    return None, None


def rule_correlation(F, ev, R, config, rule="R-CORRELATION"):
    """corr[i,j] = cov[i,j] / sqrt(cov[i,i]·cov[j,j]) for every (i,j) of the covariance's shape — decided
    on the canonical tabulation of the returned matrix (nested index loops, from_fn, helper functions)"""
    import effects as fx
    import tab
    acc = inherent_methods(F, ADT_STATS, "calculate_correlation_matrix")
    if len(acc) != 1:
        R.bad(rule, config, "-", "anchor-missing", "calculate_correlation_matrix")
        return
    # the deprecated twin accessor must satisfy the same formula
    for ab in acc + inherent_methods(F, ADT_STATS, "correlation_matrix"):
        _correlation_of(F, ev, R, config, rule, ab)
    R.floor(rule, config, 2, "element formula + every entry written")


def _correlation_of(F, ev, R, config, rule, ab):
    import effects as fx
    import tab
    sr = stats_roles(F, ev)
    env0 = Env(ab)
    cov = ("field", ("param", ab.key, 1), sr["cov"])
    cn = tab.Canon(ev)
    effs = list(fx.iteration_effects(ev, env0))
    ev.fresh_ctx()
    rv = ev.ret_val(env0)
    T, why = tab.tab_of(cn, effs, rv)
    ok = False
    msg = "the returned matrix is not recognised as filled element by element: " + why
    if T is not None:
        v = T["val"]
        if len(T["ivs"]) != 2:
            msg = "the result is not indexed by a pair of independent loop indices"
        else:
            i, j = T["ivs"]

            def is_cov(t, a_, b_):
                return t == ("at", cov, a_, b_)
            okv = False
            if v[0] == "call" and v[1] == "std::ops::Div::div":
                num, den = v[3]
                okn = is_cov(num, i, j) or is_cov(num, j, i)
                okd = False
                if den[0] == "call" and den[1].endswith("::sqrt"):
                    p_ = den[3][0]
                    if p_[0] == "call" and p_[1] == "std::ops::Mul::mul":
                        x, y = p_[3]
                        okd = (is_cov(x, i, i) and is_cov(y, j, j)) or (is_cov(x, j, j) and is_cov(y, i, i))
                okv = okn and okd
                if not okn:
                    msg = "numerator `%s` is not cov(i,j)" % short(num)[:100]
                elif not okd:
                    msg = "denominator `%s` is not sqrt(cov(i,i)·cov(j,j))" % short(den)[:140]
            else:
                msg = "element value `%s`" % short(v)[:120]
            want = (("nrows", cov), ("ncols", cov))
            okshape = tuple(T["dims"]) in (want, (("nrows", cov), ("nrows", cov)), (("ncols", cov), ("ncols", cov)))
            if okv and not okshape:
                msg = "result not allocated with the covariance's shape: %s" % ", ".join(short(d)[:40] for d in T["dims"])
            ok = okv and okshape
    R.add(rule, config, ab.key, "corr(i,j)=cov(i,j)/sqrt(cov(i,i)cov(j,j))", ok, "" if ok else msg, ab.j["span"])
    okw = T is not None and T["complete"]
    msgw = "" if okw else ("an entry of the correlation matrix can keep its initial value (a conditional store, or loops that do not range over the full square): "
                           "the matrix is no longer the normalised covariance" if T is not None else "no element-wise construction recognised")
    R.add(rule, config, ab.key, "every-entry-written", okw, msgw, ab.j["span"])


def affine_in(t, x):
    """(a, b) with t = a·x + b for f64 primitive arithmetic, or None"""
    if t == x:
        return (1.0, 0.0)
    if t[0] == "const" and isinstance(t[2], (int, float)):
        return (0.0, float(t[2]))
    if t[0] == "bin" and t[1] in ("Add", "Sub", "Mul", "Div"):
        l, r = affine_in(t[2], x), affine_in(t[3], x)
        if l is None or r is None:
            return None
        if t[1] == "Add":
            return (l[0] + r[0], l[1] + r[1])
        if t[1] == "Sub":
            return (l[0] - r[0], l[1] - r[1])
        if t[1] == "Mul":
            if l[0] == 0:
                return (l[1] * r[0], l[1] * r[1])
            if r[0] == 0:
                return (l[0] * r[1], l[1] * r[1])
            return None
        if t[1] == "Div":
            if r[0] == 0 and r[1] != 0:
                return (l[0] / r[1], l[1] / r[1])
            return None
    if t[0] == "un" and t[1] == "Neg":
        l = affine_in(t[2], x)
        return None if l is None else (-l[0], -l[1])
    if t[0] == "call" and len(t) == 5 and t[1].rsplit("::", 1)[-1] == "midpoint" and len(t[3]) == 2 and ("f64" in t[1] or "f32" in t[1] or "num::" in t[1]):
        # f64::midpoint(a, b) = (a + b) / 2 (evaluated as exactly that expression unless an operand is near the overflow threshold)
        l, r = affine_in(t[3][0], x), affine_in(t[3][1], x)
        if l is None or r is None:
            return None
        return ((l[0] + r[0]) / 2, (l[1] + r[1]) / 2)
    return None


def rule_band(F, ev, R, config, rule="R-BAND"):
    sr = stats_roles(F, ev)
    bs = inherent_methods(F, ADT_STATS, "confidence_band_radius")
    if len(bs) != 1:
        R.bad(rule, config, "-", "anchor-missing", "confidence_band_radius")
        return
    # the method with its private non-bool helpers spliced in (the quantile may be computed in a helper); bool-valued
    # helpers (a predicate `is_valid_probability`) stay calls and are expanded as formulas (logic.py)
    import inline
    import logic
    boolfns = [k for k, x in F.bodies.items() if x.kind != "Closure" and x.j.get("output") == "bool"]
    b = inline.inlined(F, bs[0], no_inline=set(default_opaque(F)) | set(boolfns))
    evb = Eval(F, opaque=set(ev.opaque) | set(boolfns))
    env = Env(b)
    me = ("param", b.key, 1)
    p = ("param", b.key, 2)
    g = Guards(evb, b, env)
    ppf = None
    for bi, t in b.calls():
        if "fn" in t and "StudentsT" in t["fn"]["path"] and t["fn"]["name"] == "ppf":
            ppf = (bi, t)
    if ppf is None:
        R.bad(rule, config, b.key, "anchor-missing", "no Student-t quantile call", b.j["span"])
        return
    pbi, pt = ppf
    q = ev.operand(env, pt["args"][0], (pbi, None))
    nu = ev.operand(env, pt["args"][1], (pbi, None))
    # --- precondition table, on guard formulas: finite(p) ∧ 0 < p ∧ p < 1 hold wherever the quantile is computed
    L = logic.Logic(evb)
    conds = L.conditions_at(b, env, pbi)

    def conj(pred):
        st = list(conds)
        while st:
            f = st.pop()
            if pred(f):
                return True
            if f[0] == "and":
                st.extend(f[1])
        return False
    # the tests may be made on p itself (against the trait's ZERO / ONE) or on its exact widening `into_f64(p)` (against the
    # literals 0.0 / 1.0): the conversion is the identity or the f32→f64 cast (checked below), which preserves order,
    # finiteness and NaN
    p64 = ("call", "statistics::numeric_traits::CastF64::into_f64", None, (p,), None)
    isp = lambda x: x == p or (x[0] == "call" and x[1].endswith("CastF64::into_f64") and x[3] == (p,))
    isconst = lambda x, nm, val, of: (x[0] == "constitem" and x[1].endswith("::" + nm) and of == p) or \
        (x[0] == "const" and x[1] == "f64" and x[2] == val and of != p)
    have = {
        "finite": conj(lambda f: f[0] == "atom" and f[1][0] == "call" and f[1][1].endswith("::is_finite") and len(f[1][3]) == 1 and isp(f[1][3][0])),
        ">0": conj(lambda f: f[0] == "rel" and f[1] == "Lt" and isp(f[3]) and isconst(f[2], "ZERO", 0.0, f[3])),
        "<1": conj(lambda f: f[0] == "rel" and f[1] == "Lt" and isp(f[2]) and isconst(f[3], "ONE", 1.0, f[2])),
    }
    for cb in F.bodies.values():
        if cb.kind != "Closure" and cb.name == "into_f64" and "CastF64" in cb.j.get("impl", {}).get("trait", ""):
            v = evb.ret_val(Env(cb))
            me1 = ("param", cb.key, 1)
            okc = v == me1 or (v[0] == "cast" and v[1] == "FloatToFloat" and v[2] == me1 and v[3] == "f64")
            if not okc and v[0] == "call" and v[1] in ("std::convert::Into::into", "std::convert::From::from") and v[3] == (me1,) \
                    and cb.j.get("inputs") == ["f32"] and cb.j.get("output") == "f64":
                okc = True    # std's `impl From<f32> for f64`: the lossless conversion
            R.add(rule, config, cb.key, "into_f64-is-the-exact-widening", okc, "" if okc else "into_f64 computes `%s`" % short(v)[:80], cb.j["span"])
    for k, v in have.items():
        R.add(rule, config, b.key, "continues-only-if:p " + k, v, "" if v else "the quantile is computed without requiring probability %s" % k, pt.get("span"))
    # ZERO / ONE constants of the cast trait are 0 and 1
    for key, c in F.consts.items():
        if key.endswith("CastF64>::ZERO"):
            ok = c.get("val") == 0
            R.add(rule, config, key, "ZERO=0", ok, "" if ok else "ZERO is not 0", c.get("span"))
        if key.endswith("CastF64>::ONE"):
            ok = c.get("val") in (4607182418800017408, 1065353216)
            R.add(rule, config, key, "ONE=1", ok, "" if ok else "ONE is not 1.0", c.get("span"))
    # the documented panic is reached exactly when the precondition fails: only through the edges, of the tests that
    # guard the quantile, that do NOT lead to it
    panics = [bi for bi, t in b.calls() if "fn" in t and t["fn"]["path"].startswith("core::panicking::panic") and t["t"] is None]
    if panics and all(have.values()):
        comp = []
        for sw, vals in g.dominating_conditions(pbi):
            if not contains(sw["term"], lambda x: x == p):
                continue
            outs = [(sw["block"], tg) for _, tg in sw["targets"]] + [(sw["block"], sw["otherwise"])]
            to_ppf = set(e for e in outs if e[1] == pbi or pbi in b.reachable(e[1], avoid=[sw["block"]]))
            comp.append([e for e in outs if e not in to_ppf])
        okp = bool(comp) and all(g.holds_on_all_paths_to(pb, comp) for pb in panics)
        R.add(rule, config, b.key, "panic-only-if-precondition-fails", okp, "" if okp else "the precondition panic is reachable with a valid probability", b.j["span"])
    # --- quantile argument (p+1)/2
    x = ("call", "statistics::numeric_traits::CastF64::into_f64", None, (p,), None)
    xs = [t for t in walk(q) if t[0] == "call" and t[1].endswith("CastF64::into_f64") and t[3] == (p,)]
    aff = affine_in(q, xs[0]) if xs else None
    ok = aff is not None and abs(aff[0] - 0.5) < 1e-15 and abs(aff[1] - 0.5) < 1e-15
    R.add(rule, config, b.key, "quantile-level=(1+p)/2", ok, "" if ok else "quantile level is `%s` (affine form %s), expected (p+1)/2" % (short(q)[:100], aff), pt.get("span"))
    # --- degrees of freedom: pure conversion of the dof role
    t = nu
    while True:
        if t[0] == "call" and t[1].rsplit("::", 1)[-1] in ("expect", "unwrap") and t[3]:
            t = t[3][0]
        elif t[0] == "payload" and t[2] == "ok":
            t = t[1]
        elif t[0] == "cast":
            t = t[2]
        elif t[0] == "call" and t[1].rsplit("::", 1)[-1] in ("from_usize", "from", "into") and t[3]:
            t = t[3][0]
        else:
            break
    if sr["dof"] is not None:
        ok = t == ("field", me, sr["dof"])
    else:
        dd = sr["dof_derived"]
        ok = (t[0] == "bin" and t[1] in ("Sub", "SubUnchecked") and t[2][0] == "call" and t[3][0] == "call"
              and last_seg(t[2][1]) == dd["n"][0] and t[2][3] == (("field", me, dd["n"][1]),)
              and last_seg(t[3][1]) == dd["k"][0] and t[3][3] == (("field", me, dd["k"][1]),))
    R.add(rule, config, b.key, "nu=degrees-of-freedom", ok, "" if ok else "degrees of freedom handed to the quantile are `%s`, not the stored N−M−P" % short(nu)[:120], pt.get("span"))
    # --- radius_i = t · sigma_i for every sample i (canonical tabulation of the returned vector)
    import effects as fx
    import tab
    from rules_panic import nosite
    okr = False
    msg = "radius elements not recognised"
    tq = ev.call_val(env, pbi)
    cn = tab.Canon(ev)
    effs = list(fx.iteration_effects(ev, env))
    ev.fresh_ctx()
    T, why = tab.tab_of(cn, effs, ev.ret_val(env))
    sigma = ("field", me, sr["sigma"])
    if T is None:
        msg = "the returned vector is not recognised as filled element by element: " + why
    elif len(T["ivs"]) != 1:
        msg = "the radius is not indexed by one sample index"
    else:
        k = T["ivs"][0]
        v = T["val"]
        okv = False
        if v[0] == "call" and v[1].endswith("CastF64::from_f64"):
            m = v[3][0]
            if m[0] == "bin" and m[1] == "Mul":
                fs_ = (m[2], m[3])
                okv = any(nosite(y) == nosite(cn.canon(tq)) for y in fs_) and \
                    any(y[0] == "call" and y[1].endswith("CastF64::into_f64") and y[3] == (("at", sigma, k),) for y in fs_)
        oklen = tuple(T["dims"]) == (("nrows", sigma),)
        okr = okv and oklen and T["complete"]
        if not okv:
            msg = "radius element i is `%s`, expected t·σ_i" % short(v)[:120]
        elif not oklen:
            msg = "the radius vector has length `%s`, not one entry per sigma" % ", ".join(short(d)[:40] for d in T["dims"])
        elif not T["complete"]:
            msg = "not every radius entry is written"
    R.add(rule, config, b.key, "radius_i=t·sigma_i", okr, "" if okr else msg, b.j["span"])
    # --- sigma_i = sqrt(j_iᵀ Cov j_i) over rows of the unweighted J (constructor, possibly via helpers)
    cb_, cenv_, f, s, _ = ctor_fields(F, ev)
    a = args_by_type(cb_)
    oks = False
    msg = "sigma not recognised"
    cn2 = tab.Canon(ev)
    effs2 = list(fx.iteration_effects(ev, cenv_))
    T2, why2 = tab.tab_of(cn2, effs2, f[sr["sigma"]])
    sig_alloc = base_alloc(f[sr["sigma"]])
    if T2 is None:
        msg = "sigma is not recognised as filled element by element: " + why2
    elif len(T2["ivs"]) != 1:
        msg = "sigma is not indexed by one sample index"
    else:
        k = T2["ivs"][0]
        v = T2["val"]
        covc = nosite(cn2.canon(f[sr["cov"]]))
        rows = [x for x in walk(v) if x[0] == "row" and x[2] == k]
        Jt = rows[0][1] if rows else None
        okrow = Jt is not None and all(x[1] == Jt for x in rows)
        okJ = Jt is not None and not contains(Jt, lambda y: y[0] == "call" and y[1] == "std::ops::Mul::mul" and y[2] in (ADT_WEIGHTS, ADT_DIAG))

        def isjt(y):
            return y[0] == "call" and y[1].endswith("Matrix::transpose") and y[3] == (("row", Jt, k),)
        okv = False
        if v[0] == "call" and v[1].endswith("::sqrt"):
            d = v[3][0]
            if d[0] == "call" and d[1].endswith("::dot"):
                l, r = d[3]
                okv = isjt(l) and r[0] == "call" and r[1] == "std::ops::Mul::mul" and nosite(r[3][0]) == covc and isjt(r[3][1])
        oks = okrow and okJ and okv
        if not okrow:
            msg = "sigma_i is not computed from row i of the Jacobian (one per sample): `%s`" % short(v)[:120]
        elif not okJ:
            msg = "sigma uses the weighted Jacobian; the band of the fitted curve needs the unweighted one"
        elif not okv:
            msg = "sigma_i is `%s`, expected sqrt(j_iᵀ·Cov·j_i)" % short(v)[:160]
    R.add(rule, config, cb_.key, "sigma_i=sqrt(j_iᵀ·Cov·j_i),rows-of-unweighted-J", oks, "" if oks else msg, s.get("span"))
    # sigma vector has |S| entries
    al = sig_alloc
    okl = al[0] == "call" and is_call(dimval(al[3][0]), TRAIT_MODEL + "::output_len")
    R.add(rule, config, cb_.key, "sigma-has-one-entry-per-sample", okl, "" if okl else "sigma allocated as `%s`" % short(al)[:100], s.get("span"))
    R.floor(rule, config, 9, "precondition 3 + panic + quantile + nu + radius + sigma + length")


def rule_stats_sealed(F, ev, R, config, rule="R-STATS-SEALED"):
    """a FitStatistics value is what its single constructor computed: no public field, no assignment to or mutable borrow of
    a field anywhere, no `&mut` handed out, no second constructor (besides Clone, R-CLONE-IDENTITY). A public setter or
    `&mut` accessor would let a caller produce statistics that are not those of any fit."""
    for f in struct_fields(F, ADT_STATS):
        ok = f["vis"] != "pub"
        R.add(rule, config, ADT_STATS, "private:" + f["name"], ok, "" if ok else "field `%s` of FitStatistics is public" % f["name"])
    ctors = set((b.key, bi, si) for b, bi, si, s in stats_ctor_bodies(F))
    R.add(rule, config, ADT_STATS, "single-constructor", len(ctors) == 1, "" if len(ctors) == 1 else "%d construction sites of FitStatistics" % len(ctors))
    for b in sorted(F.bodies.values(), key=lambda x: x.key):
        im = b.j.get("impl", {})
        out = b.j.get("output", "")
        if b.kind != "Closure" and im.get("self_adt") == ADT_STATS and "&mut" in out:
            R.bad(rule, config, b.key, "no-mut-escape", "returns a mutable reference `%s` into the statistics" % out[:60], b.j["span"])
        if im.get("trait") == "std::clone::Clone" and im.get("self_adt") == ADT_STATS:
            continue
        for bi, si, s in b.stmts():
            if s["k"] != "assign":
                continue
            pf = [e for e in s["place"]["proj"] if e["k"] == "field" and e.get("owner") == ADT_STATS]
            if pf:
                R.bad(rule, config, b.key, "write:" + pf[0]["name"], "field `%s` of a FitStatistics value is written after construction" % pf[0]["name"], s.get("span"))
            rv = s["rv"]
            if rv["k"] in ("ref", "rawptr") and rv.get("mut"):
                pf = [e for e in rv["place"]["proj"] if e["k"] == "field" and e.get("owner") == ADT_STATS]
                if pf:
                    R.bad(rule, config, b.key, "mut-borrow:" + pf[0]["name"], "mutable borrow of field `%s` of a FitStatistics value" % pf[0]["name"], s.get("span"))
    R.floor(rule, config, 5, "private fields + single constructor")
