"""Quantified guard formulas.

Conditions that hold at a program point are turned into small first-order formulas over
iterator predicates, so that the many ways Rust code can say "some / every element of X
satisfies p" — `iter().any(p)`, `iter().all(p)`, `iter().find(p)` / `position(p)` tested for
Some/None, a `for` loop with an early exit, a private bool helper doing any of these — are the
*same* formula, with the correct polarity:

  F ::= ('atom', term)                 a boolean term that is true
      | ('rel', Eq|Ne|Lt|Le, a, b)     a canonical comparison
      | ('not', F) | ('and', (F..)) | ('or', (F..))
      | ('exists', IT, F) | ('forall', IT, F)    F may mention ('elem', IT)

Negations are pushed inward (¬∃ = ∀¬, ¬∀ = ∃¬, ¬rel = dual rel). Terms inside atoms are
compared modulo call-site identity. Closures are applied to the symbolic element
('elem', IT) — the same convention as `effects.py` — so closure form and loop form agree."""
from core import *
from effects import base_iter, norm_elems
from rules_panic import nosite

QUANT_ANY = ("any",)
QUANT_ALL = ("all",)
SEARCH = ("find", "position", "find_map", "rposition")


def f_not(f):
    t = f[0]
    if t == "not":
        return f[1]
    if t == "exists":
        return ("forall", f[1], f_not(f[2]))
    if t == "forall":
        return ("exists", f[1], f_not(f[2]))
    if t == "and":
        return ("or", tuple(sorted((f_not(x) for x in f[1]), key=repr)))
    if t == "or":
        return ("and", tuple(sorted((f_not(x) for x in f[1]), key=repr)))
    if t == "rel":
        rel, a, b = f[1], f[2], f[3]
        r = canon_rel(("bin", NEG[rel], a, b), True)
        return ("rel",) + r
    if t == "true":
        return ("false",)
    if t == "false":
        return ("true",)
    return ("not", f)


def f_and(fs):
    out = []
    for f in fs:
        if f[0] == "true":
            continue
        if f[0] == "and":
            out.extend(f[1])
        else:
            out.append(f)
    out = sorted(set(out), key=repr)
    if not out:
        return ("true",)
    if len(out) == 1:
        return out[0]
    return ("and", tuple(out))


def f_or(fs):
    out = []
    for f in fs:
        if f[0] == "false":
            continue
        if f[0] == "or":
            out.extend(f[1])
        else:
            out.append(f)
    out = sorted(set(out), key=repr)
    if not out:
        return ("false",)
    if len(out) == 1:
        return out[0]
    return ("or", tuple(out))


def split_filters(it):
    """∃x∈filter(E,p).q ≡ ∃x∈E. p∧q : returns (E, [filter closures])"""
    extra = []
    it = base_iter(it)
    while it[0] == "call" and it[1].rsplit("::", 1)[-1] in ("filter", "into_iter", "by_ref", "copied", "cloned") and it[3]:
        if it[1].rsplit("::", 1)[-1] == "filter" and len(it[3]) == 2:
            extra.append(it[3][1])
        it = base_iter(it[3][0])
    return it, extra


def canon_index(t):
    """index spaces: `enumerate(iter(X))` element index and `0..len(X)` element both become ('idx', X);
    the element of `enumerate(iter(X))` becomes ('item', X)"""
    if not isinstance(t, tuple) or not t:
        return t
    if t[0] == "field" and len(t) == 3 and isinstance(t[1], tuple) and t[2] in ("0", "1") and t[1][0] == "elem":
        it = base_iter(t[1][1])
        if it[0] == "call" and it[1].rsplit("::", 1)[-1] == "enumerate":
            src = base_iter(it[3][0])
            while src[0] == "call" and src[1].rsplit("::", 1)[-1] in ("iter", "into_iter", "iter_mut"):
                src = base_iter(src[3][0])
            return ("idx", canon_index(src)) if t[2] == "0" else ("item", canon_index(src))
    if t[0] == "elem" and len(t) == 2 and isinstance(t[1], tuple):
        it = base_iter(t[1])
        if it[0] == "agg" and it[1].endswith("ops::Range"):
            d = dict(it[3])
            if d.get("start") == ("const", "usize", 0):
                end = d.get("end")
                if end[0] == "call" and end[1].rsplit("::", 1)[-1] == "len" and end[3]:
                    return ("idx", canon_index(end[3][0]))
        src = it
        plain = False
        while src[0] == "call" and src[1].rsplit("::", 1)[-1] in ("iter", "into_iter", "iter_mut"):
            src = base_iter(src[3][0])
            plain = True
        if plain or src[0] in ("param", "field", "payload"):
            # `X.iter()` and `for x in X` (IntoIterator of a slice / &Vec) both yield the items of X
            return ("item", canon_index(src))
        return ("elem", canon_index(it))
    if t[0] == "call" and len(t) == 5:
        return ("call", t[1], t[2], tuple(canon_index(a) for a in t[3]), None)
    return tuple(canon_index(x) if isinstance(x, tuple) else x for x in t)


def canon_domain(it):
    """the collection a quantifier ranges over (positions or items of it)"""
    it = base_iter(it)
    if it[0] == "call" and it[1].rsplit("::", 1)[-1] == "enumerate":
        it = base_iter(it[3][0])
    if it[0] == "agg" and it[1].endswith("ops::Range"):
        d = dict(it[3])
        end = d.get("end")
        if d.get("start") == ("const", "usize", 0) and end[0] == "call" and end[1].rsplit("::", 1)[-1] == "len" and end[3]:
            return canon_index(end[3][0])
    while it[0] == "call" and it[1].rsplit("::", 1)[-1] in ("iter", "into_iter", "iter_mut"):
        it = base_iter(it[3][0])
    return canon_index(it)


class Logic:
    def __init__(self, ev, bool_summaries=True):
        self.ev = ev
        self.F = ev.facts
        self.depth = 0

    # ----------------------------------------------------------------- #
    def closure_body_formula(self, clo, it, truth=True):
        """formula of `closure(elem(it))` being `truth`"""
        cb = self.F.bodies.get(clo[1]) if clo[0] == "closure" else None
        if clo[0] == "fnref":
            if clo[2] and clo[2] in self.F.bodies and self.F.bodies[clo[2]].j.get("output") == "bool":
                fb = self.F.bodies[clo[2]]
                env = Env(fb, {1: ("elem", it)}, 2)
                return self.returns_true(fb, env) if truth else f_not(self.returns_true(fb, env))
            a = ("atom", canon_index(nosite(("call", clo[1], None, (("elem", it),), None))))
            return a if truth else ("not", a)
        if cb is None:
            return ("atom", nosite(("apply", clo, ("elem", it)))) if truth else ("not", ("atom", nosite(("apply", clo, ("elem", it)))))
        env = Env(cb, {1: clo, 2: ("elem", it)}, 2)
        return self.returns_true(cb, env) if truth else f_not(self.returns_true(cb, env))

    def returns_true(self, body, env):
        """formula under which a bool-returning body returns true"""
        if self.depth > 6:
            return ("atom", ("deep",))
        self.depth += 1
        try:
            ev = self.ev
            saved = ev.ctx
            ev.fresh_ctx()
            v = ev.ret_val(env)
            ev.ctx = saved
            alts = v[1] if v[0] == "phi" else (v,)
            if len(alts) == 1 and not (alts[0][0] == "const"):
                return self.of_term(alts[0], True)
            # several constant alternatives: use the path conditions of the `true` sites
            sites = []
            for bi in sorted(body.live_blocks()):
                for si, s in enumerate(body.blocks[bi]["stmts"]):
                    if s["k"] == "assign" and s["place"]["l"] == 0 and not s["place"]["proj"]:
                        val = ev.rvalue(env, s["rv"], (bi, si))
                        sites.append((bi, val))
                t = body.blocks[bi]["term"]
                if t["k"] == "call" and t["dest"]["l"] == 0 and not t["dest"]["proj"]:
                    sites.append((bi, ev.call_val(env, bi)))
            disj = []
            for bi, val in sites:
                conds = self.conditions_at(body, env, bi)
                if val == ("const", "bool", 1):
                    f = f_and(conds)
                elif val == ("const", "bool", 0):
                    continue
                else:
                    f = f_and(conds + [self.of_term(val, True)])
                # a `return true` inside a search loop (or reached only by leaving it early): true iff SOME element
                # satisfies the conditions met on the way
                for it in self.search_loops_of(body, env, bi):
                    f = ("exists", nosite(canon_domain(it)), f)
                disj.append(f)
            return f_or(disj)
        finally:
            self.depth -= 1

    def search_loops_of(self, body, env, block):
        """iterators of the `for` loops that `block` lies in, or that are left early on the way to it (the block is only
        reachable through the Some edge of their `next`)"""
        out = []
        for h, blk in body.natural_loops().items():
            for lb in sorted(blk):
                tt = body.blocks[lb]["term"]
                if not (tt["k"] == "call" and "fn" in tt and callee_id(tt["fn"]) == "std::iter::Iterator::next"):
                    continue
                inside = block in blk
                if not inside:
                    for (sb, si, pk, variants) in body.discr_switches():
                        if sb in blk and pk[0] == tt["dest"]["l"] and not pk[1]:
                            yes, no = variant_edge(body, sb, "Some")
                            if yes and body.edge_dominates(yes[0], block):
                                inside = True
                if inside:
                    out.append(self.ev.operand(env, tt["args"][0], (lb, None)))
        return out

    def of_term(self, t, truth=True):
        """formula of a boolean term having value `truth`"""
        neg = not truth
        while t[0] == "un" and t[1] == "Not":
            t, neg = t[2], not neg
        f = self._pos(t)
        return f_not(f) if neg else f

    def _pos(self, t):
        if t == ("const", "bool", 1):
            return ("true",)
        if t == ("const", "bool", 0):
            return ("false",)
        if t[0] == "bin" and t[1] in ("LAnd", "LOr") and len(t) == 4:
            # the value of a short-circuit `a && b` / `a || b` (terms._fold_bool_diamond)
            return (f_and if t[1] == "LAnd" else f_or)([self.of_term(t[2], True), self.of_term(t[3], True)])
        r = canon_rel(t, True)
        if r:
            a_, b_ = nosite(canon_index(norm_elems(r[1]))), nosite(canon_index(norm_elems(r[2])))
            if r[0] in ("Eq", "Ne") and repr(a_) > repr(b_):
                a_, b_ = b_, a_
            return ("rel", r[0], a_, b_)
        if t[0] == "is_ok":
            return self.of_option(t[1], True)
        if t[0] == "phi":
            # value merged from several paths without conditions: cannot be expressed
            return ("atom", nosite(canon_index(norm_elems(t))))
        if t[0] == "call":
            last = t[1].rsplit("::", 1)[-1]
            is_iter = "Iterator::" in t[1] or t[1].startswith("rayon::iter::")
            if is_iter and last in QUANT_ANY and len(t[3]) == 2:
                return self.quant("exists", t[3][0], [t[3][1]])
            if is_iter and last in QUANT_ALL and len(t[3]) == 2:
                it, extra = split_filters(t[3][0])
                # ∀x∈filter(E,p).q ≡ ∀x∈E. ¬p ∨ q
                body = self.closure_body_formula(t[3][1], it, True)
                if extra:
                    body = f_or([f_not(self.closure_body_formula(c, it, True)) for c in extra] + [body])
                return ("forall", nosite(canon_domain(it)), body)
            key = self.local_bool_fn(t)
            if key is not None:
                cb = self.F.bodies[key]
                return self.returns_true(cb, Env(cb, {i + 1: x for i, x in enumerate(t[3])}, 2))
            if last in ("is_some", "is_ok") and t[3]:
                return self.of_option(t[3][0], True)
            if last in ("is_none", "is_err") and t[3]:
                return self.of_option(t[3][0], False)
            if last == "contains" and t[1].startswith("core::slice") or (last == "contains" and "Vec" in t[1]):
                it = ("call", "core::slice::iter", None, (t[3][0],), None)
                x = t[3][1]
                return ("exists", nosite(canon_domain(it)), ("rel", "Eq") + tuple(sorted((nosite(canon_index(("elem", norm_elems(it)))), nosite(canon_index(norm_elems(x)))), key=repr)))
            # local bool helper kept symbolic: expand its summary
            key = None
            for k, b in self.F.bodies.items():
                pass
        return ("atom", nosite(canon_index(norm_elems(t))))

    def quant(self, q, it_term, closures):
        it, extra = split_filters(it_term)
        body = f_and([self.closure_body_formula(c, it, True) for c in extra + closures])
        return (q, nosite(canon_domain(it)), body)

    def local_bool_fn(self, t):
        """key of the local bool-returning function a symbolic call term refers to"""
        if t[0] != "call" or t[4] is None:
            return None
        for k, b in self.F.bodies.items():
            if b.kind != "Closure" and b.j.get("output") == "bool" and strip_generics(b.j.get("path", "")) == t[1]:
                return k
        return None

    def of_option(self, opt_term, present):
        """formula of an Option/Result value being present"""
        t = opt_term
        while t[0] in ("cf",):
            t = t[1]
        if t[0] == "opt":
            # presence conditions collected by the evaluator
            fs = []
            bound = [c[1] for c in t[2] if c[0] == "bound"]
            for c in t[2]:
                if c[0] == "bound":
                    continue
                if c[0] == "has_next" and bound:
                    continue
                if c[0] == "is_ok":
                    fs.append(self.of_option(c[1], True))
                elif c[0] == "pred":
                    fs.append(self.of_term(c[1], True))
                elif c[0] == "forall":
                    fs.append(("forall", nosite(canon_domain(c[1])), self.of_term(norm_elems(c[2]), c[3])))
                elif c[0] == "has_next":
                    fs.append(("atom", nosite(canon_index(norm_elems(c)))))
            f = f_and(fs)
            for it in bound:
                f = ("exists", nosite(canon_domain(it)), f)
            return f if present else f_not(f)
        if t[0] == "none":
            return ("false",) if present else ("true",)
        if t[0] == "phi":
            fs = []
            okk = True
            for a in t[1]:
                if a[0] in ("none", "from_residual", "unreachable") or (a[0] == "agg" and a[2] in ("Err", "None")):
                    continue
                if a[0] == "opt":
                    fs.append(self.of_option(a, True))
                elif a[0] == "agg" and a[2] in ("Ok", "Some"):
                    okk = False   # present without recorded conditions
                else:
                    okk = False
            if okk:
                f = f_or(fs)
                return f if present else f_not(f)
        if t[0] == "call":
            last = t[1].rsplit("::", 1)[-1]
            if last == "find_map" and len(t[3]) == 2 and ("Iterator::" in t[1]) and t[3][1][0] == "closure" and t[3][1][1] in self.F.bodies:
                # ∃x. f(x) is Some
                it, extra = split_filters(t[3][0])
                cb = self.F.bodies[t[3][1][1]]
                saved = self.ev.ctx
                self.ev.fresh_ctx()
                v = self.ev.ret_val(Env(cb, {1: t[3][1], 2: ("elem", it)}, 2))
                self.ev.ctx = saved
                body = f_and([self.closure_body_formula(c, it, True) for c in extra] + [self.of_option(v, True)])
                f = ("exists", nosite(canon_domain(it)), body)
                return f if present else f_not(f)
            if last in SEARCH and len(t[3]) == 2 and ("Iterator::" in t[1]):
                f = self.quant("exists", t[3][0], [t[3][1]])
                return f if present else f_not(f)
            if last in ("get", "get_mut") and "HashMap" in t[1] and len(t[3]) == 2:
                f = ("atom", nosite(canon_index(norm_elems(("call", "std::collections::HashMap::contains_key", t[2], t[3], None)))))
                return f if present else f_not(f)
            if last in ("then", "then_some") and "bool" in t[1] and t[3]:
                # `cond.then(|| v)` is Some exactly when cond holds
                return self.of_term(t[3][0], present)
            if last == "checked_sub" and len(t[3]) == 2:
                f = ("rel",) + canon_rel(("bin", "Le", t[3][1], t[3][0]), True)
                return f if present else f_not(f)
        f = ("atom", nosite(canon_index(norm_elems(("present", t)))))
        return f if present else f_not(f)

    # ----------------------------------------------------------------- #
    def conditions_at(self, body, env, block):
        """[formulas] that hold whenever `block` of `body` executes"""
        g = Guards(self.ev, body, env)
        rels, raw = g.relations_at(block)
        out = []
        for term, truth, sw in raw:
            if isinstance(truth, bool):
                out.append(self.of_term(term, truth))
            elif truth == "forall":
                out.append(("forall", nosite(canon_domain(term[1])), self.of_term(norm_elems(term[2]), term[3])))
            elif term[0] == "discr":
                variants, _, _ = discr_variants(sw.get("body", body), sw["block"])
                names = dict(variants or [])
                vs = set(names.get(v) for v in truth if v != "otherwise")
                if "otherwise" in truth:
                    listed = set(v for v, _ in sw["targets"])
                    vs |= set(n for v, n in (variants or []) if v not in listed)
                inner = term[1]
                if inner[0] == "opt" and any(c[0] == "has_next" for c in inner[2]) and inner[1][0] == "elem":
                    continue   # loop control (`for` desugaring), not a guard
                if vs and vs <= {"Some", "Ok", "Continue"}:
                    out.append(self.of_option(inner, True))
                elif vs and vs <= {"None", "Err", "Break"}:
                    out.append(self.of_option(inner, False))
        for r in rels:
            out.append(("rel", r[0], nosite(canon_index(norm_elems(r[1]))), nosite(canon_index(norm_elems(r[2])))))
        for fa in foralls_at(g, block):
            out.append(("forall", nosite(canon_domain(fa[1])), self.of_term(norm_elems(fa[2]), fa[3])))
        # de-duplicate
        res = []
        for f in out:
            if f not in res and f[0] != "true":
                res.append(f)
        return res


def mentions(f, pred):
    """some term inside formula f satisfies pred"""
    st = [f]
    while st:
        x = st.pop()
        if isinstance(x, tuple):
            if x and isinstance(x[0], str) and pred(x):
                return True
            st.extend(y for y in x if isinstance(y, tuple))
    return False


def show_f(f, d=0):
    t = f[0]
    if t == "atom":
        return short(f[1])[:90]
    if t == "rel":
        return "%s(%s, %s)" % (f[1], short(f[2])[:50], short(f[3])[:50])
    if t == "not":
        return "¬" + show_f(f[1], d + 1)
    if t in ("and", "or"):
        return "(" + (" ∧ " if t == "and" else " ∨ ").join(show_f(x, d + 1) for x in f[1]) + ")"
    if t in ("exists", "forall"):
        return "%s x∈%s. %s" % ("∃" if t == "exists" else "∀", short(f[1])[:50], show_f(f[2], d + 1))
    return t
