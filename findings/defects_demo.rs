//! Demonstrations of the three genuine defects found by the static rules
//! (R-DOF-GUARD / C12, R-ERR-DISCIPLINE / C09, R-SVD-FINITE / C08).
//! Copy to <varpro checkout>/tests/defects_demo.rs and run
//!   cargo test --offline --test defects_demo
//! On the pinned tree (d41ce39) all three fail; with the three `fix:` commits all pass.
use nalgebra::{DMatrix, DVector, Dyn, OMatrix};
use varpro::model::builder::SeparableModelBuilder;
use varpro::model::SeparableModel;
use varpro::prelude::*;
use varpro::solvers::levmar::{LevMarProblemBuilder, LevMarSolver};

fn exp_decay(x: &DVector<f64>, tau: f64) -> DVector<f64> {
    x.map(|x| (-x / tau).exp())
}
fn exp_decay_dtau(x: &DVector<f64>, tau: f64) -> DVector<f64> {
    x.map(|x| (-x / tau).exp() * x / (tau * tau))
}

fn double_exp_model(x: DVector<f64>, tau: Vec<f64>) -> SeparableModel<f64> {
    SeparableModelBuilder::<f64>::new(&["tau1", "tau2"])
        .function(&["tau1"], exp_decay)
        .partial_deriv("tau1", exp_decay_dtau)
        .function(&["tau2"], exp_decay)
        .partial_deriv("tau2", exp_decay_dtau)
        .invariant_function(|x| DVector::from_element(x.len(), 1.))
        .independent_variable(x)
        .initial_parameters(tau)
        .build()
        .unwrap()
}

/// C12: N=4 samples, M=3 basis functions, P=2 parameters: N < M+P must give Err, not a panic
#[test]
fn c12_underdetermined_fit_with_statistics_returns_err_instead_of_panicking() {
    let x = DVector::from_vec(vec![0., 1., 2., 3.]);
    let model = double_exp_model(x.clone(), vec![1.0, 3.0]);
    let y = x.map(|x: f64| 2. * (-x / 1.0).exp() + 3. * (-x / 3.0).exp() + 1.);
    let problem = LevMarProblemBuilder::new(model).observations(y).build().unwrap();
    let res = std::panic::catch_unwind(std::panic::AssertUnwindSafe(|| LevMarSolver::default().fit_with_statistics(problem).is_err()));
    assert_eq!(res.ok(), Some(true), "expected Err(..) without panic for N <= M + P");
}

#[derive(Debug)]
struct Rejected;
impl std::fmt::Display for Rejected {
    fn fmt(&self, f: &mut std::fmt::Formatter<'_>) -> std::fmt::Result {
        write!(f, "tau must be positive")
    }
}
impl std::error::Error for Rejected {}

/// a hand written model that rejects non-positive tau in set_params
#[derive(Clone)]
struct Picky {
    x: DVector<f64>,
    tau: f64,
}
impl SeparableNonlinearModel for Picky {
    type ScalarType = f64;
    type Error = Rejected;
    fn parameter_count(&self) -> usize {
        1
    }
    fn base_function_count(&self) -> usize {
        1
    }
    fn output_len(&self) -> usize {
        self.x.len()
    }
    fn set_params(&mut self, p: DVector<f64>) -> Result<(), Rejected> {
        if p[0] <= 0. {
            return Err(Rejected);
        }
        self.tau = p[0];
        Ok(())
    }
    fn params(&self) -> DVector<f64> {
        DVector::from_vec(vec![self.tau])
    }
    fn eval(&self) -> Result<OMatrix<f64, Dyn, Dyn>, Rejected> {
        Ok(DMatrix::from_column_slice(self.x.len(), 1, exp_decay(&self.x, self.tau).as_slice()))
    }
    fn eval_partial_deriv(&self, _: usize) -> Result<OMatrix<f64, Dyn, Dyn>, Rejected> {
        Ok(DMatrix::from_column_slice(self.x.len(), 1, exp_decay_dtau(&self.x, self.tau).as_slice()))
    }
}

/// C09: after a rejected parameter vector no residuals may be reported
#[test]
fn c09_rejected_parameters_leave_no_stale_residuals() {
    let x = DVector::from_vec(vec![0., 1., 2., 3., 4.]);
    let y = x.map(|x: f64| 2. * (-x / 2.0).exp());
    let mut problem = LevMarProblemBuilder::new(Picky { x, tau: 1.0 }).observations(y).build().unwrap();
    assert!(problem.residuals().is_some());
    problem.set_params(&DVector::from_vec(vec![-1.0]));
    assert!(
        problem.residuals().is_none(),
        "model rejected the parameters, but residuals (for the previous parameters) are still reported"
    );
    assert!(problem.jacobian().is_none());
}

/// C08: a start value that makes one basis function NaN must not hang or panic build()
#[test]
fn c08_non_finite_basis_matrix_does_not_hang_or_panic() {
    let (tx, rx) = std::sync::mpsc::channel();
    std::thread::spawn(move || {
        let x = DVector::from_vec((0..8).map(|i| i as f64).collect::<Vec<_>>());
        let model = double_exp_model(x.clone(), vec![0.0, 3.0]);
        let y = x.map(|x: f64| 2. * (-x / 1.0).exp() + 3. * (-x / 3.0).exp() + 1.);
        let r = std::panic::catch_unwind(std::panic::AssertUnwindSafe(|| {
            let problem = LevMarProblemBuilder::new(model).observations(y).build().unwrap();
            problem.residuals().is_none()
        }));
        let _ = tx.send(r.ok());
    });
    match rx.recv_timeout(std::time::Duration::from_secs(10)) {
        Ok(Some(true)) => {}
        Ok(Some(false)) => panic!("residuals reported for a non-finite basis matrix"),
        Ok(None) => panic!("build() panicked on a non-finite basis matrix"),
        Err(_) => panic!("build() did not return within 10 s (SVD of a matrix containing NaN)"),
    }
}
